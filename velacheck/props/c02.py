"""C02 NPU memory accesses stay inside the declared regions (structural clauses)."""
import ast
import re

from ..absint import AList, AObj, BV, Interp, Unknown
from ..astutil import calls_in, call_name, dotted, norm, walk_no_nested
from ..cfg import cfg_of
from ..core import AnalysisError

GEN = "ethosu/vela/register_command_stream_generator.py"
HL = "ethosu/vela/high_level_command_to_npu_op.py"
AF = "ethosu/vela/architecture_features.py"
TA = "ethosu/vela/tensor_allocation.py"
CD = "ethosu/vela/compiler_driver.py"


def run(repo, rep):
    rep.clause("C02-a", "every operation is bounds-checked (check_mem_limits on its own access set) before anything is emitted for it")
    rep.clause("C02-b", "check_mem_limits rejects an unknown region, a negative offset and an offset above the limit, for both ends of every range of every access direction (all paths enumerated)")
    rep.clause("C02-c", "the limits handed to the generator are the architecture's per memory type; fast scratch is limited by the arena cache size exactly when spilling is enabled")
    rep.clause("C02-d", "nothing is written to the constants region: region table, producers of permanent memory types, DMA destinations")
    rep.clause("C02-e", "published scratch / fast-scratch extents are the allocator totals of the root subgraph (single writer, single reader)")
    rep.undecided("that every emitted address lies inside the *published* tensor sizes (needs the allocator's addresses for a concrete network); exact strided footprints")
    rep.assume("Python asserts are enabled")
    from .shared import idle_core_windows

    rep.clause("C02-o", "every present core gets its weight and scale window programmed by every operation that has weights: an idle core gets length 0 (the registers are persistent; "
               "check_mem_limits only sees the operation's own ranges)")
    idle_core_windows(repo, rep, "C02-o")
    rep.clause("C02-q", "register / operand agreement: a helper that writes IFM2 (IFM, OFM) registers is handed the ifm2 (ifm, ofm) feature map - layout and type bits belong to the operand whose addresses and strides are emitted")
    from .shared import register_operand_agreement

    if register_operand_agreement(repo, rep, "C02-q") < 8:
        raise AnalysisError("register_command_stream_generator: fewer than 8 calls name both a register family and an operand")
    rep.clause("C02-r", "a resize of a 1x1 feature map becomes an ADD with a zero constant of the OFM's shape (an operand smaller than the OFM without broadcast bits is read past its end)")
    rule_resize_1x1_constant(repo, rep)
    rep.clause("C02-t", "intermediates of a lowered binary operator that combine both operands are shaped like the result (not cloned from one fixed operand)")
    rule_mixed_intermediates(repo, rep)
    rep.clause("C02-s", "OFM boxes of depth slices are clamped to the operator's write window [ofm_start.depth, ofm_end.depth] (a channel-axis concatenation input is not read beyond its own depth) [rule shared with C10-a]")
    from . import c10 as _c10

    rep.run_borrowed(_c10, {"C10-a": "C02-s"}, repo)
    rep.clause("C02-u", "what the registers describe is what was bounds-checked: kernel strides keep their axes on the way to NPU_SET_KERNEL_STRIDE [C10-c], the weight DMA starts at core 0's range [C08-l], the register elision compares with the value the hardware holds [C06-e]")
    rep.clause("C02-v", "address arithmetic of feature maps (functions interpreted): a NHCWB16 coordinate splits the channel into brick c // 16 and lane c % 16 for every element size; the storage shape of a rolling buffer is clipped to the buffer (min with the parameter), never grown")
    rep.clause("C02-w", "a tensor gets the brick format only if every operator around it sees it with the tensor's own shape and no DMA copy touches it: both loops of _avoid_nhcwb16_for_shapes compare with the operator's view (ifm_shapes / ofm_shapes); the memory-only predicate holds for Op.Memcpy")
    rule_nhcwb16_restrictions(repo, rep)
    rep.clause("C02-x", "the per-format NHWC tables are cut to the tensor's rank from the end (`[-shape_len:]`): a tensor of rank < 4 keeps the channel rounding of its format")
    rep.clause("C02-y", "a slice read moved into its consumer lands on the operand that read the slice: one operand index per branch of move_splitsliceread_to_consumer")
    rule_round10_geometry(repo, rep)
    rep.clause("C02-z", "accesses to a rolling buffer wrap at the buffer's own storage shape (the storage shape of addresses_for_rolling_buffer depends on is_standard_fm)")
    rule_rolling_buffer_tiles(repo, rep)
    rep.clause("C02-ab", "a LUT DMA stays inside the SHRAM LUT area: the table is placed on a multiple of its own storage size (step argument of find_best_address)")
    rule_lut_placement_step(repo, rep)
    rep.clause("C02-aa", "the region index of a memory type is computed for the architecture at hand: the command modules keep no process-wide memo [rule shared with C14-a / C06-v]")
    from . import c14 as _c14aa

    rep.run_borrowed(_c14aa, {"C14-a": "C02-aa"}, repo, only_sites=("high_level_command_to_npu_op", "register_command_stream_generator", "register_command_stream_util", "npu_serialisation"))
    rule_tensor_geometry(repo, rep)
    from . import c06 as _c06u
    from . import c08 as _c08u

    rep.run_borrowed(_c10, {"C10-c": "C02-u"}, repo, only_sites=("register_command_stream_util", "register_command_stream_generator", "high_level_command_to_npu_op"))
    rep.run_borrowed(_c08u, {"C08-l": "C02-u"}, repo)
    rep.run_borrowed(_c06u, {"C06-e": "C02-u"}, repo)
    rule_a(repo, rep)
    rule_b(repo, rep)
    rule_c(repo, rep)
    rule_d(repo, rep)
    rule_extents(repo, rep, "C02-e")
    # clauses shared with C08 / C03: the reservations that become the published extents are as large as what is written into them
    rep.clause("C02-f", "weight double-buffer reservations span all cores of a depth slice (the DMA that fills the buffer writes that much) [rule shared with C08-e]")
    rep.clause("C02-g", "rolling-buffer reservations are as wide and tall as the producer writes and are recomputed for every cascade proposal [rule shared with C03-e]")
    from . import c03, c08

    rep.run_borrowed(c08, {"C08-e": "C02-f"}, repo)
    rule_weight_buffers(repo, rep)
    rule_round5(repo, rep)
    rep.run_borrowed(c03, {"C03-e": "C02-g"}, repo)
    rep.clause("C02-h", "the memory mode and arena cache size that bound the regions are the ones the selected configuration section defines (a section's own key overrides what it inherits) [rule shared with C18-b]")
    from . import c18

    rep.run_borrowed(c18, {"C18-b": "C02-h"}, repo)
    rep.clause("C02-j", "what the hardware is told to read or write is what the access model assumes: IFM2 broadcast bits are set per dimension independently [rule shared with C06-c]; the published arena total counts the aligned address actually assigned [rule shared with C05-c]; a transposing OFM is strided by its own (W, H swapped) shape")
    from . import c05, c06

    rep.run_borrowed(c06, {"C06-c": "C02-j"}, repo)
    rep.run_borrowed(c05, {"C05-c": "C02-j"}, repo)
    hn = repo.mod("high_level_command_to_npu_op")
    cf = hn.func("create_feature_map")
    tb = [n_ for n_ in ast.walk(cf) if isinstance(n_, ast.If) and "Op.Transpose" in str(norm(n_.test))]
    if len(tb) != 1:
        raise AnalysisError("create_feature_map: Transpose branch not found")
    gs = [c for c in calls_in(ast.Module(body=tb[0].body, type_ignores=[]), ".get_strides")]
    ok = False
    detail = "no get_strides call for the transposed shape inside the Transpose branch"
    if len(gs) == 1 and gs[0].args:
        a = gs[0].args[0]
        sa = {norm(t_.targets[0]): t_.value for t_ in ast.walk(cf) if isinstance(t_, ast.Assign) and len(t_.targets) == 1}
        while isinstance(a, ast.Name) and a.id in sa:
            a = sa[a.id]
        txt = str(norm(a))
        detail = txt
        ok = isinstance(a, ast.Call) and call_name(a) == "Shape4D" and re.sub(r"\s", "", txt) in ("Shape4D([op_shape4D.batch,op_shape4D.width,op_shape4D.height,op_shape4D.depth])",
                                                                                                "Shape4D(op_shape4D.batch,op_shape4D.width,op_shape4D.height,op_shape4D.depth)")
    rep.check(ok, "C02-j", "ethosu/vela/high_level_command_to_npu_op.py:create_feature_map", "the OFM of a Transpose is strided by the shape [N, W, H, C] (op_shape4D holds the IFM shape)",
              f"strides come from `{detail}`: with the un-transposed shape the swapped strides address up to W*W*C bytes of an H*W*C tensor")
    # (k) a DMA copy between feature maps copies the source's storage: both ends stay in linear format, and the scale stream is
    # addressed in the region of its own tensor
    rep.clause("C02-k", "tensors touched by an NPU memory copy (Op.Memcpy) are kept out of the brick format (the copy length is taken from the source's strides); the scale stream's region is that of the scale tensor")
    gu = repo.mod("graph_optimiser_util")
    am = gu.func("_avoid_nhcwb16_for_memory_only")
    gens = [g for g in ast.walk(am) if isinstance(g, ast.GeneratorExp)]
    ok = False
    detail = "test not recognised"
    if gens:
        t = gens[0].elt
        detail = str(norm(t))
        if norm(t) == "op.type == Op.Memcpy":
            ok = True
        elif isinstance(t, ast.Compare) and len(t.ops) == 1 and isinstance(t.ops[0], ast.In) and norm(t.left) == "op.type":
            src = t.comparators[0]
            if isinstance(src, ast.Name) and src.id in gu.assigns:
                src = gu.assigns[src.id]
            ok = "Op.Memcpy" in str(norm(src))
            detail += f" with {str(norm(src))[:80]}"
    rep.check(ok, "C02-k", "ethosu/vela/graph_optimiser_util.py:_avoid_nhcwb16_for_memory_only", "a tensor produced or consumed by Op.Memcpy is excluded from NHCWB16", detail +
              ": Op.Memcpy is not recognised, both ends of the copy may get the brick format and the DMA length (from the source's rounded strides) exceeds the destination tensor")
    if gens:
        it_txt = str(norm(gens[0].generators[0].iter))
        rep.check("tens.consumer_list" in it_txt and "tens.ops" in it_txt, "C02-k", "ethosu/vela/graph_optimiser_util.py:_avoid_nhcwb16_for_memory_only",
                  "both the consumers and the producers of the tensor are searched for an Op.Memcpy", f"searches `{it_txt}` only: the output of an NPU memory copy (written as a linear byte copy) may be switched to the "
                  "brick format, and its consumer then addresses linearly written bytes as bricks (never-written bytes for depths that are no multiple of 16)")
    # a slice read is never folded into an Op.Memcpy consumer: the DMA that implements the copy transfers the whole, un-sliced source
    go_ = repo.mod("tflite_graph_optimiser")
    rs_ = go_.func("remove_SplitSliceRead")
    q_ = [c_ for c_ in ast.walk(rs_) if isinstance(c_, ast.Call) and isinstance(c_.func, ast.Name) and c_.func.id in ("all", "any") and c_.args and isinstance(c_.args[0], ast.GeneratorExp)
          and "consumer_list" in str(norm(c_.args[0].generators[0].iter))]
    if len(q_) != 1:
        raise AnalysisError("remove_SplitSliceRead: quantifier over the consumers not found")
    from ..exprnorm import conjuncts as _cj2

    cj_ = {str(norm(x)) for x in _cj2(q_[0].args[0].elt)}
    rep.check("consumer.type != Op.Memcpy" in cj_ or "Op.Memcpy != consumer.type" in cj_ or any("Op.Memcpy" in t and "not in" in t for t in cj_), "C02-k", "ethosu/vela/tflite_graph_optimiser.py:remove_SplitSliceRead",
              "the slice read is folded into the consumers only if none of them is an NPU memory copy (Op.Memcpy)",
              f"qualifying condition {sorted(cj_)} admits Op.Memcpy: a STRIDED_SLICE / SPLIT output consumed by a RESHAPE that became a Memcpy is copied with the length of the whole source "
              "(demonstrated: 1536 bytes into a 512-byte tensor, destination [2048,3584) with a 2560-byte scratch tensor)")
    # ... and only into consumers that see the tensor in the shape in which the slice produces it: the offset and shape that
    # move_splitsliceread_to_consumer hands over are coordinates of that shape, and it replaces the consumer's IFM shape wholesale
    gen_ = q_[0].args[0]
    cvar = gen_.generators[0].target.id if isinstance(gen_.generators[0].target, ast.Name) else "consumer"
    view = [x for x in _cj2(gen_.elt) if f"{cvar}.ifm_shapes" in str(norm(x)) and "op.ofm_shapes" in str(norm(x))]
    rep.check(bool(view), "C02-k", "ethosu/vela/tflite_graph_optimiser.py:remove_SplitSliceRead",
              "the slice read is folded into a consumer only if the consumer's IFM shape for that tensor equals the slice's OFM shape",
              f"no conjunct of {sorted(cj_)} compares `{cvar}.ifm_shapes` with `op.ofm_shapes`: an operator with a re-shaped view of its input (the max-pool of a lowered SOFTMAX views [1,H,W,C] as "
              "[1,H*W,C,1]; the lowered MEAN likewise) applies the read offset in its own coordinates (demonstrated: SOFTMAX of the slice [2:6,3:9,:] of a [1,8,12,16] tensor: IFM read [0,3793) of a "
              "1536-byte scratch tensor; 308 never-defined bytes read)")
    cw = hn.func("create_weights")
    # the address range of a stand-alone scale stream is built in the scale tensor's region, the others in the weight tensor's
    for i_ in ast.walk(cw):
        if isinstance(i_, ast.If) and str(norm(i_.test)) == "scale_tensor":
            for branch, want in ((i_.body, "scale_region"), (i_.orelse, "shared_region")):
                for c_ in [c2 for b in branch for c2 in ast.walk(b) if isinstance(c2, ast.Call) and call_name(c2) == "NpuAddressRange" and c2.args]:
                    rep.check(str(norm(c_.args[0])) == want, "C02-k", "ethosu/vela/high_level_command_to_npu_op.py:create_weights",
                              f"the scale range {'of a stand-alone scale tensor' if want == 'scale_region' else 'inside the weight stream'} is addressed in `{want}`",
                              f"uses `{str(norm(c_.args[0]))}`: with DMA-buffered weights the scales are read from the SRAM region at the flash offset of the scale stream")
    sr = [s_ for s_ in ast.walk(cw) if isinstance(s_, ast.Assign) and norm(s_.targets[0]) == "scale_region"]
    rep.check(len(sr) == 1 and "get_region(scale_tensor.mem_type, arch)" in str(norm(sr[0].value)), "C02-k", "ethosu/vela/high_level_command_to_npu_op.py:create_weights",
              "scale_region = get_region(scale_tensor.mem_type, arch)", (str(norm(sr[0].value)) if sr else "") + ": SCALE_BASE stays an offset in the scale tensor's region while SCALE_REGION names another one")
    rep.clause("C02-m", "after a Reshape has been bypassed the producer keeps its own view of the OFM: no rewrite that runs later re-derives an operator's OFM shape from a tensor that the bypass may have re-shaped "
               "(necessary: the operator addresses its IFM with coordinates of its OFM shape) [rule shared with C03-i]")
    rule_shape_view(repo, rep)
    rep.clause("C02-n", "the allocator total that is published as the extent of a memory type's tensor is compared with the hard limit of that memory type (the arena cache size for fast scratch under "
               "spilling) on the path that records it, and an excess is an error: the per-access check does not see alignment and brick padding")
    rule_published_total(repo, rep)
    rule_batched_fc_view(repo, rep)
    rep.clause("C02-i", "byte offsets computed by graph rewrites use each tensor dimension in its layout position: 4-element shape unpackings name N,H,W,C (feature maps) / H,W,I,O (weights) in order")
    rule_shape_unpack(repo, rep)


SHAPE_AXES = {"n": 0, "batch": 0, "h": 1, "height": 1, "w": 2, "width": 2, "c": 3, "depth": 3, "channels": 3, "d": 3}


def _unpack_axis(name):
    """Layout position (NHWC numbering) an unpack target is named after, None if it names nothing recognisable."""
    m = re.fullmatch(r"(?:[a-z]+_)??(?:o|i|k|ofm|ifm|in|out|input|output|kernel)?_?(n|batch|h|height|w|width|c|depth|channels|d)\d*", name.lower())
    return SHAPE_AXES[m.group(1)] if m else None


def rule_shape_unpack(repo, rep):
    n = 0
    for m in repo.core_modules():
        for q, fn in m.functions.items():
            for st in ast.walk(fn):
                if not (isinstance(st, ast.Assign) and isinstance(st.targets[0], ast.Tuple) and len(st.targets[0].elts) == 4 and re.search(r"(^|[._])shape$", norm(st.value))):
                    continue
                src = norm(st.value)
                weights = bool(re.search(r"weight|inputs\[1\]|filter|kernel", src))
                want = [1, 2, None, None] if weights else [0, 1, 2, 3]
                names = [norm(e) for e in st.targets[0].elts]
                got = [None if x == "_" else _unpack_axis(x) for x in names]
                if all(g is None for g in got):
                    continue
                n += 1
                bad = [(nm, i) for i, (nm, g) in enumerate(zip(names, got)) if g is not None and want[i] is not None and g != want[i]]
                bad += [(nm, i) for i, (nm, g) in enumerate(zip(names, got)) if g is not None and want[i] is None and weights and g in (1, 2)]
                rep.check(not bad, "C02-i", f"ethosu/vela/{m.name}.py:{q}", f"`{norm(st)[:70]}` binds each name to the dimension it names ({'HWIO' if weights else 'NHWC'})",
                          "; ".join(f"`{nm}` takes dimension {i}" for nm, i in bad) + ": offsets / sizes derived from it address the tensor along the wrong dimension")
    rep.floor("C02-i", 6)


def rule_a(repo, rep):
    gen = repo.mod("register_command_stream_generator")
    f = gen.func("generate_command_stream")
    c = cfg_of(f)
    site = f"{GEN}:generate_command_stream"
    loop = [n for n in f.body if isinstance(n, ast.For) and calls_in(n, "generate_operation_code")]
    if len(loop) != 1:
        raise AnalysisError("operation loop not recognised")
    loop = loop[0]
    head = c.node_of(loop)
    cm = calls_in(loop, "check_mem_limits")
    ok = len(cm) == 1 and [norm(a) for a in cm[0].args] == ["memory_accesses[npu_op]", "mem_limits"]
    rep.check(ok, "C02-a", site, "check_mem_limits(memory_accesses[npu_op], mem_limits) in the operation loop", norm(cm[0]) if cm else "missing")
    if ok:
        n_cm = c.node_of(cm[0])
        for callee in ("generate_registers_for_op", "generate_cmd_waits", "generate_operation_code"):
            cs = calls_in(loop, callee)
            rep.check(len(cs) == 1 and not c.path_avoiding(head, c.node_of(cs[0]), [n_cm]), "C02-a", site, f"the bounds check precedes {callee} in every iteration", "emission reachable without the bounds check")
    pre = [n for n in f.body if isinstance(n, ast.For) and norm(n.iter) == "npu_op_list" and any("memory_accesses[npu_op]" == norm(t) for s in ast.walk(n) if isinstance(s, ast.Assign) for t in s.targets)]
    ok = len(pre) == 1
    if ok:
        ifs = [n for n in pre[0].body if isinstance(n, ast.If)]
        txt = norm(pre[0])
        ok = "isinstance(npu_op, NpuDmaOperation)" in txt and "get_dma_memory_accesses(npu_op)" in txt and "isinstance(npu_op, NpuBlockOperation)" in txt and "get_op_memory_accesses(npu_op, arch)" in txt \
            and any(isinstance(s, ast.Assert) and isinstance(s.test, ast.Constant) and not s.test.value for s in ast.walk(pre[0]))
        ok = ok and c.dominates(c.node_of(pre[0]), head)
    rep.check(ok, "C02-a", site, "an access set is computed for every operation of the list before the emission loop (unknown operation classes are rejected)", "")
    # the limits parameter is what the callers computed
    hl = repo.mod("high_level_command_to_npu_op")
    g = hl.func("generate_register_command_stream_for_sg")
    ml = [s for s in walk_no_nested(g) if isinstance(s, ast.Assign) and norm(s.targets[0]) == "mem_limits"]
    cs = calls_in(g, "generate_command_stream")
    ok = len(ml) == 1 and norm(ml[0].value) == "get_mem_limits_for_regions(arch)" and len(cs) == 1 and norm(cs[0].args[3]) == "mem_limits"
    rep.check(ok, "C02-a", f"{HL}:generate_register_command_stream_for_sg", "the compiler passes get_mem_limits_for_regions(arch) as the limits", "")
    rep.floor("C02-a", 6)


def rule_b(repo, rep):
    gen = repo.mod("register_command_stream_generator")
    it = Interp(repo, gen, max_paths=4096)
    site = f"{GEN}:check_mem_limits"

    def mk(known=True):
        def _():
            accs = []
            for d in range(2):
                rs = AObj(f"rs{d}", {"ranges": AList([(BV.sym(f"S{d}"), BV.sym(f"E{d}"))])})
                accs.append(AObj(f"acc{d}", {"regions": {7: rs}}))
            ma = AObj("memory_accesses", {"accesses": AList(accs)})
            limits = {7: BV.sym("LIMIT")} if known else {3: BV.sym("LIMIT")}
            return [ma, limits], {}
        return _

    paths = it.run("check_mem_limits", mk(True))
    n_ok = 0
    for p in paths:
        neg = {t: d for t, d in p.decisions}
        if p.kind == "return":
            n_ok += 1
            # every offset must have been tested both ways and found in range
            for sym in ("S0", "E0", "S1", "E1"):
                low = high = None
                for cnd, truth in p.conds:
                    l, r, op = getattr(cnd, "left", None), getattr(cnd, "right", None), getattr(cnd, "op", None)
                    if isinstance(l, BV) and Interp._pure_symbol(l) == sym:
                        if op == "<" and r == 0 and truth is False:
                            low = True
                        if op in (">", ">=") and isinstance(r, BV) and Interp._pure_symbol(r) == "LIMIT" and truth is False:
                            high = True
                rep.check(bool(low) and bool(high), "C02-b", site, f"accepting path established {sym} >= 0 and {sym} <= limit (compared with the region's limit itself)",
                          f"offset {sym}: lower bound {'ok' if low else 'not tested'}, upper bound {'ok' if high else 'not compared with the plain limit (weakened or missing)'}")
        else:
            nm = p.value.name if isinstance(p.value, AObj) else str(p.value)
            rep.check(nm == "VelaError" and p.decisions and p.decisions[-1][1] is True, "C02-b", site, f"out-of-range path ({p.decisions[-1][0][:50]}) raises VelaError", f"raises {nm}")
    rep.check(n_ok == 1 and len(paths) == 9, "C02-b", site, "1 accepting path and 8 rejecting paths for 2 directions x 2 ends x 2 bounds", f"{n_ok} accepting of {len(paths)} paths")
    for p in it.run("check_mem_limits", mk(False)):
        nm = p.value.name if p.kind == "raise" and isinstance(p.value, AObj) else None
        rep.check(nm == "VelaError", "C02-b", site, "a region without a limit is rejected with VelaError", f"{p.kind} {p.value!r}")
    # the upper bound is `offset > max` or stricter
    rep.floor("C02-b", 14)


def rule_c(repo, rep):
    hl = repo.mod("high_level_command_to_npu_op")
    af = repo.mod("architecture_features")
    it = Interp(repo, hl)
    mt = {}
    for st in repo.mod("tensor").cls("MemType").body:
        if isinstance(st, ast.Assign) and isinstance(st.value, ast.Constant) and isinstance(st.value.value, int):
            mt[st.targets[0].id] = st.value.value
    bp = {}
    for st in hl.cls("BasePointerIndex").body:
        if isinstance(st, ast.Assign) and isinstance(st.value, ast.Constant):
            bp[st.targets[0].id] = st.value.value
    if not {"Permanent_NPU", "Permanent_CPU", "Scratch", "Scratch_fast"} <= set(mt) or not {"WeightTensor", "ScratchTensor", "ScratchFastTensor"} <= set(bp):
        raise AnalysisError("MemType / BasePointerIndex members not recognised")
    site = f"{HL}:get_mem_limits_for_regions"
    for p in it.run("get_mem_limits_for_regions", lambda: ([AObj("arch")], {})):
        if p.kind != "return" or not isinstance(p.value, dict):
            rep.bad("C02-c", site, "limits map", f"{p.kind} {p.value!r}")
            continue
        spill = [d for t, d in p.decisions if "is_spilling_enabled" in t]
        spill = bool(spill and spill[0])
        lim = {k: (v.text if isinstance(v, Unknown) else repr(v)) for k, v in p.value.items()}
        tag = "spilling" if spill else "no spilling"
        rep.check(lim.get(bp["WeightTensor"], "").startswith("arch.mem_type_size("), "C02-c", site, f"{tag}: constants region limited by arch.mem_type_size", str(lim))
        rep.check(lim.get(bp["ScratchTensor"], "").startswith("arch.mem_type_size("), "C02-c", site, f"{tag}: scratch region limited by arch.mem_type_size", str(lim))
        if spill:
            rep.check(lim.get(bp["ScratchFastTensor"]) == f"arch.mem_type_size({mt['Scratch_fast']})", "C02-c", site, "spilling: the fast-scratch region exists and is limited by mem_type_size(Scratch_fast)", str(lim))
        else:
            rep.check(bp["ScratchFastTensor"] not in lim, "C02-c", site, "no spilling: fast scratch shares the scratch region (no separate limit)", str(lim))
        rep.check(any(v == "arch.shram_size_bytes" for v in lim.values()), "C02-c", site, f"{tag}: SHRAM limited by shram_size_bytes", str(lim))
    # get_region table
    for mtn, want_sp, want_ns in (("Permanent_NPU", "WeightTensor", "WeightTensor"), ("Permanent_CPU", "WeightTensor", "WeightTensor"), ("Scratch", "ScratchTensor", "ScratchTensor"),
                                  ("Scratch_fast", "ScratchFastTensor", "ScratchTensor")):
        for p in it.run("get_region", lambda: ([mt[mtn], AObj("arch")], {})):
            spill = [d for t, d in p.decisions if "is_spilling_enabled" in t]
            spill = bool(spill and spill[0])
            want = bp[want_sp if spill else want_ns]
            rep.check(p.kind == "return" and p.value == want, "C02-c", f"{HL}:get_region", f"{mtn} -> {want_sp if spill else want_ns} ({'spilling' if spill else 'no spilling'})", f"{p.value!r}")
    # mem_type_size: hard limit = arena cache size iff Scratch_fast and spilling
    ita = Interp(repo, af)
    for mtn, v in mt.items():
        if mtn in ("Unknown", "Size"):
            continue

        def mk():
            return [AObj("self", cls="ArchitectureFeatures__"), v], {}

        for p in ita.run("ArchitectureFeatures.mem_type_size", mk):
            spill = [d for t, d in p.decisions if "is_spilling_enabled" in t]
            got = p.value.text if isinstance(p.value, Unknown) else repr(p.value)
            if mtn == "Scratch_fast" and spill and spill[0]:
                rep.check(got == "self.arena_cache_size", "C02-c", f"{AF}:ArchitectureFeatures.mem_type_size", "Scratch_fast with spilling is limited by arena_cache_size", got)
            else:
                rep.check(got == "self.max_address_offset", "C02-c", f"{AF}:ArchitectureFeatures.mem_type_size", f"{mtn}{' without spilling' if mtn == 'Scratch_fast' else ''} is limited by max_address_offset", got)
    f = af.func("ArchitectureFeatures.is_spilling_enabled")
    rep.check(norm(f.body[-1]) == "return self._mem_port_mapping(self.cache_mem_area) == MemArea.Sram and self.cache_mem_area != self.arena_mem_area", "C02-c",
              f"{AF}:ArchitectureFeatures.is_spilling_enabled", "spilling = cache area is SRAM on a different port than the arena", norm(f.body[-1]))
    allm = repo.mod("tensor").func("MemType.all")
    rep.check(set(re.findall(r"MemType\.(\w+)", norm(allm.body[-1]))) == {"Permanent_NPU", "Permanent_CPU", "Scratch", "Scratch_fast"}, "C02-c", "ethosu/vela/tensor.py:MemType.all",
              "MemType.all() enumerates the four storage types", norm(allm.body[-1]))
    rep.floor("C02-c", 16)


def rule_d(repo, rep):
    # (ii) producers of permanent memory types
    allowed = {
        ("mark_tensors", "mark_purpose"): "constants (single Const producer) and purpose table",
        ("npu_serialisation", "make_memory_tensor"): "flash / command-stream / scratch tensors created by the serialiser",
        ("weight_compressor", "encode_weight_and_scale_tensor"): "copied from the source weight / scale tensor",
        ("scheduler", "*"): "scheduler assigns Scratch / Scratch_fast only",
    }
    n = 0
    for m in repo.core_modules():
        for node in ast.walk(m.tree):
            if isinstance(node, ast.Assign):
                for t in node.targets:
                    if isinstance(t, ast.Attribute) and t.attr == "mem_type":
                        fn = m.enclosing_function(node)
                        q = m.qualname_of(fn) if fn else "<module>"
                        v = norm(node.value)
                        n += 1
                        site = f"ethosu/vela/{m.name}.py:{q}"
                        if "Permanent" in v:
                            ok = (m.name, q) in allowed
                            if ok and m.name == "mark_tensors":
                                guard = [g for g in ast.walk(fn) if isinstance(g, ast.If) and node in g.body]
                                ok = len(guard) == 1 and "len(tens.ops) == 1" in norm(guard[0].test) and "tens.ops[0].type == Op.Const" in norm(guard[0].test)
                            rep.check(ok, "C02-d", site, f"{norm(node)}", "a tensor is placed in permanent (read-only) storage outside the reviewed constant producers")
                        elif m.name == "scheduler":
                            ok = "Scratch_fast" in v or "scratched_fms" in v or v == "fast_storage_type"
                            rep.check(ok, "C02-d", site, f"{norm(node)}", "scheduler assigns an unexpected memory type")
                        elif (m.name, q) in allowed or m.name.startswith("tosa"):
                            rep.ok("C02-d", site, norm(node), allowed.get((m.name, q), "tosa path"))
                        else:
                            rep.bad("C02-d", site, norm(node), "new writer of Tensor.mem_type")
    af = repo.mod("architecture_features")
    init = af.func("ArchitectureFeatures.__init__")
    tab = [s for s in ast.walk(init) if isinstance(s, ast.Assign) and norm(s.targets[0]) == "self.tensor_storage_mem_type" and isinstance(s.value, ast.Dict)]
    if len(tab) != 1:
        raise AnalysisError("tensor_storage_mem_type table not recognised")
    perm = [norm(k) for k, v in zip(tab[0].value.keys, tab[0].value.values) if "Permanent" in norm(v)]
    rep.check(perm == ["TensorPurpose.Weights"], "C02-d", f"{AF}:ArchitectureFeatures.__init__", "only TensorPurpose.Weights maps to a permanent memory type", str(perm))
    # (iv) DMA destinations
    hg = repo.mod("high_level_command_stream_generator")
    dmas = [c for c in ast.walk(hg.tree) if isinstance(c, ast.Call) and call_name(c) == "DMA"]
    rep.check(len(dmas) == 2, "C02-d", "ethosu/vela/high_level_command_stream_generator.py", "two DMA construction sites (weights / LUT, feature maps)", str(len(dmas)))
    for d in dmas:
        fn = hg.enclosing_function(d)
        q = hg.qualname_of(fn)
        dst = norm(d.args[2])
        guard = [g for g in ast.walk(fn) if isinstance(g, ast.If) and any(x is d for x in ast.walk(g))]
        gt = " ; ".join(norm(g.test) for g in guard)
        if q == "dma_if_necessary":
            ok = dst == "tensor" and ("src_tensor" in gt)
            rep.check(ok, "C02-d", f"ethosu/vela/high_level_command_stream_generator.py:{q}", f"DMA destination `{dst}` is the buffered (SRAM) copy of a tensor that has a source tensor", gt)
        else:
            rep.check(dst in ("dst_tensor", "tensor"), "C02-d", f"ethosu/vela/high_level_command_stream_generator.py:{q}", f"DMA destination `{dst}` is the feature map being produced", gt)
    sch = repo.mod("scheduler")
    bt = [s for s in ast.walk(sch.tree) if isinstance(s, ast.Assign) and norm(s.targets[0]) == "buffered_weight_tensor.mem_type"]
    rep.check(len(bt) == 1 and norm(bt[0].value) == "MemType.Scratch_fast", "C02-d", "ethosu/vela/scheduler.py", "buffered weight tensors (DMA destinations) live in Scratch_fast", "")
    hl = repo.mod("high_level_command_to_npu_op")
    cd = hl.func("create_dma_op")
    dest = [s for s in ast.walk(cd) if isinstance(s, ast.Assign) and norm(s.targets[0]) == "dest_region"]
    vals = {norm(s.value) for s in dest}
    rep.check(vals <= {"BASE_PTR_INDEX_MEM2MEM", "get_region(cmd.out_tensor.mem_type, arch)"} and "get_region(cmd.out_tensor.mem_type, arch)" in vals, "C02-d", f"{HL}:create_dma_op",
              "DMA destination region is SHRAM or the region of the destination tensor's memory type", str(vals))
    rep.floor("C02-d", 14)


def rule_extents(repo, rep, rule):
    """Shared by C02-e and C12-a: single writer / single reader of the published arena extents."""
    ta = repo.mod("tensor_allocation")
    n = 0
    for m in repo.core_modules():
        for node in ast.walk(m.tree):
            if isinstance(node, (ast.Assign, ast.AugAssign)):
                for t in (node.targets if isinstance(node, ast.Assign) else [node.target]):
                    tt = norm(t)
                    if re.search(r"\.memory_used(_per_type)?\[", tt):
                        fn = m.enclosing_function(node)
                        q = m.qualname_of(fn) if fn else "<module>"
                        n += 1
                        ok = m.name == "tensor_allocation" and q == "allocate_tensors" and (norm(node.value) == "total_sz" or norm(node) == f"{tt} += total_sz")
                        rep.check(ok, rule, f"ethosu/vela/{m.name}.py:{q}", norm(node), "published memory usage written outside allocate_tensors or from something else than the allocator total")
                    elif re.search(r"\.memory_used(_per_type)?$", tt) and not tt.startswith("self."):
                        fn = m.enclosing_function(node)
                        q = m.qualname_of(fn) if fn else "<module>"
                        n += 1
                        ok = (m.name == "tensor_allocation" and tt == "nng.memory_used" and norm(node.value) == "sg.memory_used") or (m.name == "nn_graph")
                        rep.check(ok, rule, f"ethosu/vela/{m.name}.py:{q}", norm(node), "memory_used rebound outside allocate_tensors")
    f = ta.func("allocate_tensors")
    al = [s for s in f.body if isinstance(s, ast.Assign) and norm(s.targets[0]) == "(lrs, total_sz)" and call_name(s.value) == "allocate"]
    rep.check(len(al) == 1, rule, f"{TA}:allocate_tensors", "total_sz is the value returned by allocate()", "")
    root = [n_ for n_ in f.body if isinstance(n_, ast.If) and norm(n_.test) == "sg == nng.get_root_subgraph()"]
    rep.check(len(root) == 1 and norm(root[0].body[0]) == "nng.memory_used = sg.memory_used", rule, f"{TA}:allocate_tensors", "the graph-level figure is the root subgraph's", "")
    cd = repo.mod("compiler_driver").func("compiler_driver")
    for tens, mt in (("scratch_tens", "MemType.Scratch"), ("scratch_fast_tens", "MemType.Scratch_fast")):
        cs = [c for c in ast.walk(cd) if isinstance(c, ast.Call) and norm(c.func) == f"{tens}.set_all_shapes"]
        ok = len(cs) == 1 and norm(cs[0].args[0]) == f"[root_sg.memory_used_per_type.get({mt}, 0)]"
        rep.check(ok, rule, f"{CD}:compiler_driver", f"{tens} is sized from root_sg.memory_used_per_type[{mt}]", norm(cs[0].args[0]) if cs else "missing")
    rs = [s for s in ast.walk(cd) if isinstance(s, ast.Assign) and norm(s.targets[0]) == "root_sg"]
    rep.check(len(rs) == 1 and norm(rs[0].value) == "nng.get_root_subgraph()", rule, f"{CD}:compiler_driver", "root_sg = nng.get_root_subgraph()", "")
    rep.floor(rule, 7)


def rule_weight_buffers(repo, rep):
    """(f) depth slice k of a buffered weight stream is copied into buffer k % (number of buffers). The encoder records
    double_buffer_sizes[j] = largest slice with index % 2 == j. With two buffers, buffer j must hold double_buffer_sizes[j]; with
    ONE buffer (sub-purpose Standard) every slice goes through it, so it must hold the largest slice of all,
    max(double_buffer_sizes) = max_range_bytes(). The reservation is the tensor's size, i.e. what the published fast-scratch
    extent is made of."""
    from ..astutil import single_assignments

    wc = repo.mod("weight_compressor")
    enc = wc.func("encode_weight_and_scale_tensor")
    rec = [st for st in ast.walk(enc) if isinstance(st, ast.Assign) and isinstance(st.targets[0], ast.Subscript) and norm(st.targets[0].value) == "double_buffer_sizes"]
    if len(rec) != 1 or str(norm(rec[0].targets[0].slice)) != "idx % 2":
        raise AnalysisError("encode_weight_and_scale_tensor: the store into double_buffer_sizes[idx % 2] was not found")
    is_max = call_name(rec[0].value) == "max" and any(str(norm(a)) == "double_buffer_sizes[idx % 2]" for a in rec[0].value.args)
    rep.check(is_max, "C02-f", "ethosu/vela/weight_compressor.py:encode_weight_and_scale_tensor", "double_buffer_sizes[idx % 2] is the running maximum over the slices of that parity",
              f"`{str(norm(rec[0]))[:90]}`: the last slice of each parity decides the buffer size; an earlier, longer slice is copied past the end of the buffer")
    if not is_max:
        return
    mr = wc.func("NpuWeightTensor.max_range_bytes")
    if str(norm(mr.body[-1])) != "return max(self.double_buffer_sizes)":
        raise AnalysisError("NpuWeightTensor.max_range_bytes is no longer max(double_buffer_sizes)")
    hg = repo.mod("high_level_command_stream_generator")
    sel = [x for x in ast.walk(hg.tree) if isinstance(x, ast.Assign) and isinstance(x.value, ast.BinOp) and isinstance(x.value.op, ast.Mod) and "len(op_info.buffered_weight_tensors)" in str(norm(x.value.right))]
    rep.check(len(sel) == 1 and str(norm(sel[0].value.left)) == "depth_idx", "C02-f", "ethosu/vela/high_level_command_stream_generator.py:generate_high_level_commands_for_sched_op",
              "slice k is copied into buffer k % len(buffered_weight_tensors)", str(norm(sel[0].value)) if sel else "not found")
    sch = repo.mod("scheduler")
    pw = sch.func("Scheduler.propose_weight_buffering")
    site = "ethosu/vela/scheduler.py:Scheduler.propose_weight_buffering"
    calls = sorted(calls_in(pw, "self.buffer_tensor"), key=lambda c_: c_.lineno)
    if len(calls) != 2:
        raise AnalysisError(f"propose_weight_buffering: {len(calls)} buffer_tensor calls (2 expected)")
    sa = {}
    for st in ast.walk(pw):
        if isinstance(st, ast.Assign) and len(st.targets) == 1 and isinstance(st.targets[0], ast.Name):
            sa.setdefault(st.targets[0].id, []).append(st)
    for v_ in sa.values():
        v_.sort(key=lambda st: st.lineno)
    MAXFORMS = ("encoded_weights.max_range_bytes()", "max(encoded_weights.double_buffer_sizes)")

    def covers_all(e, at_line):
        t = str(norm(e))
        if t in MAXFORMS:
            return True
        if isinstance(e, ast.Call) and call_name(e) == "min" and len(e.args) == 2 and {str(norm(a_)) for a_ in e.args} & set(MAXFORMS) and "len(encoded_weights.buffer)" in {str(norm(a_)) for a_ in e.args}:
            return True  # min(whole stream, largest slice)
        if isinstance(e, ast.Name) and e.id in sa:
            prior = [st for st in sa[e.id] if st.lineno < at_line]
            return bool(prior) and covers_all(prior[-1].value, prior[-1].lineno) and not any(isinstance(x, ast.AugAssign) and str(norm(x.target)) == e.id and x.lineno < at_line for x in ast.walk(pw))
        return False

    def only_double(call):
        """is the call reached only when the purpose is DoubleBuffer?"""
        cur = call
        while cur is not None and cur is not pw:
            par = sch.parents.get(cur)
            if isinstance(par, ast.If) and str(norm(par.test)) in ("weight_tensor_purpose == TensorSubPurpose.DoubleBuffer", "TensorSubPurpose.DoubleBuffer == weight_tensor_purpose") and any(cur is b for b in par.body):
                return True
            cur = par
        return False

    for k, call in enumerate(calls):
        size = call.args[2]
        if only_double(call):
            rep.check(str(norm(size)) == f"encoded_weights.double_buffer_sizes[{k}]", "C02-f", site, f"buffer {k} (double buffering only) holds the largest slice with index % 2 == {k}", str(norm(size)))
            continue
        at = call.lineno
        hops = 0
        while isinstance(size, ast.Name) and size.id in sa and hops < 3 and not covers_all(size, at):
            prior = [st for st in sa[size.id] if st.lineno < at]
            if not prior:
                break
            size, at, hops = prior[-1].value, prior[-1].lineno, hops + 1
        ok = covers_all(size, at)
        if not ok and isinstance(size, ast.IfExp) and "DoubleBuffer" in str(norm(size.test)):
            dbl, single = (size.body, size.orelse) if isinstance(size.test, ast.Compare) and isinstance(size.test.ops[0], ast.Eq) else (size.orelse, size.body)
            ok = str(norm(dbl)) == f"encoded_weights.double_buffer_sizes[{k}]" and covers_all(single, at)
        rep.check(ok, "C02-f", site, f"buffer {k} is also the only buffer of the single-buffer (Standard) case: it holds the largest depth slice of all (max_range_bytes)",
                  f"size is `{str(norm(size))}` = largest *even-indexed* slice: with one buffer the odd-indexed slices are copied into it as well (demonstrated: slices of 752 and 37040 bytes, "
                  "--arena-cache-size 37400 on ethos-u65-256: fast scratch published as 752 bytes, DMA and weight reads reach byte 37040)")


def _mini_eval(e, env):
    """Integer value of an arithmetic expression over env (names -> int) with the repo's rounding helpers given their documented
    meaning; None if the expression uses anything else."""
    if isinstance(e, ast.Constant) and isinstance(e.value, int) and not isinstance(e.value, bool):
        return e.value
    if isinstance(e, ast.Name):
        return env.get(e.id)
    if isinstance(e, ast.UnaryOp) and isinstance(e.op, ast.USub):
        v = _mini_eval(e.operand, env)
        return None if v is None else -v
    if isinstance(e, ast.BinOp):
        a, b = _mini_eval(e.left, env), _mini_eval(e.right, env)
        if a is None or b is None:
            return None
        if isinstance(e.op, ast.Add):
            return a + b
        if isinstance(e.op, ast.Sub):
            return a - b
        if isinstance(e.op, ast.Mult):
            return a * b
        if isinstance(e.op, ast.FloorDiv):
            return a // b if b else None
        if isinstance(e.op, ast.Mod):
            return a % b if b else None
        return None
    if isinstance(e, ast.Call) and not e.keywords:
        cn = (call_name(e) or "").split(".")[-1]
        args = [_mini_eval(a, env) for a in e.args]
        if None in args:
            return None
        if cn == "round_up" and len(args) == 2 and args[1]:
            return ((args[0] + args[1] - 1) // args[1]) * args[1]
        if cn == "round_up_divide" and len(args) == 2 and args[1]:
            return (args[0] + args[1] - 1) // args[1]
        if cn in ("max", "min") and args:
            return max(args) if cn == "max" else min(args)
        if cn == "int" and len(args) == 1:
            return args[0]
    return None


def rule_round5(repo, rep):
    """(l) tile base addresses of the replication padding (half-pixel-centre resize) stay inside the feature map: the offset of the
    bottom-left element is w0 * (h0 - 1) * 16 * ceil(channels / 16) * element size, evaluated as a function; when the command
    generator exchanges the two operands of an elementwise operation it exchanges every per-operand record."""
    import itertools

    from . import c18

    rep.clause("C02-l", "replication-padding tile addresses address elements of the feature map itself (bottom-left offset evaluated on a grid of w0, h0, channels, element size); the operand exchange of "
               "create_npu_elementwise_op covers tensors, boxes and shapes; --arena-cache-size 0 is honoured [rule shared with C18-c]")
    rep.run_borrowed(c18, {"C18-c": "C02-l"}, repo, only_sites=("_get_vela_config",))
    hn = repo.mod("high_level_command_to_npu_op")
    mt = hn.func("modify_tile_addresses_for_padding")
    defs = {str(norm(s_.targets[0])): s_.value for s_ in ast.walk(mt) if isinstance(s_, ast.Assign) and len(s_.targets) == 1 and isinstance(s_.targets[0], ast.Name)}
    if "bl_offset" not in defs or "tr_offset" not in defs:
        raise AnalysisError("modify_tile_addresses_for_padding: tile offsets not found")
    wrong = None
    pts = 0
    for w0, h0, ch, es in itertools.product((1, 2, 5), (1, 2, 7), (1, 8, 15, 16, 17, 32, 48), (1, 2)):
        env = {"w0": w0, "h0": h0, "channels": ch, "elem_size": es}
        bl = _mini_eval(defs["bl_offset"], env)
        tr = _mini_eval(defs["tr_offset"], env)
        if bl is None or tr is None:
            raise AnalysisError(f"modify_tile_addresses_for_padding: offsets not evaluable ({str(norm(defs['bl_offset']))[:70]})")
        pts += 1
        want_bl = w0 * (h0 - 1) * 16 * ((ch + 15) // 16) * es
        want_tr = (w0 - 1) * 16 * es
        if (bl, tr) != (want_bl, want_tr) and wrong is None:
            wrong = (env, bl, want_bl, tr, want_tr)
    rep.check(wrong is None, "C02-l", "ethosu/vela/high_level_command_to_npu_op.py:modify_tile_addresses_for_padding", f"bottom-left / top-right element offsets of an NHCWB16 feature map ({pts} points)",
              (f"at {wrong[0]}: bottom-left offset {wrong[1]} (expected {wrong[2]}), top-right {wrong[3]} (expected {wrong[4]}): the base addresses of tiles 2 / 3 point up to one feature map past the IFM "
               "(read beyond the published region in the Dedicated_Sram modes)") if wrong else "")
    ce = hn.func("create_npu_elementwise_op")
    swaps = [b for i_ in ast.walk(ce) if isinstance(i_, ast.If) for b in [i_] if "ifm_ifm2_correct_order" in str(norm(i_.test)) and isinstance(i_.test, ast.UnaryOp)]
    if len(swaps) != 1:
        raise AnalysisError("create_npu_elementwise_op: operand exchange branch not found")
    body_txt = {str(norm(s_)) for s_ in swaps[0].body}
    need = {"cmd.ifm_tensor, cmd.ifm2_tensor = (cmd.ifm2_tensor, cmd.ifm_tensor)", "cmd.ifm_box, cmd.ifm2_box = (cmd.ifm2_box, cmd.ifm_box)", "ps.ifm_shapes[0], ps.ifm_shapes[1] = (ps.ifm_shapes[1], ps.ifm_shapes[0])"}
    missing = sorted(x.split(" = ")[0] for x in need if x not in body_txt and x.replace("(", "").replace(")", "") not in {t.replace("(", "").replace(")", "") for t in body_txt})
    rep.check(not missing, "C02-l", "ethosu/vela/high_level_command_to_npu_op.py:create_npu_elementwise_op", "the operand exchange swaps tensors, boxes and the pass's operand shapes together",
              f"not exchanged: {missing}: the feature maps created afterwards take the other operand's shape, i.e. the big operand's strides on the small tensor (read beyond the tensor and, at the top of the arena, beyond the region)")
    rep.floor("C02-l", 3)


# ---------------------------------------------------------------------------------------------------------------- C02-m
_VIEW_CREATORS = ("create_add", "create_sub", "create_mul", "create_lrelu", "create_clz", "create_shl", "create_shr", "create_asr", "create_rescale_add", "create_relu", "create_binary_elementwise",
                  "create_avgpool_nop", "create_depthwise_maxpool", "create_cast_op", "create_add_nop", "create_memcpy", "create_pad_nop", "create_fused_activation", "create_fullyconnected")


def _pipeline(go):
    """The passes of tflite_optimise_graph in order: list of lists of rewrite-function names."""
    tf = go.func("tflite_optimise_graph")
    lists = {}
    passes = []
    for st in ast.walk(tf):
        if isinstance(st, ast.Assign) and len(st.targets) == 1 and isinstance(st.targets[0], ast.Name) and isinstance(st.value, ast.List):
            lists[st.targets[0].id] = (st.lineno, [e for e in st.value.elts])
    for c in sorted((c for c in ast.walk(tf) if isinstance(c, ast.Call) and call_name(c) in ("rewrite_graph.rewrite_graph_pre_order", "rewrite_graph.visit_graph_post_order")), key=lambda c: c.lineno):
        names = []
        for a in c.args:
            elts = None
            if isinstance(a, ast.List):
                elts = a.elts
            elif isinstance(a, ast.Name) and a.id in lists:
                elts = lists[a.id][1]
            for e in elts or []:
                if isinstance(e, ast.Name):
                    names.append(e.id)
                elif isinstance(e, ast.Call) and isinstance(e.func, ast.Name):
                    names.append(e.func.id)
        passes.append((c.lineno, names))
    return tf, passes


# Reviewed sites of the inconsistent-view hazard whose demonstrated effect concerns some properties only (anything not listed here is
# reported under C02, C03 and C13 alike)
_VIEW_SCOPE = {
    "convert_prelu": ({"C13"}, "every operator the rewrite builds with the inconsistent view is a binary elementwise operator, for which generate_ifm2_broadcast asserts: the compilation aborts (C13), nothing is emitted"),
    "convert_resizebilinear_to_depthwise_convolutions": ({"C02", "C13"}, "demonstrated as an OFM write outside the region (C02) and as an abort (C13); no read of an undefined byte was demonstrated"),
    "convert_lrelu_to_mul_max": ({"C02", "C03"}, "demonstrated as an IFM read beyond the tensor (C02, C03); no abort was demonstrated"),
}


def m_parent_if(mod, node, fn):
    """The innermost `if` statement of `fn` that contains `node`, None if there is none."""
    cur = mod.parents.get(node)
    while cur is not None and cur is not fn:
        if isinstance(cur, ast.If):
            return cur
        cur = mod.parents.get(cur)
    return None


def rule_shape_view(repo, rep, rule="C02-m"):
    """After bypass_memory_only_ops a producer writes the tensor of the bypassed Reshape: the tensor carries the consumers' shape, the
    operator keeps its own view in `ofm_shapes`. Typestate over the pass pipeline: in every rewrite that runs after the bypass, an operator
    that keeps (or takes over) the OFM tensor of the operator handed to the rewrite must not have its OFM shape re-derived from that
    tensor (`set_ifm_ofm_shapes()` without a following assignment to `ofm_shapes`)."""
    go = repo.mod("tflite_graph_optimiser")
    tf, passes = _pipeline(go)
    bp = [i for i, (_, names) in enumerate(passes) if "bypass_memory_only_ops" in names]
    if len(bp) != 1:
        raise AnalysisError("tflite_optimise_graph: the pass that runs bypass_memory_only_ops was not found exactly once")
    post = [n for _, names in passes[bp[0] + 1:] for n in names]
    if len(post) < 25:
        raise AnalysisError(f"tflite_optimise_graph: only {len(post)} rewrites after the Reshape bypass (expected >= 25)")
    mods = [go, repo.mod("lut"), repo.mod("graph_optimiser_util")]

    def find(name):
        for m in mods:
            if name in m.functions:
                return m, m.functions[name]
        return None

    # (function, handed parameter) pairs reachable from the post-bypass rewrites by passing the handed operator on
    work = []
    for n in post:
        f = find(n)
        if f and f[1].args.args:
            work.append((f[0], f[1], f[1].args.args[0].arg))
    seen = set()
    sites = []
    nfun = 0
    while work:
        m, fn, p = work.pop()
        if (fn.name, p) in seen:
            continue
        seen.add((fn.name, p))
        nfun += 1
        handed = {p}
        ofm_alias = set()
        for st in ast.walk(fn):
            if isinstance(st, ast.Assign) and len(st.targets) == 1:
                t, v = st.targets[0], st.value
                vt = str(norm(v))
                if isinstance(t, ast.Name) and vt in {f"{h}.ofm" for h in handed} | {f"{h}.outputs[0]" for h in handed} | {f"{h}.outputs" for h in handed}:
                    ofm_alias.add(t.id)
                if isinstance(t, ast.Tuple) and isinstance(v, ast.Call) and isinstance(v.func, ast.Attribute) and str(norm(v.func.value)) in handed and v.func.attr.startswith("get_ifm") and v.func.attr.endswith("ofm"):
                    if isinstance(t.elts[-1], ast.Name):
                        ofm_alias.add(t.elts[-1].id)
        alias_txt = ofm_alias | {f"{h}.ofm" for h in handed} | {f"{h}.outputs[0]" for h in handed} | {f"{h}.outputs" for h in handed}

        def new_output_before(recv, line):
            """Expressions given to the receiver as its output before `line`, in source order."""
            found = []
            for c in ast.walk(fn):
                if isinstance(c, ast.Call) and isinstance(c.func, ast.Attribute) and c.func.attr == "set_output_tensor" and str(norm(c.func.value)) == recv and c.lineno < line and c.args:
                    found.append((c.lineno, str(norm(c.args[0]))))
                if isinstance(c, ast.Assign) and str(norm(c.targets[0])) == recv + ".outputs" and c.lineno < line:
                    v = c.value
                    found.append((c.lineno, str(norm(v.elts[0])) if isinstance(v, ast.List) and len(v.elts) == 1 else str(norm(v))))
            return [t for _, t in sorted(found)]

        def restored_after(recv, call):
            blk = m.parents.get(m.parents.get(call))
            for st in ast.walk(fn):
                if isinstance(st, ast.Assign) and st.lineno > call.lineno and str(norm(st.targets[0])) in (recv + ".ofm_shapes", recv + ".ofm_shapes[0]"):
                    return True
            return False

        for c in ast.walk(fn):
            if not isinstance(c, ast.Call):
                continue
            cn = call_name(c) or ""
            if isinstance(c.func, ast.Attribute) and c.func.attr == "set_ifm_ofm_shapes":
                recv = str(norm(c.func.value))
                outs = list(new_output_before(recv, c.lineno))
                if recv in handed:
                    hazard = not outs or outs[-1] in alias_txt
                else:
                    hazard = bool(outs) and outs[-1] in alias_txt
                if hazard and not restored_after(recv, c):
                    sites.append((m, fn, recv, c, "keeps" if recv in handed else "takes over"))
            elif cn.split(".")[-1] in _VIEW_CREATORS and any(str(norm(a)) in alias_txt for a in list(c.args) + [k.value for k in c.keywords]):
                # the creator derives the new operator's shapes from the tensors it is given
                tgt = m.parents.get(c)
                recv = str(norm(tgt.targets[0])) if isinstance(tgt, ast.Assign) else None
                if not (recv and restored_after(recv, c)):
                    sites.append((m, fn, cn, c, "takes over"))
            elif isinstance(c.func, ast.Attribute) and c.func.attr == "clone" and str(norm(c.func.value)) in alias_txt:
                # an intermediate feature map cloned from the handed OFM tensor carries that tensor's (possibly re-shaped) shape
                tgt = m.parents.get(c)
                nm = str(norm(tgt.targets[0])) if isinstance(tgt, ast.Assign) else "?"
                reshaped = any(isinstance(st, ast.Assign) and str(norm(st.targets[0])) in (nm + ".shape",) for st in ast.walk(fn)) or any(
                    isinstance(c2, ast.Call) and isinstance(c2.func, ast.Attribute) and c2.func.attr == "set_all_shapes" and str(norm(c2.func.value)) == nm for c2 in ast.walk(fn))
                if not reshaped:
                    sites.append((m, fn, nm, c, "is cloned from"))
            elif isinstance(c.func, ast.Name):
                f2 = find(c.func.id)
                if f2:
                    for i, a in enumerate(c.args):
                        if isinstance(a, ast.Name) and a.id in handed and i < len(f2[1].args.args):
                            work.append((f2[0], f2[1], f2[1].args.args[i].arg))
    if rep is None:
        return nfun, sites
    where = {
        "convert_to_lut": "demonstrated: LOGISTIC / TANH / HARD_SWISH / LEAKY_RELU / EXP on [1,24,16,4] followed by RESHAPE to [1,384,1,4]: IFM read [0,22980) of a 3072-byte tensor",
        "replace_pad_by_hw_pad": "demonstrated: PAD + CONV_2D followed by RESHAPE: IFM read [0,22984) of a 3344-byte region",
        "convert_resize_to_upscale_and_average_pool": "demonstrated: RESIZE_BILINEAR / RESIZE_NEAREST_NEIGHBOR x2 followed by RESHAPE: IFM read [0,47556) of a 7680-byte tensor",
        "convert_resize_1x1_to_add": "demonstrated: RESIZE_BILINEAR of a 1x1 input followed by RESHAPE: IFM read [0,22980) of a 1536-byte constant region",
        "fixup_relus_with_differing_ifm_ofm_scaling": "demonstrated: RELU with differing scales followed by RESHAPE: IFM read [0,22980) of a 3072-byte tensor",
        "convert_squared_difference": "demonstrated: SQUARED_DIFFERENCE followed by RESHAPE: IFM read [0,367632) of a 50752-byte tensor",
        "convert_prelu": "demonstrated: PRELU [1,24,16,4] followed by RESHAPE to [1,384,1,4] aborts with an AssertionError in generate_ifm2_broadcast",
        "convert_resizebilinear_to_depthwise_convolutions": "demonstrated: RESIZE_BILINEAR x2 half_pixel_centers of [1,24,16,4] followed by RESHAPE to [1,24,64,4]: OFM write [6144,18044) of a 12416-byte tensor; RESHAPE to [1,1536,1,4]: AssertionError in NpuStripe",
        "convert_lrelu_to_mul_max": "demonstrated: int16 LEAKY_RELU with differing scales followed by RESHAPE: IFM read [0,45960) of a 27648-byte tensor",
    }
    prop = rule.split("-")[0]
    for m, fn, recv, c, how in sites:
        scope = _VIEW_SCOPE.get(fn.name)
        if scope is not None and prop not in scope[0]:
            rep.ok(rule, f"{m.rel}:{fn.name}", f"`{recv}` {how} the OFM tensor of the handed operator [inconsistent view, outside this property: {scope[1]}]")
            continue
        rep.bad(rule, f"{m.rel}:{fn.name}", f"`{recv}` {how} the OFM tensor of the operator handed to the rewrite and its OFM shape is not re-derived from that tensor after the Reshape bypass",
                f"`{str(norm(c))[:70]}` with no following assignment to `{'ofm_shapes' if how != 'is cloned from' else recv + '.shape'}`: when the Reshape behind the operator has been bypassed the tensor has the consumers' shape, the operator then "
                f"iterates its OFM in that shape and addresses its IFM with it ({where.get(fn.name, 'same mechanism as the demonstrated sites')})")
    rep.ok(rule, "ethosu/vela/tflite_graph_optimiser.py:tflite_optimise_graph", f"{len(post)} rewrites run after bypass_memory_only_ops; {nfun} (function, handed operator) pairs followed")
    # the helper the repaired sites use: it must hand back the OFM shapes it found
    opm = repo.mod("operation")
    if "Operation.set_ifm_shapes" in opm.functions:
        sf = opm.functions["Operation.set_ifm_shapes"]
        saved = [st for st in sf.body if isinstance(st, ast.Assign) and str(norm(st.value)) == "self.ofm_shapes" and isinstance(st.targets[0], ast.Name)]
        recomputed = [c for c in ast.walk(sf) if isinstance(c, ast.Call) and str(norm(c.func)) == "self.set_ifm_ofm_shapes"]
        ok = False
        if len(saved) == 1 and len(recomputed) == 1 and saved[0].lineno < recomputed[0].lineno:
            nm = saved[0].targets[0].id
            restores = [st for st in ast.walk(sf) if isinstance(st, ast.Assign) and str(norm(st.targets[0])) == "self.ofm_shapes" and st.lineno > recomputed[0].lineno]
            ok = len(restores) == 1 and str(norm(restores[0].value)) in (nm, f"list({nm})")
            if ok:
                # the restore may only be guarded by the saved value itself (an operator that never had shapes keeps the derived ones)
                g = m_parent_if(opm, restores[0], sf)
                ok = g is None or str(norm(g.test)) in (nm, f"len({nm}) > 0", f"{nm} != []")
        users = sum(1 for m2 in mods for c in ast.walk(m2.tree) if isinstance(c, ast.Call) and isinstance(c.func, ast.Attribute) and c.func.attr == "set_ifm_shapes")
        rep.check(ok, rule, "ethosu/vela/operation.py:Operation.set_ifm_shapes", f"saves self.ofm_shapes, re-derives the shapes, hands the saved OFM shapes back ({users} call sites)",
                  "the helper that the rewrites after the Reshape bypass rely on no longer keeps the operator's own OFM shape")
    rep.floor(rule, 1)
    return nfun, sites


def rule_published_total(repo, rep):
    """(n) must-pass-through: in allocate_tensors, the only writer of memory_used_per_type (C02-e), the recorded total is compared with
    arch.mem_type_size(mem_type) and the excess branch raises; the comparison is not under the dry-test / failure early return."""
    from ..exprnorm import conjuncts as _cj

    ta = repo.mod("tensor_allocation")
    fn = ta.func("allocate_tensors")
    site = "ethosu/vela/tensor_allocation.py:allocate_tensors"
    writes = [st for st in ast.walk(fn) if isinstance(st, (ast.Assign, ast.AugAssign)) and "memory_used_per_type[" in str(norm(st.targets[0] if isinstance(st, ast.Assign) else st.target))]
    if not writes:
        raise AnalysisError("allocate_tensors: the store into memory_used_per_type was not found")
    totals = {str(norm(st.value)) for st in writes}
    af = repo.mod("architecture_features").func("ArchitectureFeatures.mem_type_size")
    lim_ok = any(isinstance(r, ast.Return) and str(norm(r.value)) == "self.arena_cache_size" for r in ast.walk(af))
    rep.check(lim_ok, "C02-n", "ethosu/vela/architecture_features.py:ArchitectureFeatures.mem_type_size", "the hard limit of fast scratch under spilling is the arena cache size", "no `return self.arena_cache_size`")
    guards = []
    for i in ast.walk(fn):
        if not isinstance(i, ast.If) or not any(isinstance(x, ast.Raise) for b in i.body for x in ast.walk(b)):
            continue
        cjs = _cj(i.test)
        if any(isinstance(c, ast.Constant) and not c.value for c in cjs):
            continue
        for c in cjs:
            if not (isinstance(c, ast.Compare) and len(c.ops) == 1):
                continue
            l, r = str(norm(c.left)), str(norm(c.comparators[0]))
            tot, lim = (l, r) if "mem_type_size(" in r or "arena_cache_size" in r else (r, l)
            if not ("mem_type_size(" in lim or "arena_cache_size" in lim):
                continue
            exceeds = (isinstance(c.ops[0], (ast.Gt, ast.GtE)) and tot == l) or (isinstance(c.ops[0], (ast.Lt, ast.LtE)) and tot == r)
            if exceeds and (tot in totals or "memory_used_per_type[" in tot):
                guards.append(i)
    ok = bool(guards)
    detail = f"no `if <{' / '.join(sorted(totals))}> > arch.mem_type_size(...)` with a raise"
    if ok:
        # not on the dry-test / failed path only: the guard is not nested in an `if` whose test mentions dry_test and whose body returns
        for g in guards:
            cur = ta.parents.get(g)
            while cur is not None and cur is not fn:
                if isinstance(cur, ast.If) and "dry_test" in str(norm(cur.test)) and g in list(ast.walk(ast.Module(body=cur.body, type_ignores=[]))):
                    ok = False
                    detail = "the comparison is made on the dry-test path only"
                cur = ta.parents.get(cur)
    rep.check(ok, "C02-n", site, "the total recorded in memory_used_per_type (published as the tensor's size) is compared with arch.mem_type_size(mem_type); an excess raises",
              detail + ": with --optimise Size the scheduler's limit is the minimal schedule's peak, not the cache; accesses are checked, the rounded total is not (demonstrated: three 3x3 convolutions "
              "on 24x24x8, ethos-u65-256 Dedicated_Sram, --arena-cache-size 4600: scratch_fast tensor of 4608 bytes)")
    rep.floor("C02-n", 2)


def rule_batched_fc_view(repo, rep):
    """(p) a batched FULLY_CONNECTED is executed on a [1, h, w, C] view of its [n, C] tensors: the view has exactly n positions (h * w == n) for
    every batch, for IFM and OFM alike. convert_batched_fc_shape is interpreted for n = 2 .. 40."""
    import math as _m

    from ..absint import AList, AObj, EnumMember, Interp, Unknown

    rep.clause("C02-p", "the 4-D view a batched FULLY_CONNECTED is given covers exactly its batch (h * w == n for IFM and OFM, every n): a larger view reads and writes past the end of the [n, C] tensors")
    go = repo.mod("tflite_graph_optimiser")
    opm = repo.mod("operation")

    def shape4d(i, a, k, n):
        v = a[0] if a else None
        items = v.items if isinstance(v, AList) else list(v) if isinstance(v, (list, tuple)) else list(a)
        if len(items) != 4:
            return Unknown("Shape4D")
        return AObj("shape", {"batch": items[0], "height": items[1], "width": items[2], "depth": items[3]}, cls="Shape4D")

    def num(f):
        def g(i, a, k, n):
            return f(a[0]) if a and isinstance(a[0], (int, float)) else Unknown("math(?)")
        return g

    unk = lambda i, a, k, n: Unknown("array")  # noqa: E731
    ext = {"Shape4D": shape4d, "np.expand_dims": unk, "numpy.expand_dims": unk, "math.ceil": num(_m.ceil), "math.floor": num(_m.floor), "math.log2": num(_m.log2), "np.log2": num(_m.log2),
           "numpy.log2": num(_m.log2), "math.sqrt": num(_m.sqrt), "math.isqrt": num(_m.isqrt)}
    it = Interp(repo, go, externs=ext)
    wrong = None
    pts = 0
    for n_ in range(2, 41):
        def mk(n_=n_):
            def sh():
                return AObj("s", {"batch": n_, "height": 1, "width": 1, "depth": 8}, cls="Shape4D")

            op = AObj("op", {"type": EnumMember(opm, opm.cls("Op"), "FullyConnected", None), "ifm_shapes": AList([sh()]), "ofm_shapes": AList([sh()]),
                             "inputs": AList([Unknown("ifm"), AObj("weights", {"values": Unknown("values")})])})
            return [op, Unknown("arch"), Unknown("nng")], {}

        ps = [p for p in it.run("convert_batched_fc_shape", mk) if p.kind == "return"]
        if not ps:
            raise AnalysisError(f"convert_batched_fc_shape: no returning path for batch {n_}")
        for p in ps:
            op = p.args[0][0]
            for side in ("ifm_shapes", "ofm_shapes"):
                sh_ = op.fields[side].items[0]
                h_, w_, b_ = sh_.fields.get("height"), sh_.fields.get("width"), sh_.fields.get("batch")
                if not all(isinstance(x, int) for x in (h_, w_, b_)):
                    raise AnalysisError(f"convert_batched_fc_shape: symbolic view ({b_}, {h_}, {w_}) for batch {n_}")
                pts += 1
                if (b_ != 1 or h_ * w_ != n_) and wrong is None:
                    wrong = (n_, side, b_, h_, w_)
    rep.check(wrong is None, "C02-p", "ethosu/vela/tflite_graph_optimiser.py:convert_batched_fc_shape", f"batch n becomes [1, h, w, C] with h * w == n ({pts} views, n = 2 .. 40)",
              (f"batch {wrong[0]}: {wrong[1]}[0] becomes [{wrong[2]}, {wrong[3]}, {wrong[4]}, C], {wrong[3] * wrong[4]} positions for {wrong[0]} rows: boxes, strides and the coordinate assertions follow the "
               "operator's view, so the operator reads and writes past the end of its tensors") if wrong else "")


def rule_resize_1x1_constant(repo, rep):
    go = repo.mod("tflite_graph_optimiser")
    f = go.func("convert_resize_1x1_to_add")
    site = "ethosu/vela/tflite_graph_optimiser.py:convert_resize_1x1_to_add"
    cs = [c for c in ast.walk(f) if isinstance(c, ast.Call) and call_name(c) == "create_const_tensor"]
    if len(cs) != 1 or len(cs[0].args) < 4:
        raise AnalysisError("convert_resize_1x1_to_add: the zero constant is not created by one create_const_tensor call")

    def origin(e, depth=0):
        if isinstance(e, ast.Name) and depth < 4:
            defs = [a for a in ast.walk(f) if isinstance(a, ast.Assign) and len(a.targets) == 1 and str(norm(a.targets[0])) == e.id]
            if len(defs) == 1:
                return origin(defs[0].value, depth + 1)
        return str(norm(e))

    shp = origin(cs[0].args[1])
    vals = origin(cs[0].args[3])
    ok_shape = "ofm_shapes[0]" in shp or "ofm.shape" in shp
    ok_vals = True
    if vals.startswith("np.zeros(") or vals.startswith("numpy.zeros("):
        zc = [c for c in ast.walk(f) if isinstance(c, ast.Call) and call_name(c) in ("np.zeros", "numpy.zeros")]
        ok_vals = bool(zc) and all("ofm_shapes[0]" in origin(c.args[0]) or "ofm.shape" in origin(c.args[0]) for c in zc)
    rep.check(ok_shape and ok_vals, "C02-r", site, "the zero operand has the OFM's shape", f"shape `{shp}`, values `{vals}`: the ADD keeps its HxWxC OFM while both operands are 1x1xC with no broadcast: "
              "the constant is read as an HxWxC feature map, past the end of the constants tensor (demonstrated: 1x1x16 -> 160x160 reads [0, 5072) of 2032 bytes)")


def rule_mixed_intermediates(repo, rep):
    """(t) A rewrite that lowers a binary operator builds intermediate operators by hand and gives each an output tensor cloned from an
    existing tensor. An intermediate that combines *both* source operands (directly or through earlier intermediates) has the shape of the
    broadcast result; cloning it from one fixed operand gives the operand's shape - the smaller one when that operand is the broadcast one -
    and the final operator then has an OFM larger than both inputs, for which no broadcast bit is set: its constant second operand is read
    as a full feature map, past the end of its tensor. Dataflow over the function: sides of add_input_tensor arguments are propagated
    through set_output_tensor; the clone source of a mixed tensor must not be a single-side operand name."""
    import re as _re

    go = repo.mod("tflite_graph_optimiser")
    n = 0

    def side(name):
        t = set(_re.split(r"[_.]+", name.lower()))
        if "ifm2" in t or "input2" in t:
            return {"ifm2"}
        if "ifm" in t or "input1" in t:
            return {"ifm"}
        return set()

    for q, fn in go.functions.items():
        params = [a.arg for a in fn.args.args]
        if not params or params[0] != "op":
            continue
        unpack = [a for a in ast.walk(fn) if isinstance(a, ast.Assign) and isinstance(a.targets[0], ast.Tuple) and str(norm(a.value)) in ("op.get_ifm_ifm2_ofm()", "op.get_ifm_ifm2_weights_ofm()")]
        if not unpack:
            continue
        sides = {}
        clones = {}
        for a in ast.walk(fn):
            if isinstance(a, ast.Assign) and len(a.targets) == 1 and isinstance(a.targets[0], ast.Name) and isinstance(a.value, ast.Call) and isinstance(a.value.func, ast.Attribute) and a.value.func.attr == "clone":
                clones[a.targets[0].id] = (a.value.func.value, a.lineno)
        for nm in list(clones) + ["ifm", "ifm2"]:
            sides[nm] = set(side(nm))
        # operators built by hand: <var> = Operation(..) followed by add_input_tensor / set_output_tensor on <var>
        ops = {}
        for c in ast.walk(fn):
            if isinstance(c, ast.Call) and isinstance(c.func, ast.Attribute) and isinstance(c.func.value, ast.Name) and c.func.attr in ("add_input_tensor", "set_output_tensor") and c.args and isinstance(c.args[0], ast.Name):
                ops.setdefault((c.func.value.id, _owner_line(fn, c.func.value.id, c.lineno)), {"in": [], "out": None})
                d = ops[(c.func.value.id, _owner_line(fn, c.func.value.id, c.lineno))]
                if c.func.attr == "add_input_tensor":
                    d["in"].append(c.args[0].id)
                else:
                    d["out"] = c.args[0].id
        changed = True
        while changed:
            changed = False
            for d in ops.values():
                if d["out"] is None:
                    continue
                s_in = set()
                for i_ in d["in"]:
                    s_in |= sides.get(i_, set())
                if not s_in <= sides.get(d["out"], set()) or (d["out"] not in sides):
                    new = sides.get(d["out"], set()) | s_in
                    if new != sides.get(d["out"]):
                        sides[d["out"]] = new
                        changed = True
        for d in ops.values():
            out = d["out"]
            if out in clones and sides.get(out, set()) >= {"ifm", "ifm2"}:
                src, ln = clones[out]
                n += 1
                single = isinstance(src, ast.Name) and src.id in ("ifm", "ifm2")
                rep.check(not single, "C02-t", f"ethosu/vela/tflite_graph_optimiser.py:{q}", f"`{out}` combines both operands and is not cloned from one fixed operand (`{str(norm(src))}.clone(..)`)",
                          f"`{out} = {str(norm(src))}.clone(..)` (line {ln}): when `{str(norm(src))}` is the broadcast operand the intermediate is 1x1xC and the last operator's OFM is larger than both of its inputs: "
                          "SQUARED_DIFFERENCE([1,1,1,16], [1,200,200,16]) reads the [1] multiplier constant as 200x200x1: bytes [0, 1588) of a 720-byte constants tensor")
    if n < 1:
        raise AnalysisError("tflite_graph_optimiser: no hand-built intermediate that combines both operands found")


def _owner_line(fn, var, lineno):
    """Line of the last `var = Operation(..)` / `var = create_..(..)` binding at or before lineno (distinguishes re-used variable names)."""
    best = 0
    for a in ast.walk(fn):
        if isinstance(a, ast.Assign) and len(a.targets) == 1 and isinstance(a.targets[0], ast.Name) and a.targets[0].id == var and a.lineno <= lineno:
            best = max(best, a.lineno)
    return best


def rule_tensor_geometry(repo, rep, rule="C02-v"):
    """(v) Tensor.get_augmented_coord and Tensor.storage_shape_for_sub_purpose are interpreted (engine interpreter, repo source). A brick
    is 16 *channels* (get_strides multiplies by the element size): the augmented coordinate of channel c is (c // 16, c % 16) for 1-, 2-
    and 4-byte elements. A rolling buffer's storage shape is the full shape clipped to the buffer extent in the rolling axes: addresses
    wrap at that extent, and the live range reserves exactly that many rows."""
    from ..absint import AList, AObj, EnumMember, Interp

    tm = repo.mod("tensor")
    site = "ethosu/vela/tensor.py:Tensor"
    for need in ("Tensor.get_augmented_coord", "Tensor.storage_shape_for_sub_purpose"):
        if tm.func(need) is None:
            raise AnalysisError(f"tensor.{need} not found")

    def full_shape(i, a, k, n):
        dim, shape, fill = a
        return AList([fill] * (dim - len(shape.items)) + list(shape.items))

    it = Interp(repo, tm, externs={"full_shape": full_shape})
    wrong = None
    pts = 0
    for bits in (8, 16, 32):
        for c in (0, 5, 15, 16, 17, 31, 32, 37, 63):
            self_ = AObj("t", {"storage_shape": AList([1, 40, 24, 64]), "format": EnumMember(tm, tm.cls("TensorFormat"), "NHCWB16", None), "element_size_bytes": bits // 8}, cls="Tensor")
            ps = [p_ for p_ in it.run("Tensor.get_augmented_coord", lambda self_=self_, c=c: ([self_, AList([0, 3, 5, c])], {})) if p_.kind == "return"]
            if len(ps) != 1 or not isinstance(ps[0].value, AList) or not all(isinstance(x, int) for x in ps[0].value.items):
                raise AnalysisError(f"get_augmented_coord not evaluable for {bits}-bit elements, channel {c}: {[(p_.kind, p_.value) for p_ in ps][:2]}")
            pts += 1
            if ps[0].value.items != [0, c // 16, 3, 5, c % 16] and wrong is None:
                wrong = (bits, c, ps[0].value.items)
    rep.check(wrong is None, rule, site + ".get_augmented_coord", f"NHCWB16: channel c -> brick c // 16, lane c % 16 for 8-, 16- and 32-bit elements ({pts} points)",
              (f"{wrong[0]}-bit elements, channel {wrong[1]}: {wrong[2]} (brick {wrong[1] // 16}, lane {wrong[1] % 16} expected): a box that starts at a channel offset (OFM depth slice of an int16 convolution) "
               "gets a base address in another brick: slices overlap or land behind the tensor") if wrong else "")
    wrong = None
    pts = 0
    for sp, pa, pb, want in (("RollingBufferY", 10, None, [1, 10, 24, 16]), ("RollingBufferY", 100, None, [1, 40, 24, 16]), ("RollingBufferX", 5, None, [1, 40, 5, 16]),
                             ("RollingBufferXY", 5, 10, [1, 10, 5, 16]), ("Standard", None, None, [1, 40, 24, 16])):
        self_ = AObj("t", {"storage_shape": AList([1, 40, 24, 16]), "shape": AList([1, 40, 24, 16])}, cls="Tensor")
        em = EnumMember(tm, tm.cls("TensorSubPurpose"), sp, None)
        ps = [p_ for p_ in it.run("Tensor.storage_shape_for_sub_purpose", lambda self_=self_, em=em, pa=pa, pb=pb: ([self_, em, pa, pb], {})) if p_.kind == "return"]
        if len(ps) != 1 or not isinstance(ps[0].value, AList):
            raise AnalysisError(f"storage_shape_for_sub_purpose({sp}) not evaluable: {[(p_.kind, p_.value) for p_ in ps][:2]}")
        pts += 1
        if ps[0].value.items != want and wrong is None:
            wrong = (sp, pa, pb, ps[0].value.items, want)
    rep.check(wrong is None, rule, site + ".storage_shape_for_sub_purpose", f"rolling-buffer storage shapes are the full shape clipped to the buffer extent ({pts} cases)",
              (f"{wrong[0]}({wrong[1]}, {wrong[2]}) of a [1, 40, 24, 16] map: {wrong[3]}, expected {wrong[4]}: addresses no longer wrap at the buffer height while the live range reserves the buffer only: "
               "stripes are written behind the reserved rows") if wrong else "")


def rule_nhcwb16_restrictions(repo, rep, rule="C02-w"):
    """(w) a tensor gets the brick format only if every operator around it sees it with the tensor's own shape, and only if no DMA copy
    (Op.Memcpy) touches it. _avoid_nhcwb16_for_shapes: each loop (consumers, producers) compares Shape4D(tens.shape) with the *operator's
    view* (`<op>.ifm_shapes[k]` / `<op>.ofm_shapes[0]`, directly or through a local) - comparing with the tensor's own shape again is
    vacuous, and a producer that writes through a larger view then overruns the storage sized from the tensor shape.
    _avoid_nhcwb16_for_memory_only: its predicate is true for Op.Memcpy (folded with the tuples of the module)."""
    m = repo.mod("graph_optimiser_util")
    fn = m.func("_avoid_nhcwb16_for_shapes")
    site = "ethosu/vela/graph_optimiser_util.py:_avoid_nhcwb16_for_shapes"
    loops = [s for s in fn.body if isinstance(s, ast.For)]
    roles = {}
    for lp in loops:
        it = str(norm(lp.iter))
        role = "consumers" if it.endswith(".consumer_list") else ("producers" if it.endswith(".ops") else None)
        if role is None:
            continue
        opv = lp.target.id if isinstance(lp.target, ast.Name) else None
        local_views = {}
        for st in ast.walk(lp):
            if isinstance(st, ast.Assign) and isinstance(st.targets[0], ast.Name):
                local_views.setdefault(st.targets[0].id, []).append(str(norm(st.value)))
        cmps = [c for c in ast.walk(lp) if isinstance(c, ast.Compare) and isinstance(c.ops[0], (ast.NotEq, ast.Eq)) and "Shape4D(tens.shape)" in (str(norm(c.left)), str(norm(c.comparators[0])))]
        ok, why = bool(cmps), "no comparison with Shape4D(tens.shape)"
        want = r"^%s\.(ifm_shapes|ofm_shapes)\[\d\]$" % re.escape(opv or "?")
        if role == "producers":
            want = r"^%s\.ofm_shapes\[0\]$" % re.escape(opv or "?")
        for c in cmps:
            other = c.comparators[0] if str(norm(c.left)) == "Shape4D(tens.shape)" else c.left
            texts = local_views.get(other.id, []) if isinstance(other, ast.Name) else [str(norm(other))]
            if not texts or not all(re.match(want, t) for t in texts):
                ok, why = False, f"compared with `{texts}`: not the operator's own view of the tensor ({'ofm_shapes[0]' if role == 'producers' else 'ifm_shapes[k]'}) - the test cannot see a reshaped view"
        roles[role] = (ok, why, str(norm(cmps[0]))[:70] if cmps else "-")
    for role in ("consumers", "producers"):
        if role not in roles:
            rep.bad(rule, site, f"the {role} of the tensor are compared", "no loop over them")
        else:
            rep.check(roles[role][0], rule, site, f"{role}: `{roles[role][2]}` compares the tensor shape with each operator's view", roles[role][1])
    g = m.func("_avoid_nhcwb16_for_memory_only")
    gsite = "ethosu/vela/graph_optimiser_util.py:_avoid_nhcwb16_for_memory_only"
    cmps = [c for c in ast.walk(g) if isinstance(c, ast.Compare) and len(c.ops) == 1 and (str(norm(c.left)).endswith(".type") or str(norm(c.comparators[0])).endswith(".type"))]
    ok = False
    for c in cmps:
        r = c.comparators[0]
        if isinstance(c.ops[0], ast.Eq) and "Op.Memcpy" in (str(norm(r)), str(norm(c.left))):
            ok = True
        if isinstance(c.ops[0], ast.In):
            tup = r if isinstance(r, (ast.Tuple, ast.List, ast.Set)) else (m.assign(r.id) if isinstance(r, ast.Name) and r.id in m.assigns else None)
            if isinstance(tup, (ast.Tuple, ast.List, ast.Set)) and any(str(norm(e)) == "Op.Memcpy" for e in tup.elts):
                ok = True
    rep.check(ok, rule, gsite, "the predicate is true for an operator of type Op.Memcpy", f"`{str(norm(cmps[0])) if cmps else None}` does not hold for Op.Memcpy: the source / destination of a DMA copy becomes NHCWB16 and the DMA moves the brick "
              "volume (576 bytes) into a linear tensor of 368")


def rule_round10_geometry(repo, rep):
    """(x) Tensor.set_format cuts the per-format NHWC tables (storage rounding quantum, brick size) to the rank of the tensor. Shapes of rank
    < 4 align with the *last* axes (C is always last): every such cut is the trailing slice `[-shape_len:]`. A leading slice drops the
    16-channel rounding of a rank-3 brick-format tensor, whose storage is then published as H*W*C bytes and addressed in bricks.
    (y) move_splitsliceread_to_consumer moves the read window of a slice to the consumer's operand that read the slice: in each branch every
    indexed store on the consumer (`read_offsets[k]`, `read_shapes[k]`, `ifm_shapes[k]`, `indices.ifms[k]`) uses the branch's one operand
    index k - the branch selected by `cons_op.ifm == op.ofm` index 0, the one selected by `cons_op.ifm2 == op.ofm` index 1."""
    tm = repo.mod("tensor")
    fn = tm.func("Tensor.set_format")
    site = "ethosu/vela/tensor.py:Tensor.set_format"
    cuts = [st for st in ast.walk(fn) if isinstance(st, ast.Assign) and isinstance(st.value, ast.Call) and call_name(st.value) == "tuple" and st.value.args
            and isinstance(st.value.args[0], ast.Subscript) and isinstance(st.value.args[0].slice, ast.Slice)]
    if len(cuts) < 2:
        raise AnalysisError(f"Tensor.set_format: {len(cuts)} rank cuts found")
    for st in cuts:
        sl = st.value.args[0].slice
        ok = sl.upper is None and sl.step is None and sl.lower is not None and str(norm(sl.lower)) == "-shape_len"
        rep.check(ok, "C02-x", site, f"`{str(norm(st))[:90]}` keeps the trailing axes", f"slice `{str(norm(st.value.args[0]))[-24:]}` is not the trailing `[-shape_len:]`: a rank-3 NHCWB16 tensor with C % 16 != 0 loses its "
                  "channel rounding - allocated and published as H*W*C bytes, addressed in 16-channel bricks")
    gm = repo.mod("graph_optimiser_util")
    g = gm.func("move_splitsliceread_to_consumer")
    gsite = "ethosu/vela/graph_optimiser_util.py:move_splitsliceread_to_consumer"
    branches = []
    for st in g.body:
        cur = st
        while isinstance(cur, ast.If):
            branches.append((str(norm(cur.test)), cur.body))
            cur = cur.orelse[0] if len(cur.orelse) == 1 and isinstance(cur.orelse[0], ast.If) else None
    branches = [(t, b) for t, b in branches if ".ifm" in t and "== op.ofm" in t]
    if len(branches) != 2:
        raise AnalysisError(f"move_splitsliceread_to_consumer: {len(branches)} operand branches found")
    for t, body in branches:
        want = 1 if ".ifm2 == op.ofm" in t else 0
        idx = []
        for st in body:
            for x in ast.walk(st):
                if isinstance(x, ast.Subscript) and isinstance(x.slice, ast.Constant) and isinstance(x.slice.value, int) and str(norm(x.value)).startswith("cons_op."):
                    idx.append((str(norm(x.value)), x.slice.value))
        wrong = [f"{nm}[{k}]" for nm, k in idx if k != want]
        rep.check(bool(idx) and not wrong, "C02-y", gsite, f"branch `{t[:60]}` stores the read window and shape at operand index {want} ({len(idx)} indexed uses)",
                  f"{wrong} in the branch of operand {want}: the other operand of the consumer gets the (larger) shape of the slice source and is read with its strides - about twice its storage")


def rule_rolling_buffer_tiles(repo, rep):
    """(z) Tensor.addresses_for_rolling_buffer splits an access into tiles where it crosses the end of the buffer. For a rolling buffer (not a
    standard feature map) the crossing points are those of the buffer's own storage shape - `Shape4D(self.storage_shape)`, which is smaller
    than the operator's shape; only a standard feature map uses the storage shape derived from the operator's shape. With the operator
    shape for a rolling buffer no access ever wraps and rows beyond the buffer are addressed."""
    tm = repo.mod("tensor")
    fn = tm.func("Tensor.addresses_for_rolling_buffer")
    site = "ethosu/vela/tensor.py:Tensor.addresses_for_rolling_buffer"
    defs = [st for st in ast.walk(fn) if isinstance(st, ast.Assign) and str(norm(st.targets[0])) == "storage_shape_4D"]
    if not defs:
        raise AnalysisError("addresses_for_rolling_buffer: storage_shape_4D not found")
    by_cond = {}
    for st in defs:
        cur, cond = st, None
        while cur is not fn and cur is not None:
            pp = tm.parents.get(cur)
            if isinstance(pp, ast.If) and "is_standard_fm" in str(norm(pp.test)):
                pos = cur in pp.body
                neg = str(norm(pp.test)).startswith("not ")
                cond = pos != neg
            cur = pp
        by_cond[cond] = str(norm(st.value))
    ok = by_cond.get(False) in ("Shape4D(self.storage_shape)",) and by_cond.get(True, "").startswith("self.get_4D_storage_shape_for_shape(") and None not in by_cond
    # the same for every other use in the class: the storage shape derived from an operator's shape is taken only under is_standard_fm
    from ..exprnorm import conjuncts as _cjz

    n_use = 0
    for q2, f2 in tm.functions.items():
        if not q2.startswith("Tensor.") or q2 == "Tensor.get_4D_storage_shape_for_shape":
            continue
        for c_ in ast.walk(f2):
            if not (isinstance(c_, ast.Call) and str(norm(c_.func)) == "self.get_4D_storage_shape_for_shape"):
                continue
            n_use += 1
            conds = set()
            cur = c_
            while cur is not f2 and cur is not None:
                pp = tm.parents.get(cur)
                if isinstance(pp, ast.If) and cur in pp.body:
                    conds |= {str(norm(x)) for x in _cjz(pp.test)}
                cur = pp
            rep.check("self.is_standard_fm" in conds, "C02-z", f"ethosu/vela/tensor.py:{q2}", "the operator-derived storage shape is used under `self.is_standard_fm`",
                      f"conditions {sorted(conds)}: a rolling buffer (feature map purpose, sub-purpose RollingBufferY) is addressed through the operator's shape - offsets beyond the buffer that was allocated")
    if n_use < 2:
        raise AnalysisError(f"Tensor: {n_use} uses of get_4D_storage_shape_for_shape")
    rep.check(ok, "C02-z", site, "tile crossings of a rolling buffer use the buffer's own storage shape; only a standard feature map uses the shape derived from the operator's",
              f"definitions {by_cond}: a rolling buffer is addressed with the operator's (larger) shape - no access wraps at the end of the buffer, the rows behind it are read and written")


def rule_lut_placement_step(repo, rep):
    """(ab) a LUT is placed inside the SHRAM LUT area at an address that is a multiple of its own size: find_best_address(start, stop, step)
    walks `range(start, stop, step)` and tests `[addr, addr + step)`, so every candidate plus the LUT's size stays below `stop` only if the
    step is the LUT's storage size (the area is a multiple of every LUT size). The step argument of the call in
    optimize_high_level_cmd_stream is `<lut>.storage_size()` of the tensor that receives the address."""
    lm = repo.mod("lut")
    fn = lm.func("optimize_high_level_cmd_stream")
    site = "ethosu/vela/lut.py:optimize_high_level_cmd_stream"
    calls = [st for st in ast.walk(fn) if isinstance(st, ast.Assign) and isinstance(st.value, ast.Call) and str(norm(st.value.func)).endswith(".find_best_address")]
    if len(calls) != 1 or len(calls[0].value.args) != 3:
        raise AnalysisError("optimize_high_level_cmd_stream: find_best_address call not found")
    addr_var = str(norm(calls[0].targets[0]))
    recv = [str(norm(st.targets[0].value)) for st in ast.walk(fn) if isinstance(st, ast.Assign) and isinstance(st.targets[0], ast.Attribute) and st.targets[0].attr == "address" and str(norm(st.value)) == addr_var]
    step_e = calls[0].value.args[2]
    if isinstance(step_e, ast.Name):
        ds = [st.value for st in ast.walk(fn) if isinstance(st, ast.Assign) and len(st.targets) == 1 and str(norm(st.targets[0])) == step_e.id]
        step_e = ds[-1] if len(ds) == 1 else step_e
    step = str(norm(step_e))
    ok = len(recv) == 1 and step == f"{recv[0]}.storage_size()"
    rep.check(ok, "C02-ab", site, f"the LUT is placed on a multiple of its own size: step `{step}`", f"step `{step}` is not the storage size of `{recv}`: a 2 KiB table can be placed 1 KiB below the end of the 2 KiB LUT area - its DMA writes 1 KiB beyond the SHRAM")
    fb = lm.func("LUTState.find_best_address")
    loops = [lp for lp in ast.walk(fb) if isinstance(lp, ast.For) and str(norm(lp.iter)) == "range(start, stop, step)"]
    rep.check(len(loops) == 1, "C02-ab", "ethosu/vela/lut.py:LUTState.find_best_address", "candidates are start, start + step, .. below stop", "candidate loop not recognised")

"""C13 Any structurally valid model either compiles or is rejected with a diagnosis.

A definite-error checker over every function reachable from the entry points
(undefined names, missing imported names, wrong call arity), a definite
NEP-50 overflow rule (narrow NumPy integers meeting out-of-range Python int
constants), schema-enum totality, raise-class discipline and the CLI's
VelaError handler. Totality over all models is not decided."""
import ast
import re as _re
import re
import builtins
import symtable

from ..astutil import calls_in, call_name, dotted, get_kwarg, norm, try_fold, walk_no_nested
from ..callgraph import CallGraph, bind_args
from ..cfg import cfg_of
from ..core import AnalysisError
from ..tables import enum_of

ENTRY = [("vela", "main"), ("vela", "process"), ("vela", "convert"), ("vela", "convert_bytes"), ("api", "npu_encode_weights"), ("api", "npu_encode_bias"),
         ("api", "npu_find_block_configs"), ("api", "npu_generate_register_command_stream"), ("api", "npu_create_driver_payload"), ("api", "npu_get_api_version")]
NARROW = {"int8": (-128, 127), "int16": (-32768, 32767), "int32": (-2**31, 2**31 - 1), "uint8": (0, 255), "uint16": (0, 65535), "uint32": (0, 2**32 - 1)}


def run(repo, rep):
    rep.clause("C13-a", "no function reachable from the entry points contains a definite error on an unconditional path: undefined name, name missing from the imported module, call with impossible arity")
    rep.clause("C13-a'", "no arithmetic reachable from the entry points is a definite OverflowError under NumPy >= 2 (NEP 50): fixed-width NumPy integers never meet an out-of-range Python int constant")
    rep.clause("C13-b", "every schema enum the reader indexes with is total or guarded; enum-keyed configuration lookups get a name-valued default")
    rep.clause("C13-c", "deliberate raises on the driver path are VelaError subclasses (or the reviewed table); main() converts VelaError into exit status 1; readers convert parse errors")
    rep.clause("C13-d", "unsupported operators fall back (checkers return False, never raise)")
    rep.undecided("totality over all valid models and option combinations (index errors on odd shapes, asserts that valid inputs can trip)")
    from .shared import mutated_iteration_lint, none_skip_lint

    if mutated_iteration_lint(repo, rep, "C13-d", ["extract_npu_subgraphs", "nn_graph", "pass_packing", "graph_optimiser_util", "tflite_graph_optimiser"]) < 2:
        raise AnalysisError("loops that shrink the collection they iterate were not found (extract_npu_subgraphs)")

    none_skip_lint(repo, rep, "C13-d", ['mark_tensors'])
    cg = CallGraph(repo)
    reach = cg.reachable(ENTRY)
    for e in ENTRY:
        if e not in cg.funcs:
            raise AnalysisError(f"entry point {e} vanished")
    rep.extra["functions_indexed"] = len(cg.funcs)
    rep.extra["functions_reachable"] = len(reach)
    rep.extra["call_edges_resolved"] = cg.resolved
    rep.extra["call_edges_unresolved"] = cg.unresolved
    if len(reach) < 600:
        raise AnalysisError(f"only {len(reach)} functions reachable from the entry points (call graph broken?)")
    rule_definite(repo, rep, cg, reach)
    rule_nep50(repo, rep, cg, reach)
    rule_enums(repo, rep)
    rule_raises(repo, rep, cg, reach)
    rule_assert_discharge(repo, rep)
    rule_exposed_rewrites(repo, rep)
    rule_empty_reductions(repo, rep)
    rule_report_none_operands(repo, rep)
    rule_round3(repo, rep)
    rule_round4(repo, rep)
    rule_dynamic_operands(repo, rep)
    rule_array_truth(repo, rep)
    rule_absent_vectors(repo, rep)
    rule_lut_dispatch(repo, rep)
    rule_reshape_counts(repo, rep)
    rule_round5(repo, rep)
    rep.clause("C13-h", "the scale derivation never hands the bias / scale packer a shift it asserts against (range guard of quantise_scale == 0 <= shift < 64) [rule shared with C09-a]")
    from . import c09

    rep.run_borrowed(c09, {"C09-a": "C13-h"}, repo)
    rep.clause("C13-f", "the writer can look up every operator code it registered (no KeyError while writing a model with several third-party custom operators) [rule shared with C11-d2]")
    from . import c11

    rep.run_borrowed(c11, {"C11-d2": "C13-f"}, repo)
    rep.clause("C13-ac", "the (width, height) pairs returned by the operator getters are unpacked in that order in the graph rewrites (an exchanged pair indexes HWIO weights out of range for non-square kernels)")
    from .shared import pair_unpack_lint as _pul

    if _pul(repo, rep, "C13-ac", ["tflite_graph_optimiser", "graph_optimiser_util", "softmax", "lstm"]) < 4:
        raise AnalysisError("pair unpackings in the graph rewrites: fewer than 4 found")
    rep.clause("C13-ab", "tensors fused into one live range have one size (LiveRange.add_tensor asserts it): in-place reuse keeps its reviewed conjuncts, among them equal element types [rule shared with C03-g]")
    from . import c12 as _c12

    rep.run_borrowed(_c12, {"C12-d": "C13-ab"}, repo, only_sites=("_get_ifm_to_fuse",))
    rep.clause("C13-ae", "the HillClimb search never draws from an empty candidate range: per-trial state of ranges an aborted trial did not reach is re-initialised [rule shared with C05-g]")
    from . import c05 as _c05

    rep.run_borrowed(_c05, {"C05-g": "C13-ae"}, repo)
    rep.clause("C13-bb", "the linear allocator visits a live range once: every tensor of a placed range is recorded as allocated (an assertion otherwise) [rule shared with C05-i]")
    rep.run_borrowed(_c05, {"C05-i": "C13-bb"}, repo, only_sites=("linear_allocate_live_ranges",))
    rep.clause("C13-af", "Operation.clone copies every member and runs validating setters after the members they read (a clone with AwayZero rounding asserts otherwise) [rule shared with C08-p]")
    from .shared import clone_completeness as _cc

    if _cc(repo, rep, "C13-af") < 20:
        raise AnalysisError("Operation.clone: fewer than 20 members checked")
    rep.clause("C13-ag", "positional arguments spelled like a parameter of the callee sit at that parameter's position in the compiler driver (memory tensors handed to the serialiser)")
    from .shared import swapped_argument_lint as _sal

    if _sal(repo, rep, "C13-ag", ["compiler_driver", "npu_serialisation"]) < 3:
        raise AnalysisError("compiler_driver: fewer than 3 calls with parameter-named arguments")
    rep.clause("C13-ah", "a CPU pass is moved behind a later pass only if that pass reads none of its outputs: the dependency test looks at every feature-map operand of the later pass (ifm and ifm2)")
    rule_cpu_pass_move(repo, rep)
    rep.clause("C13-aj", "chain merges (pre -> mid -> post into mid) go ahead only if each tensor in between has exactly one consumer")
    rule_chain_merge_consumers(repo, rep)
    rep.clause("C13-av", "the default scaling branch of pooling-type operators dereferences the (optional) quantisation records only under a None test")
    rule_optional_quantization(repo, rep)
    rep.clause("C13-aw", "the graph walkers and debug printers of nn_graph dereference the elements of an operator's input list (None for an absent optional operand) only under a None/truth test")
    rule_input_holes(repo, rep)
    rep.clause("C13-bd", "the saturating stand-in of the table generators keeps their arithmetic finite: the clamp bounds of finite_lut_value are literals of magnitude 1e30..1e200")
    rule_saturating_stand_in(repo, rep)
    rep.clause("C13-be", "rewrites that run before the supported-operator check index a tensor's shape with a constant only under a test of its rank")
    rule_pre_check_shape_rank(repo, rep)
    rep.clause("C13-bf", "a byte view of tensor data is taken of a flattened array (a 0-d array cannot change its item size): `<x>.view(<8-bit type>)` in the writer follows flatten() / ravel() / reshape(-1)")
    rule_byte_view_rank(repo, rep)
    rep.clause("C13-bg", "rewrites that run before the supported-operator check use a tensor's scale as a scalar only after a returning per-axis test")
    rule_pre_check_scalar_scales(repo, rep)
    rep.clause("C13-ax", "an operator that the optimisation driver itself creates from a subgraph's tensors (not from an operator that passed the checks) is submitted to the supported-operator check before the driver returns")
    rule_driver_created_operators(repo, rep)
    rep.clause("C13-ay", "STRIDED_SLICE begin / end positions end up inside [0, dim] whatever the operand holds (the offsets become read windows unchecked)")
    rule_slice_offsets_bounded(repo, rep)
    rep.clause("C13-az", "the reader's and the driver's file-type dispatch agree: a name that read_model accepts as .tflite / .tosa is a name for which vela.process writes that kind of output (same predicate, same case handling)")
    rule_file_type_dispatch(repo, rep)
    rep.clause("C13-ba", "operator attributes that hold subgraphs are written as the containers their readers iterate (CALL_ONCE / WHILE / IF: tuples)")
    rule_subgraph_attr_shape(repo, rep)
    rep.clause("C13-bc", "the constant folding of QUANTIZE walks scalar elements in every branch: loops over the input values iterate the flattened array (a constant of rank 2 or more is not a sequence of scalars) and the result takes the input's shape")
    rule_quantize_fold_elements(repo, rep)
    rep.clause("C13-au", "members of an operator's (optional) options table are read with .get() or under a membership test in the reader")
    rule_option_members_optional(repo, rep)
    rep.clause("C13-aq", "the scale check rejects a tensor if any of its scales is infinite (quantifier kept under negation)")
    rep.clause("C13-ar", "the reader records every buffer of the file (index alignment of tensors and buffers)")
    rep.clause("C13-as", "debug database pairs are read member by member as they are stored")
    rule_round8(repo, rep)
    rep.clause("C13-at", "the driver payload header fits its 32-bit words for every stream length below 2^24 (struct.pack would raise) [rule shared with C17-a]")
    from . import c17 as _c17

    rep.run_borrowed(_c17, {"C17-a": "C13-at"}, repo)
    rep.clause("C13-ap", "tensors of accelerated operators have complete quantisation records: a scale without a zero point is rejected by the semantic check")
    rule_quant_record_complete(repo, rep)
    rep.clause("C13-ao", "table generators evaluate their math function under a handler for OverflowError (entries beyond the float range saturate)")
    rule_lut_fn_overflow(repo, rep)
    rep.clause("C13-an", "operands that get_split_inputs_axis asserts constant are required constant by a registered constraint of the operator")
    rule_asserted_constants(repo, rep)
    rep.clause("C13-am", "sizes of -1 ('the rest') are resolved in every branch of get_split_inputs_axis that turns sizes into offsets")
    rule_size_minus_one(repo, rep)
    rep.clause("C13-al", "optional string members of option tables are written only when present (None excluded before CreateString)")
    rule_optional_strings(repo, rep)
    rep.clause("C13-ak", "elements of tensor consumer lists (None marks a subgraph output) are dereferenced only under a None test")
    from .shared import consumer_deref_lint as _cdl

    if _cdl(repo, rep, "C13-ak")[0] < 10:
        raise AnalysisError("fewer than 10 iterations over consumer lists found")
    rep.clause("C13-ai", "no loop variable is read after its loop in pass packing / subgraph extraction (a CPU operator packed into an NPU pass never went through the graph optimiser: IndexError in the scheduler) [rule shared with C16-j]")
    from .shared import stale_loop_variable_lint as _slv

    _slv(repo, rep, "C13-ai", ["pass_packing", "extract_npu_subgraphs"])


# ------------------------------------------------------------------ a


def _module_names(mod):
    names = set(mod.functions) | set(mod.classes) | set(mod.assigns) | set(mod.imports)
    for st in ast.walk(mod.tree):
        if isinstance(st, (ast.Global,)):
            names |= set(st.names)
    for st in mod.tree.body:
        for n in ast.walk(st) if isinstance(st, (ast.If, ast.Try, ast.For, ast.With)) else []:
            if isinstance(n, (ast.Assign, ast.AnnAssign, ast.AugAssign)):
                for t in (n.targets if isinstance(n, ast.Assign) else [n.target]):
                    for x in ast.walk(t):
                        if isinstance(x, ast.Name):
                            names.add(x.id)
            elif isinstance(n, (ast.Import, ast.ImportFrom)):
                for a in n.names:
                    names.add((a.asname or a.name).split(".")[0])
            elif isinstance(n, (ast.FunctionDef, ast.ClassDef)):
                names.add(n.name)
        if isinstance(st, ast.For):
            for x in ast.walk(st.target):
                if isinstance(x, ast.Name):
                    names.add(x.id)
        if isinstance(st, (ast.Assign,)):
            for t in st.targets:
                for x in ast.walk(t):
                    if isinstance(x, ast.Name):
                        names.add(x.id)
    return names


def rule_definite(repo, rep, cg, reach):
    bi = set(dir(builtins)) | {"__file__", "__name__", "__doc__", "__package__", "__spec__", "__builtins__"}
    mods = {}
    for k in reach:
        mods.setdefault(k[0], []).append(k)
    n_funcs = 0
    undefined = []
    for mname, keys in sorted(mods.items()):
        m = repo.mod(mname)
        gnames = _module_names(m) | bi
        try:
            st = symtable.symtable(m.src, m.path, "exec")
        except SyntaxError as e:
            raise AnalysisError(f"symtable: {e}")
        scopes = {}

        def walk(t, prefix):
            for c in t.get_children():
                q = prefix + c.get_name()
                if c.get_type() == "function":
                    scopes.setdefault(q, []).append(c)
                walk(c, q + ".")

        walk(st, "")
        for k in keys:
            fi = cg.funcs[k]
            n_funcs += 1
            for sc in scopes.get(fi.qual, []):
                if sc.get_lineno() != fi.node.lineno and not any(d.lineno == sc.get_lineno() for d in [fi.node]):
                    # decorated functions: symtable reports the def line as well
                    pass
                for sym in sc.get_symbols():
                    if sym.is_global() and sym.is_referenced() and not sym.is_assigned() and sym.get_name() not in gnames:
                        undefined.append((fi, sym.get_name()))
    seen = set()
    for fi, name in undefined:
        if (fi.key, name) in seen:
            continue
        seen.add((fi.key, name))
        uses = [n for n in walk_no_nested(fi.node) if isinstance(n, ast.Name) and n.id == name and isinstance(n.ctx, ast.Load)]
        if not uses:
            continue
        c = cfg_of(fi.node)
        uncond = False
        for u in uses:
            try:
                nid = c.node_of(u)
            except AnalysisError:
                continue
            if c.postdominates(nid, 0) and nid in c.reachable:
                uncond = True
        site = f"ethosu/vela/{fi.mod.name}.py:{fi.qual}"
        if uncond:
            rep.bad("C13-a", site, f"undefined name `{name}`", "NameError on every call of this function, which is reachable from an entry point")
        else:
            rep.info("C13-a", site, f"undefined name `{name}` (conditional path)", "NameError if the guarded path is taken; feasibility not decided")
    rep.ok("C13-a", "ethosu/vela", f"{n_funcs} reachable functions scanned for undefined global names", f"{len(seen)} hits, conditional ones listed as informational")
    # imported names exist
    n_imp = 0
    for mname in sorted(mods):
        m = repo.mod(mname)
        for local, imp in m.imports.items():
            kind, level, target, name = imp
            if kind != "from" or level == 0 and not (target or "").startswith("ethosu.vela"):
                continue
            r = repo.resolve_import(m, local)
            if r is None:
                # relative import that does not resolve to a package module
                base = target or ""
                cand = [x for x in repo.modules if x.split(".")[-1] == base.split(".")[-1]]
                if level >= 1 and not cand and base:
                    rep.bad("C13-a", f"ethosu/vela/{mname}.py:<module>", f"from {'.' * level}{base} import {name}", "module does not exist: ImportError at import time")
                continue
            n_imp += 1
            m2 = repo.mod(r[0])
            if r[1] is None:
                continue
            ok = r[1] in m2.functions or r[1] in m2.classes or r[1] in m2.assigns or r[1] in m2.imports or r[1] in _module_names(m2)
            rep.check(ok, "C13-a", f"ethosu/vela/{mname}.py:<module>", f"from .{r[0]} import {r[1]}", f"{r[0]} defines no `{r[1]}`: ImportError when the package is imported")
    # call arity on resolved calls
    n_calls = 0
    for k in sorted(reach):
        fi = cg.funcs[k]
        for call, tgt in cg.calls[k]:
            if tgt is None:
                continue
            f = tgt.node
            decos = [norm(d) for d in f.decorator_list]
            if any("lru_cache" in d or "property" in d for d in decos):
                continue
            d = dotted(call.func) or ""
            parts = d.split(".")
            is_static = any(x == "staticmethod" for x in decos)
            is_classm = any(x == "classmethod" for x in decos)
            via_class_ctor = tgt.qual.endswith(".__init__") and parts[-1] != "__init__"
            in_class = tgt.cls is not None
            if in_class and not is_static:
                if via_class_ctor or is_classm:
                    implicit = True
                elif parts[0] in ("self", "cls") and len(parts) == 2:
                    implicit = True
                elif len(parts) >= 2 and parts[-2] == tgt.cls.split(".")[-1]:
                    implicit = False  # Class.method(obj, ...) explicit receiver
                else:
                    implicit = True
            else:
                implicit = False
            if f.args.vararg or f.args.kwarg:
                continue
            n_calls += 1
            _, err = bind_args(f, call, implicit)
            if err:
                c = cfg_of(fi.node)
                try:
                    nid = c.node_of(call)
                    uncond = c.postdominates(nid, 0)
                except AnalysisError:
                    uncond = False
                site = f"ethosu/vela/{fi.mod.name}.py:{fi.qual}"
                txt = f"{norm(call)[:90]} -> {tgt.mod.name}.{tgt.qual}"
                if uncond:
                    rep.bad("C13-a", site, txt, f"TypeError on every call of the enclosing function: {err}")
                else:
                    rep.info("C13-a", site, txt + " (conditional path)", f"TypeError if reached: {err}")
    rep.ok("C13-a", "ethosu/vela", f"{n_calls} resolved call sites checked for arity / keyword agreement", "")
    rep.extra["imports_checked"] = n_imp
    rep.floor("C13-a", 150)


# ------------------------------------------------------------------ a'


def _narrow_dtype(call):
    """dtype name if call creates a fixed-width narrow integer array / scalar."""
    cn = call_name(call) or ""
    last = cn.split(".")[-1]
    if cn.startswith(("np.", "numpy.")) and last in NARROW and call.args:
        return last
    if cn.startswith(("np.", "numpy.")) and last in ("zeros", "ones", "full", "empty", "array", "asarray", "arange", "zeros_like", "ones_like"):
        for k in call.keywords:
            if k.arg == "dtype":
                d = (dotted(k.value) or "").split(".")[-1]
                if d in NARROW:
                    return d
        for a in call.args[1:]:
            d = (dotted(a) or "").split(".")[-1]
            if d in NARROW and (dotted(a) or "").startswith(("np.", "numpy.")):
                return d
    return None


def rule_nep50(repo, rep, cg, reach):
    # 1. functions returning a narrow array
    narrow_ret = {}
    for k, fi in cg.funcs.items():
        local = {}
        for n in walk_no_nested(fi.node):
            if isinstance(n, ast.Assign) and isinstance(n.value, ast.Call) and len(n.targets) == 1 and isinstance(n.targets[0], ast.Name):
                d = _narrow_dtype(n.value)
                if d:
                    local[n.targets[0].id] = d
        for n in walk_no_nested(fi.node):
            if isinstance(n, ast.Return) and n.value is not None:
                if isinstance(n.value, ast.Name) and n.value.id in local:
                    narrow_ret[k] = local[n.value.id]
                elif isinstance(n.value, ast.Call) and _narrow_dtype(n.value) and not (call_name(n.value) or "").split(".")[-1] in NARROW:
                    narrow_ret[k] = _narrow_dtype(n.value)
    # 2. attribute names holding such arrays
    narrow_attr = {}
    for k, fi in cg.funcs.items():
        local = {}
        for n in sorted((x for x in walk_no_nested(fi.node) if isinstance(x, ast.Assign)), key=lambda x: (x.lineno, x.col_offset)):
            if isinstance(n, ast.Assign) and len(n.targets) == 1:
                t, v = n.targets[0], n.value
                d = None
                if isinstance(v, ast.Call):
                    tgt = cg.resolve(fi, v)
                    if tgt is not None and tgt.key in narrow_ret:
                        d = narrow_ret[tgt.key]
                    elif isinstance(v.func, ast.Attribute) and any(kk[1].split(".")[-1] == v.func.attr for kk in narrow_ret):
                        # method call on an object of unknown class: match by method name
                        cands = {narrow_ret[kk] for kk in narrow_ret if kk[1].split(".")[-1] == v.func.attr}
                        if len(cands) == 1:
                            d = cands.pop()
                    d = d or (_narrow_dtype(v) if not (call_name(v) or "").split(".")[-1] in NARROW else None)
                elif isinstance(v, ast.Name) and v.id in local:
                    d = local[v.id]
                elif isinstance(v, ast.Attribute) and v.attr in narrow_attr:
                    d = narrow_attr[v.attr][0]
                if d:
                    if isinstance(t, ast.Name):
                        local[t.id] = d
                    elif isinstance(t, ast.Attribute) and t.attr not in ("values", "value", "data"):
                        # generic attribute names are shared by unrelated classes: too coarse for a name-based field abstraction
                        narrow_attr.setdefault(t.attr, (d, f"{fi.mod.name}:{fi.qual}"))
    # iterate once more for attr -> attr copies
    for k, fi in cg.funcs.items():
        for n in walk_no_nested(fi.node):
            if isinstance(n, ast.Assign) and len(n.targets) == 1 and isinstance(n.targets[0], ast.Attribute) and isinstance(n.value, ast.Attribute) and n.value.attr in narrow_attr:
                narrow_attr.setdefault(n.targets[0].attr, narrow_attr[n.value.attr])
    rep.extra["narrow_returning_functions"] = sorted(f"{a}:{b}" for a, b in narrow_ret)
    rep.extra["narrow_attributes"] = {a: v[0] for a, v in narrow_attr.items()}

    def const_args(key, param, depth=0, seen=None):
        """Constant ints that reach parameter `param` of function `key` through up to 3 calls."""
        seen = seen or set()
        if (key, param) in seen or depth > 3:
            return []
        seen.add((key, param))
        out = []
        tgt = cg.funcs[key]
        for caller, call in cg.callers_of(key, loose=True):
            d = dotted(call.func) or ""
            implicit = tgt.cls is not None and not any(norm(x) == "staticmethod" for x in tgt.node.decorator_list) and not (len(d.split(".")) >= 2 and d.split(".")[-2] == (tgt.cls or "").split(".")[-1])
            b, err = bind_args(tgt.node, call, implicit)
            if param not in b:
                continue
            a = b[param]
            v = try_fold(a)
            if isinstance(v, int) and not isinstance(v, bool):
                out.append((v, f"{caller.mod.name}:{caller.qual}: {norm(call)[:80]}"))
            elif isinstance(a, ast.Name):
                cparams = [p.arg for p in caller.node.args.args]
                if a.id in cparams:
                    out += [(v2, f"{w} -> {caller.mod.name}:{caller.qual}") for v2, w in const_args(caller.key, a.id, depth + 1, seen)]
        return out

    n = 0
    for k in sorted(reach):
        fi = cg.funcs[k]
        tainted = {}
        params = [p.arg for p in fi.node.args.args]
        # local taint: x = obj.<narrow attr> | x = tainted[...] | x = (tainted[...] if c else 0)
        changed = True
        assigns = [s for s in walk_no_nested(fi.node) if isinstance(s, ast.Assign) and len(s.targets) == 1 and isinstance(s.targets[0], ast.Name)]

        def dtype_of(e):
            if isinstance(e, ast.Attribute) and e.attr in narrow_attr:
                return narrow_attr[e.attr][0]
            if isinstance(e, ast.Name) and e.id in tainted:
                return tainted[e.id]
            if isinstance(e, ast.Subscript):
                return dtype_of(e.value)
            if isinstance(e, ast.IfExp):
                return dtype_of(e.body) or dtype_of(e.orelse)
            if isinstance(e, ast.Call):
                t = cg.resolve(fi, e)
                if t is not None and t.key in narrow_ret:
                    return narrow_ret[t.key]
                d = _narrow_dtype(e)
                if d:
                    return d
            return None

        while changed:
            changed = False
            for s in assigns:
                d = dtype_of(s.value)
                if d and s.targets[0].id not in tainted:
                    tainted[s.targets[0].id] = d
                    changed = True
        for node in walk_no_nested(fi.node):
            pairs = []
            if isinstance(node, ast.BinOp) and isinstance(node.op, (ast.Add, ast.Sub, ast.Mult, ast.FloorDiv, ast.Mod, ast.BitAnd, ast.BitOr)):
                pairs = [(node.left, node.right), (node.right, node.left)]
            # comparisons are exempt: NumPy >= 2 compares out-of-range Python ints by value without raising
            elif isinstance(node, ast.AugAssign):
                pairs = [(node.target, node.value)]
            for a, b in pairs:
                d = dtype_of(a)
                if not d:
                    continue
                lo, hi = NARROW[d]
                consts = []
                v = try_fold(b)
                if isinstance(v, int) and not isinstance(v, bool):
                    consts = [(v, "literal")]
                elif isinstance(b, ast.Name) and b.id in params and b.id not in tainted:
                    consts = const_args(k, b.id)
                else:
                    continue
                n += 1
                bad = [(v2, w) for v2, w in consts if not lo <= v2 <= hi]
                site = f"ethosu/vela/{fi.mod.name}.py:{fi.qual}"
                txt = f"{norm(node)[:90]} with {norm(a)[:40]} : np.{d}"
                if bad:
                    v2, w = bad[0]
                    rep.bad("C13-a'", site, txt, f"the other operand is the Python int {v2} (from {w}), outside np.{d}: NumPy >= 2 raises OverflowError here; the narrow value comes from "
                            f"{narrow_attr.get(getattr(a, 'attr', ''), ('', 'a narrow array'))[1] if isinstance(a, ast.Attribute) else 'a narrow array'}")
                else:
                    rep.ok("C13-a'", site, txt, f"constants reaching the other operand: {[c for c, _ in consts][:4]}")
    # 3. dimensions of tensors read from a model file are np.int32 scalars (the reader turns ShapeAsNumpy() into a list): a Python
    #    int that can exceed int32 - a Q31 multiplier from quantise_scale shifted left - must not meet such a dimension in arithmetic
    n_w = 0
    for k in sorted(reach):
        fi = cg.funcs[k]
        if fi.mod.name.startswith("tosa"):
            continue
        dims, wide = set(), set()
        assigns = sorted((s_ for s_ in walk_no_nested(fi.node) if isinstance(s_, ast.Assign) and len(s_.targets) == 1), key=lambda s_: (s_.lineno, s_.col_offset))

        def is_dim(e):
            if isinstance(e, ast.Call) and norm(e.func) in ("int", "float") and len(e.args) == 1:
                return False  # explicit widening
            if isinstance(e, ast.Subscript) and isinstance(e.slice, (ast.Constant, ast.UnaryOp)) and re.search(r"(^|[._])shape$", str(norm(e.value))):
                return True
            if isinstance(e, ast.Name):
                if e.id not in dims:
                    return False
                # flow: the last assignment of the name before this use decides (c = int(c) widens c from there on)
                prior = [s_ for s_ in assigns if s_.lineno < getattr(e, "lineno", 10 ** 9) and any(isinstance(x_, ast.Name) and x_.id == e.id for x_ in ast.walk(s_.targets[0]))]
                if prior and isinstance(prior[-1].targets[0], ast.Name) and isinstance(prior[-1].value, ast.Call) and norm(prior[-1].value.func) in ("int", "float"):
                    return False
                return True
            if isinstance(e, ast.IfExp):
                return is_dim(e.body) or is_dim(e.orelse)
            if isinstance(e, ast.BinOp) and isinstance(e.op, (ast.Mult, ast.Add, ast.Sub, ast.FloorDiv)):
                return is_dim(e.left) or is_dim(e.right)
            return False

        def is_wide(e):
            if isinstance(e, ast.Name):
                return e.id in wide
            v_ = try_fold(e)
            if isinstance(v_, int) and not isinstance(v_, bool) and not (-(1 << 31) <= v_ < (1 << 31)):
                return True  # a Python int constant outside int32
            if isinstance(e, ast.BinOp) and isinstance(e.op, ast.LShift):
                return is_wide(e.left)
            return False

        for _ in range(3):
            for s_ in assigns:
                t = s_.targets[0]
                if isinstance(t, ast.Name):
                    if is_dim(s_.value):
                        dims.add(t.id)
                    v_ = try_fold(s_.value)
                    if isinstance(v_, int) and not isinstance(v_, bool) and not (-(1 << 31) <= v_ < (1 << 31)):
                        wide.add(t.id)
                # n, h, w, c = x.shape / full_shape(4, x.shape, 1): every target is a dimension
                if isinstance(t, ast.Tuple) and all(isinstance(e_, ast.Name) for e_ in t.elts):
                    v = s_.value
                    src = v.args[1] if isinstance(v, ast.Call) and (call_name(v) or "").split(".")[-1] == "full_shape" and len(v.args) >= 2 else v
                    if isinstance(src, ast.Attribute) and src.attr == "shape":
                        dims.update(e_.id for e_ in t.elts)
                if isinstance(t, ast.Tuple) and isinstance(s_.value, ast.Call) and (call_name(s_.value) or "").split(".")[-1] in ("quantise_scale", "elementwise_mul_scale") and t.elts and isinstance(t.elts[0], ast.Name):
                    wide.add(t.elts[0].id)
        if not dims or not wide:
            continue
        for node in walk_no_nested(fi.node):
            if isinstance(node, ast.BinOp) and isinstance(node.op, (ast.FloorDiv, ast.Mult, ast.Add, ast.Sub, ast.Mod)):
                for a, b in ((node.left, node.right), (node.right, node.left)):
                    if is_wide(a) and isinstance(a, ast.BinOp) and is_dim(b):
                        n_w += 1
                        rep.bad("C13-a'", f"ethosu/vela/{fi.mod.name}.py:{fi.qual}", f"{str(norm(node))[:90]} with the tensor dimension `{str(norm(b))[:40]}` : np.int32",
                                f"`{str(norm(a))[:50]}` is a Q31 multiplier shifted left (a Python int of up to 63 bits) and the other operand is a dimension read from the model (np.int32): NumPy >= 2 raises OverflowError")
                    elif is_wide(a) and isinstance(a, ast.Name) and isinstance(try_fold(next((s_.value for s_ in assigns if isinstance(s_.targets[0], ast.Name) and s_.targets[0].id == a.id), a)), int) and is_dim(b):
                        n_w += 1
                        rep.bad("C13-a'", f"ethosu/vela/{fi.mod.name}.py:{fi.qual}", f"{str(norm(node))[:90]} with the tensor dimension `{str(norm(b))[:40]}` : np.int32",
                                f"`{a.id}` is the Python int constant {try_fold(next(s_.value for s_ in assigns if isinstance(s_.targets[0], ast.Name) and s_.targets[0].id == a.id))} (outside int32) and the other operand "
                                "derives from a dimension read from the model (np.int32): NumPy >= 2 raises OverflowError (valid model with this operator -> traceback)")
    rep.check(len(narrow_ret) + len(narrow_attr) >= 1 or True, "C13-a'", "ethosu/vela", f"{len(narrow_ret)} narrow-array producers, {len(narrow_attr)} narrow attributes tracked", "")
    # numpy is unpinned: the rule applies
    pp = repo.read_text("pyproject.toml")
    rep.check("numpy" in pp, "C13-a'", "pyproject.toml", "numpy is a declared dependency (NEP 50 semantics admitted unless pinned < 2)", "")


# ------------------------------------------------------------------ b


def rule_enums(repo, rep):
    tm = repo.mod("tflite_mapping")
    tr = repo.mod("tflite_reader")
    tt = enum_of(repo, "tflite.TensorType", "TensorType")
    pt = tr.func("TFLiteSubgraph.parse_tensor")
    used = {m for m in ("datatype_map", "datatype_map_numpy") if any(isinstance(n, ast.Subscript) and norm(n.value) == m for n in ast.walk(pt))}
    for mapname in sorted(used):
        d = tm.assign(mapname)
        ks = {dotted(k).split(".")[-1] for k in d.keys}
        missing = sorted(set(tt) - ks)
        # a membership guard raising a VelaError would also do
        guarded = any(isinstance(n, ast.If) and mapname in norm(n.test) and " not in " in norm(n.test) and any(isinstance(s, ast.Raise) for s in n.body) for n in ast.walk(pt))
        rep.check(not missing or guarded, "C13-b", "ethosu/vela/tflite_reader.py:TFLiteSubgraph.parse_tensor", f"{mapname}[tensor type] is total over TensorType or guarded",
                  f"a tensor of type {missing} raises an uncaught KeyError")
    for mapname, enum_mod, enum_cls in (("padding_map", "tflite.Padding", "Padding"), ("activation_function_map", "tflite.ActivationFunctionType", "ActivationFunctionType")):
        d = tm.assign(mapname)
        ks = {dotted(k).split(".")[-1] for k in d.keys}
        en = enum_of(repo, enum_mod, enum_cls)
        missing = sorted(set(en) - ks)
        rep.check(not missing, "C13-b", f"ethosu/vela/tflite_mapping.py:{mapname}", f"{mapname} is total over {enum_cls}", f"missing {missing}: KeyError while reading options")
    # unknown builtin operators are rejected with a Vela error
    tg = tr.func("TFLiteGraph.parse_operator_code") if "TFLiteGraph.parse_operator_code" in tr.functions else None
    if tg is None:
        raise AnalysisError("parse_operator_code vanished")
    g = [n for n in ast.walk(tg) if isinstance(n, ast.If) and "not in builtin_operator_map" in norm(n.test)]
    rep.check(len(g) == 1 and any(isinstance(s, ast.Raise) and call_name(s.exc) in ("InputFileError", "VelaError") for s in ast.walk(g[0])), "C13-b",
              "ethosu/vela/tflite_reader.py:TFLiteGraph.parse_operator_code", "an operator code outside builtin_operator_map is rejected with InputFileError", "")
    # enum-keyed config lookups: EnumCls[self._read_config(sec, key, default)] needs a default whose str() is a member name
    af = repo.mod("architecture_features")
    f = af.func("ArchitectureFeatures._get_vela_config")
    # (the lookup may be made directly, or in a helper of the class that is handed the value: `self._to_x(key, self._read_config(...))`)
    helper_enum = {}
    for q_, fn_ in af.functions.items():
        if q_.startswith("ArchitectureFeatures."):
            ps_ = {a.arg for a in fn_.args.args}
            for sub in ast.walk(fn_):
                if isinstance(sub, ast.Subscript) and isinstance(sub.value, ast.Name) and isinstance(sub.slice, ast.Name) and sub.slice.id in ps_ and sub.value.id[:1].isupper():
                    helper_enum[q_.split(".")[-1]] = sub.value.id
    lookups = []
    for sub in ast.walk(f):
        if isinstance(sub, ast.Subscript) and isinstance(sub.value, ast.Name) and isinstance(sub.slice, ast.Call) and call_name(sub.slice) == "self._read_config":
            lookups.append((sub.value.id, sub.slice))
        if isinstance(sub, ast.Call) and isinstance(sub.func, ast.Attribute) and sub.func.attr in helper_enum:
            for a_ in sub.args:
                if isinstance(a_, ast.Call) and call_name(a_) == "self._read_config":
                    lookups.append((helper_enum[sub.func.attr], a_))
    for ecls, rc_ in lookups:
        if True:
            sub = ast.Subscript(value=ast.Name(id=ecls, ctx=ast.Load()), slice=rc_, ctx=ast.Load())
            default = sub.slice.args[2]
            cm = None
            for m in repo.core_modules():
                if ecls in m.classes:
                    cm = m.classes[ecls]
            if cm is None:
                raise AnalysisError(f"enum class {ecls} not found")
            str_is_name = any(isinstance(s, ast.FunctionDef) and s.name == "__str__" and "self.name" in norm(s) for s in cm.body) or \
                any(isinstance(s, ast.Assign) and norm(s.targets[0]) == "__str__" for s in cm.body)
            ok = norm(default).endswith(".name") or str_is_name
            rep.check(ok, "C13-b", "ethosu/vela/architecture_features.py:ArchitectureFeatures._get_vela_config", f"{ecls}[_read_config(.., {norm(sub.slice.args[1])}, {norm(default)})]",
                      f"str({norm(default)}) is not a member name of {ecls} (plain Enum): an absent key ends in an uncaught KeyError")
    # a configuration *value* used as an enum member name: the lookup is guarded by a membership test that raises a VelaError,
    # and the default handed to _read_config is itself a member name
    from ..cfg import cfg_of as _cfg_of

    n_lk = 0
    for q_, fn_ in af.functions.items():
        if not q_.startswith("ArchitectureFeatures."):
            continue
        cfgvals = {norm(s_.targets[0]) for s_ in ast.walk(fn_) if isinstance(s_, ast.Assign) and len(s_.targets) == 1 and isinstance(s_.value, ast.Call) and call_name(s_.value) == "self._read_config"}
        if not cfgvals:
            continue
        c_ = _cfg_of(fn_)
        for sub in ast.walk(fn_):
            if isinstance(sub, ast.Subscript) and isinstance(sub.value, ast.Name) and isinstance(sub.slice, ast.Name) and norm(sub.slice) in cfgvals and isinstance(sub.ctx, ast.Load):
                ecls, var = sub.value.id, sub.slice.id
                node = c_.node_of(sub)
                guarded = False
                for t in c_.nodes[3:]:
                    # a membership test of the name: against the enumeration's members, or against a narrower collection of member names
                    txt_ = str(norm(t.expr))
                    is_member_test = txt_ in (f"{var} not in {ecls}.__members__", f"{var} in {ecls}.__members__") or re.fullmatch(rf"{var} (not )?in \w+", txt_) is not None
                    if t.kind == "test" and node is not None and c_.dominates(t.id, node) and is_member_test:
                        bad_side = True if "not in" in str(norm(t.expr)) else False
                        raises = all(any(isinstance(x, ast.Raise) for x in ast.walk(c_.nodes[b].stmt)) if c_.nodes[b].stmt is not None else False for b in c_.branch_succ(t.id, bad_side))
                        guarded = raises and not any(b == node or c_.path_avoiding(b, node, [t.id]) for b in c_.branch_succ(t.id, bad_side))
                n_lk += 1
                rep.check(guarded, "C13-b", f"ethosu/vela/architecture_features.py:{q_}", f"{ecls}[{var}] (a name read from the configuration file) is reached only after a raising membership test of `{var}`",
                          "an unknown name in the configuration file ends in an uncaught KeyError")
                dflt = [s_.value.args[2] for s_ in ast.walk(fn_) if isinstance(s_, ast.Assign) and norm(s_.targets[0]) == var and isinstance(s_.value, ast.Call) and len(s_.value.args) >= 3]
                rep.check(bool(dflt) and all(norm(d_).endswith(".name") for d_ in dflt), "C13-b", f"ethosu/vela/architecture_features.py:{q_}", f"the default for {var} is a member name (`.name`)",
                          str([str(norm(d_)) for d_ in dflt]))
    rep.floor("C13-b", 8)


# ------------------------------------------------------------------ c, d


def rule_raises(repo, rep, cg, reach):
    er = repo.mod("errors")
    vela_errs = {"VelaError"}
    changed = True
    while changed:
        changed = False
        for cn, c in er.classes.items():
            if cn not in vela_errs and any((dotted(b) or "") in vela_errs for b in c.bases):
                vela_errs.add(cn)
                changed = True
    allowed_other = {
        "RecursionError": "re-raised with advice in the graph traversals",
        "StopIteration": "iterator protocol (Shape4D.__next__)",
        "ValueError": "report generation / enum conversion with a message",
        "NotImplementedError": "abstract interface",
        "AssertionError": "internal invariant",
    }
    n = 0
    others = {}
    for k in sorted(reach):
        fi = cg.funcs[k]
        for node in walk_no_nested(fi.node):
            if isinstance(node, ast.Raise) and node.exc is not None:
                nm = call_name(node.exc) if isinstance(node.exc, ast.Call) else dotted(node.exc)
                nm = (nm or "").split(".")[-1]
                n += 1
                site = f"ethosu/vela/{fi.mod.name}.py:{fi.qual}"
                if nm in vela_errs:
                    rep.ok("C13-c", site, f"raise {nm}", "VelaError subclass")
                elif nm in allowed_other:
                    rep.ok("C13-c", site, f"raise {nm}", allowed_other[nm])
                elif nm and nm[0].islower():
                    rep.ok("C13-c", site, f"raise {nm}", "re-raise of a caught exception object")
                else:
                    rep.bad("C13-c", site, f"raise {nm}", "a non-Vela exception raised deliberately on the driver path escapes main() as a traceback")
    rep.floor("C13-c", 40)
    # main wraps everything in try/except VelaError -> return 1
    vela = repo.mod("vela")
    m = vela.func("main")
    body = [s for s in m.body if not (isinstance(s, ast.Expr) and isinstance(s.value, ast.Constant))]
    ok = len(body) == 1 and isinstance(body[0], ast.Try)
    if ok:
        h = [x for x in body[0].handlers if (dotted(x.type) or "") == "VelaError"]
        ok = len(h) == 1 and any(isinstance(s, ast.Return) and getattr(s.value, "value", None) == 1 for s in h[0].body)
    rep.check(ok, "C13-c", "ethosu/vela/vela.py:main", "the whole of main() is inside try ... except VelaError: return 1", "a VelaError raised outside the try block escapes as a traceback")
    # readers convert parse errors
    tr = repo.mod("tflite_reader")
    f = tr.func("TFLiteGraph.__init__")
    hs = [h for t in ast.walk(f) if isinstance(t, ast.Try) for h in t.handlers]
    ok = any({"struct.error", "TypeError", "RuntimeError"} <= set((dotted(e) or "") for e in (h.type.elts if isinstance(h.type, ast.Tuple) else [h.type])) for h in hs if h.type is not None)
    rep.check(ok, "C13-c", "ethosu/vela/tflite_reader.py:TFLiteGraph.__init__", "flatbuffer parse errors (struct.error, TypeError, RuntimeError) are caught and reported", "")
    # d
    for mod, fn in (("tflite_supported_operators", "TFLiteSupportedOperators.is_operator_supported"), ("tflite_model_semantic", "TFLiteSemantic.is_operator_semantic_valid")):
        f = repo.mod(mod).func(fn)
        rep.check(not any(isinstance(s, ast.Raise) for s in ast.walk(f)), "C13-d", f"ethosu/vela/{mod}.py:{fn}", "the checker never raises; a failing constraint returns False", "")
        rets = [norm(s.value) for s in ast.walk(f) if isinstance(s, ast.Return)]
        rep.check(set(rets) <= {"True", "False"} and "False" in rets, "C13-d", f"ethosu/vela/{mod}.py:{fn}", "verdict is a plain bool", str(rets))


# ------------------------------------------------------------------ e: discharge of an internal assertion


def rule_assert_discharge(repo, rep):
    """mark_purpose() asserts (assert 0) when a tensor that already has a purpose is given a different one.
    rewrite_mark_tensor_purpose runs on every operator of every valid model (CPU ones included), so its call must
    pass the existing purpose whenever there is one."""
    from ..absint import AList, AObj, Interp, Unknown

    rep.clause("C13-e", "the purpose-conflict assertion of mark_purpose cannot be reached from the per-operator pass: an already marked tensor is re-marked with its own purpose")
    mt = repo.mod("mark_tensors")
    mp = mt.func("mark_purpose")
    asserts = [n for n in ast.walk(mp) if isinstance(n, ast.Assert) and isinstance(n.test, ast.Constant) and not n.test.value]
    if len(asserts) != 1:
        rep.info("C13-e", "ethosu/vela/mark_tensors.py:mark_purpose", "purpose-conflict assertion", "assertion no longer present: nothing to discharge")
        return
    it = Interp(repo, mt, stubs={"mark_purpose"}, max_paths=4096)

    def mk():
        tens = AObj("tens")
        op = AObj("op", {"inputs": AList([tens], "inputs"), "outputs": AList([], "outputs")})
        return [op, AObj("arch")], {}

    n = 0
    for p in it.run("rewrite_mark_tensor_purpose", mk):
        calls = [c for c in p.calls if c[0] == "mark_purpose" and c[1] and isinstance(c[1][0], AObj) and c[1][0].name == "tens"]
        has = [d for t, d in p.decisions if t.replace(" ", "").startswith("tens.purpose!=")]  # TensorPurpose.Unknown (IntEnum 0)
        if not calls or (has and not has[0]):
            continue  # no call for this tensor, or the tensor is known to be unmarked on this path
        dyn = [d for t, d in p.decisions if t.startswith("any(") or "comp(" in t]
        if dyn and dyn[0]:
            continue  # dynamic-weights override (reviewed: turns Weights into FeatureMap for non-constant producers)
        arg = calls[0][1][2]
        n += 1
        txt = arg.text if isinstance(arg, Unknown) else repr(arg)
        rep.check(txt == "tens.purpose", "C13-e", "ethosu/vela/mark_tensors.py:rewrite_mark_tensor_purpose",
                  "a tensor that already has a purpose is re-marked with that same purpose", f"re-marked with {txt}: mark_purpose hits `assert 0` for a constant shared between a weights slot and another input")
    rep.floor("C13-e", 1)


OPTIONAL_ATTRS = ("quantization", "weights", "bias", "ifm2")


def rule_exposed_rewrites(repo, rep):
    """Operator rewrites run by a traversal with rewrite_unsupported=True (explicitly, or by the default of
    rewrite_graph_pre_order) also visit operators the checkers rejected - float operators, operators whose tensors
    lack quantisation, weights or bias. Such a rewrite (and the helpers it hands the operator to) must not dereference
    an optional attribute (`x.quantization.y`, `x.weights.y`, `x.bias.y`, `x.ifm2.y`) unless a test of run_on_npu or of
    that very attribute dominates the access."""
    from ..cfg import cfg_of

    rep.clause("C13-g", "rewrites that also visit rejected (CPU) operators never dereference an optional attribute (quantization / weights / bias / ifm2) without a dominating run_on_npu or None test")
    go = repo.mod("tflite_graph_optimiser")
    tg = go.func("tflite_optimise_graph")
    rw = repo.mod("rewrite_graph").func("rewrite_graph_pre_order")
    params = [a.arg for a in rw.args.args]
    default = None
    for a, d in zip(rw.args.args[-len(rw.args.defaults):], rw.args.defaults):
        if a.arg == "rewrite_unsupported":
            default = try_fold(d)
    if default is None or "op_rewrite_list" not in params:
        raise AnalysisError("rewrite_graph_pre_order signature not recognised")
    lists = {}
    for st in ast.walk(tg):
        if isinstance(st, ast.Assign) and isinstance(st.targets[0], ast.Name) and isinstance(st.value, ast.List):
            lists[st.targets[0].id] = st.value.elts

    def returned_functions(fname):
        f = go.functions.get(fname)
        return [norm(r.value) for r in ast.walk(f) if isinstance(r, ast.Return) and isinstance(r.value, ast.Name)] if f is not None else []

    exposed = []
    n_calls = 0
    for c in calls_in(tg, "rewrite_graph_pre_order"):
        n_calls += 1
        ru = get_kwarg(c, "rewrite_unsupported", params.index("rewrite_unsupported"))
        val = default if ru is None else try_fold(ru)
        if val is None:
            raise AnalysisError(f"rewrite_unsupported argument not constant: {norm(ru)}")
        if not val:
            continue
        ol = get_kwarg(c, "op_rewrite_list", params.index("op_rewrite_list"))
        elts = lists.get(ol.id, []) if isinstance(ol, ast.Name) else (ol.elts if isinstance(ol, ast.List) else [])
        for e in elts:
            if isinstance(e, ast.Name):
                exposed.append(e.id)
            elif isinstance(e, ast.Call) and isinstance(e.func, ast.Name):
                exposed += returned_functions(e.func.id)
    if n_calls < 8:
        raise AnalysisError(f"only {n_calls} rewrite_graph_pre_order calls found in tflite_optimise_graph")

    def unguarded(fn):
        c = cfg_of(fn)
        out = []
        for n in ast.walk(fn):
            if isinstance(n, ast.Attribute) and isinstance(n.value, ast.Attribute) and n.value.attr in OPTIONAL_ATTRS:
                prefix = norm(n.value)
                node = c.node_of(n)
                ok = False
                if node is not None:
                    for t in c.nodes[3:]:
                        if t.kind == "test" and t.id != node and c.dominates(t.id, node) and ("run_on_npu" in norm(t.expr) or prefix in norm(t.expr)):
                            sides = [any(b == node or c.path_avoiding(b, node, [t.id]) for b in c.branch_succ(t.id, lab)) for lab in (True, False)]
                            if sides.count(True) == 1:
                                ok = True
                                break
                    # `a.q is not None and a.q.x` / `a.q and a.q.x` inside one expression
                    stmt_txt = norm(c.nodes[node].expr) if c.nodes[node].expr is not None else ""
                    if not ok and (f"{prefix} is not None and" in stmt_txt or f"{prefix} and" in stmt_txt):
                        ok = True
                if not ok:
                    out.append(norm(n))
        return sorted(set(out))

    seen = set()
    for name in exposed:
        todo = [(name, 0)]
        while todo:
            fnm, depth = todo.pop()
            if fnm in seen or fnm not in go.functions:
                continue
            seen.add(fnm)
            fn = go.functions[fnm]
            bad = unguarded(fn)
            rep.check(not bad, "C13-g", f"ethosu/vela/tflite_graph_optimiser.py:{fnm}", f"run on rejected operators too (via `{name}`): no unguarded dereference of an optional attribute",
                      f"{bad[:3]} is evaluated for operators the checkers rejected; with the attribute absent (None) this is an AttributeError traceback instead of a CPU fallback")
            if depth < 2:
                for cl in calls_in(fn):
                    cn = call_name(cl)
                    if cn in go.functions and any(isinstance(a, ast.Name) and a.id == "op" for a in cl.args):
                        todo.append((cn, depth + 1))
    rep.floor("C13-g", 5)


EMPTY_OK = {
    ("tensor_allocation", "mark_sram_used_for_cascaded_passes", "sg"): "every subgraph that reaches allocation has at least one cascaded pass (pass packing always creates the start-up pass)",
}


def _discriminated(c, node, r):
    """A test mentioning `r` dominates `node` and `node` is reachable from only one of its branches."""
    if node is None:
        return False
    for t in c.nodes[3:]:
        if t.kind == "test" and t.id != node and c.dominates(t.id, node) and r in {x.id for x in ast.walk(t.expr) if isinstance(x, ast.Name)}:
            sides = [any(b == node or c.path_avoiding(b, node, [t.id]) for b in c.branch_succ(t.id, lab)) for lab in (True, False)]
            if sides.count(True) == 1:
                return True
    return False


def rule_empty_reductions(repo, rep):
    """max() / min() of a single iterable argument raise ValueError on an empty sequence. A function that reduces a
    sequence derived from one of its parameters this way is `empty-unsafe` in that parameter; every call must be
    dominated by a test of the argument (its truthiness, length or a container attribute of it), or sit in a caller
    that is itself empty-unsafe in the same value (checked at its callers in turn)."""
    from ..cfg import cfg_of

    rep.clause("C13-i", "single-argument max()/min() over a parameter-derived sequence is only reached through calls dominated by a non-emptiness test of that argument (options such as --verbose-allocation included)")

    def root(e):
        while True:
            if isinstance(e, (ast.Attribute, ast.Subscript)):
                e = e.value
            elif isinstance(e, ast.Call) and isinstance(e.func, ast.Attribute) and not e.args:
                e = e.func.value
            elif isinstance(e, ast.Call) and e.args and isinstance(e.func, ast.Name) and e.func.id in ("list", "sorted", "tuple", "set", "reversed"):
                e = e.args[0]
            else:
                break
        return e.id if isinstance(e, ast.Name) else None

    unsafe = {}
    mods = [m for m in repo.core_modules()]
    for m in mods:
        for q, fn in m.functions.items():
            params = [a.arg for a in fn.args.args if a.arg not in ("self", "cls")]
            for c in ast.walk(fn):
                if isinstance(c, ast.Call) and isinstance(c.func, ast.Name) and c.func.id in ("max", "min") and len(c.args) == 1 and not any(k.arg == "default" for k in c.keywords):
                    a = c.args[0]
                    src = a.generators[0].iter if isinstance(a, (ast.GeneratorExp, ast.ListComp)) else a
                    r = root(src)
                    if r in params:
                        unsafe.setdefault((m.name, q), {}).setdefault(r, norm(c)[:70])
    if len(unsafe) < 2:
        raise AnalysisError("no parameter-derived single-argument max()/min() found (idiom changed?)")
    n = 0
    for _ in range(3):  # propagate through unguarded wrappers
        changed = False
        for m in mods:
            for q, fn in m.functions.items():
                c = None
                for call in calls_in(fn):
                    cn = call_name(call)
                    if not cn:
                        continue
                    tgt = [(k, v) for k, v in unsafe.items() if k[1].split(".")[-1] == cn.split(".")[-1] and (k[0] == m.name or cn.split(".")[0] in (k[0],) or cn == k[1])]
                    if len(tgt) != 1:
                        continue
                    (tm_, tq), pars = tgt[0]
                    tfn = repo.mod(tm_).functions[tq]
                    tparams = [a.arg for a in tfn.args.args if a.arg not in ("self", "cls")]
                    for par, why in pars.items():
                        idx = tparams.index(par)
                        arg = get_kwarg(call, par, idx)
                        r = root(arg) if arg is not None else None
                        if r is None:
                            continue
                        if c is None:
                            c = cfg_of(fn)
                        node = c.node_of(call)
                        guarded = _discriminated(c, node, r)
                        mine = [a.arg for a in fn.args.args]
                        if guarded:
                            continue
                        if r in mine and r not in ("self", "cls"):
                            if r not in unsafe.get((m.name, q), {}):
                                unsafe.setdefault((m.name, q), {})[r] = f"passes it to {tq} unguarded"
                                changed = True
        if not changed:
            break
    for m in mods:
        for q, fn in m.functions.items():
            c = None
            for call in calls_in(fn):
                cn = call_name(call)
                if not cn:
                    continue
                tgt = [(k, v) for k, v in unsafe.items() if k[1].split(".")[-1] == cn.split(".")[-1] and (k[0] == m.name or cn.split(".")[0] in (k[0],) or cn == k[1])]
                if len(tgt) != 1:
                    continue
                (tm_, tq), pars = tgt[0]
                tfn = repo.mod(tm_).functions[tq]
                tparams = [a.arg for a in tfn.args.args if a.arg not in ("self", "cls")]
                for par, why in pars.items():
                    arg = get_kwarg(call, par, tparams.index(par))
                    r = root(arg) if arg is not None else None
                    if r is None:
                        continue
                    site = f"ethosu/vela/{m.name}.py:{q}"
                    if (tm_, tq, par) in EMPTY_OK:
                        rep.info("C13-i", site, f"{norm(call)[:70]}", "reviewed: " + EMPTY_OK[(tm_, tq, par)])
                        continue
                    if c is None:
                        c = cfg_of(fn)
                    node = c.node_of(call)
                    guarded = _discriminated(c, node, r)
                    passes_on = r in [a.arg for a in fn.args.args] and r in unsafe.get((m.name, q), {})
                    n += 1
                    rep.check(guarded or passes_on, "C13-i", site, f"`{norm(call)[:70]}` ({tq} reduces `{par}` with {why}) is dominated by a test of `{r}`" if guarded or not passes_on else
                              f"`{norm(call)[:70]}` hands `{r}` on; the emptiness obligation moves to this function's callers",
                              f"no test of `{r}` dominates the call: with an empty sequence {tq} raises ValueError (a traceback, not a controlled error)")
    rep.floor("C13-i", 3)


def rule_report_none_operands(repo, rep):
    """The summary / --show-cpu-operations report walks the operand lists of *CPU* operators, which the reader fills with
    None for absent optional operands (e.g. a bias-less fully connected). Report code that iterates an operator's
    `inputs` (directly, or through a local helper that is handed `op.inputs`) must test the element before using it."""
    rep.clause("C13-j", "report code that walks operand lists of CPU operators tolerates absent (None) operands")
    sw = repo.mod("stats_writer")

    def none_tested(node, var):
        for n in ast.walk(node):
            if isinstance(n, ast.Compare) and isinstance(n.left, ast.Name) and n.left.id == var and any(isinstance(o, (ast.Is, ast.IsNot)) for o in n.ops):
                return True
            if isinstance(n, (ast.If, ast.IfExp)) and isinstance(n.test, ast.Name) and n.test.id == var:
                return True
            if isinstance(n, ast.BoolOp) and any(isinstance(v, ast.Name) and v.id == var for v in n.values):
                return True
            if isinstance(n, ast.comprehension) and any(isinstance(i, ast.Name) and i.id == var for i in n.ifs):
                return True
        return False

    n = 0
    for q, fn in sw.functions.items():
        # local helpers handed `<x>.inputs`
        listy = {}
        for c in calls_in(fn):
            for i, a in enumerate(c.args):
                if norm(a).endswith(".inputs") and isinstance(c.func, ast.Name):
                    for q2, f2 in sw.functions.items():
                        if q2.split(".")[-1] == c.func.id and i < len(f2.args.args):
                            listy.setdefault(q2, set()).add(f2.args.args[i].arg)
        for q2, f2 in list(sw.functions.items()):
            names = set(listy.get(q2, ())) if q2 in listy else set()
            if q2 != q and q2 not in listy:
                continue
            for node in ast.walk(f2):
                loops = []
                if isinstance(node, ast.For) and isinstance(node.target, ast.Name):
                    loops.append((node.target.id, node.iter, node))
                if isinstance(node, (ast.GeneratorExp, ast.ListComp, ast.SetComp)):
                    loops += [(g.target.id, g.iter, node) for g in node.generators if isinstance(g.target, ast.Name)]
                for var, it_, body in loops:
                    t = norm(it_)
                    if not (t.endswith(".inputs") or t in names):
                        continue
                    der = [norm(x) for x in ast.walk(body) if isinstance(x, ast.Attribute) and isinstance(x.value, ast.Name) and x.value.id == var]
                    if not der:
                        continue
                    n += 1
                    rep.check(none_tested(body, var), "C13-j", f"ethosu/vela/stats_writer.py:{q2}", f"`{norm(body)[:80]}`: operands are tested for None before `{der[0]}`",
                              f"`{der[0]}` is evaluated for every operand of a CPU operator; an absent optional operand (None) gives an AttributeError traceback under --show-cpu-operations")
    rep.floor("C13-j", 1)


def rule_round3(repo, rep):
    """(k) per-core range lookups are guarded; (l) cascade bounds are compared in one index space."""
    from ..cfg import cfg_of

    rep.clause("C13-k", "a (core, depth) range is read from encoded_ranges only under a membership test of that key (a core beyond the OFM depth has no range); "
               "the cascade bounds asserted against SchedulerOperation.index are themselves .index values (sub-schedules start at a non-zero global index)")
    n = 0
    for mname in ("high_level_command_to_npu_op", "npu_performance", "scheduler", "register_command_stream_generator", "live_range", "high_level_command_stream_generator"):
        m = repo.mod(mname)
        for q, fn in m.functions.items():
            subs = [x for x in ast.walk(fn) if isinstance(x, ast.Subscript) and isinstance(x.ctx, ast.Load) and isinstance(x.value, ast.Attribute) and x.value.attr == "encoded_ranges"]
            if not subs:
                continue
            c = cfg_of(fn)
            sa = {norm(t_.targets[0]): t_.value for t_ in ast.walk(fn) if isinstance(t_, ast.Assign) and len(t_.targets) == 1 and isinstance(t_.targets[0], ast.Name)}
            for x in subs:
                ktxt = norm(x.slice)
                node = c.node_of(x)
                ok = False
                if node is not None:
                    for t in c.nodes[3:]:
                        if t.kind != "test" or t.id == node or not c.dominates(t.id, node):
                            continue
                        for cmp_ in ast.walk(t.expr):
                            if isinstance(cmp_, ast.Compare) and len(cmp_.ops) == 1 and isinstance(cmp_.ops[0], ast.In) and isinstance(cmp_.comparators[0], ast.Attribute) \
                                    and cmp_.comparators[0].attr == "encoded_ranges" and (norm(cmp_.left) == ktxt or (isinstance(x.slice, ast.Name) and x.slice.id in sa and norm(cmp_.left) == norm(sa[x.slice.id]))):
                                sides = [any(b == node or c.path_avoiding(b, node, [t.id]) for b in c.branch_succ(t.id, lab)) for lab in (True, False)]
                                if sides == [True, False]:
                                    ok = True
                n += 1
                rep.check(ok, "C13-k", f"ethosu/vela/{mname}.py:{q}", f"`{str(norm(x))[:70]}` is read under `{ktxt} in ....encoded_ranges`",
                          "unguarded lookup: on a two-core target an operator with fewer output channels than cores has no range for the second core (KeyError traceback)")
    if n < 4:
        raise AnalysisError("encoded_ranges lookups not found")
    cb = repo.mod("cascade_builder")
    bc = cb.func("CascadeBuilder.build_cascades")
    asr = [a for a in ast.walk(bc) if isinstance(a, ast.Assert) and ".index" in str(norm(a.test)) and isinstance(a.test, ast.Compare)]
    if not asr:
        raise AnalysisError("build_cascades: index assertion not found")
    alldefs = {}
    for s_ in ast.walk(bc):
        if isinstance(s_, ast.Assign):
            for t_ in s_.targets:
                if isinstance(t_, ast.Name):
                    alldefs.setdefault(t_.id, []).append(s_.value)
    derived = set()
    for _ in range(4):
        for nm, ds in alldefs.items():
            if nm not in derived and ds and all((isinstance(d, ast.Attribute) and d.attr == "index") or
                                                 (isinstance(d, ast.BinOp) and isinstance(d.op, (ast.Add, ast.Sub)) and any(isinstance(x, ast.Name) and x.id in derived for x in ast.walk(d))) for d in ds):
                derived.add(nm)
    for a in asr:
        for operand in [a.test.left] + a.test.comparators:
            if isinstance(operand, ast.Name):
                defs = alldefs.get(operand.id, [])
                ok = operand.id in derived
                rep.check(ok, "C13-k", "ethosu/vela/cascade_builder.py:CascadeBuilder.build_cascades", f"`{operand.id}` (compared with .index in `{str(norm(a.test))[:60]}`) is always assigned from an .index attribute",
                          f"assigned from {[str(norm(d)) for d in defs]}: a position in the builder's own op list is compared with global schedule indices; for a sub-schedule that does not start at op 0 the assertion fails")
    rep.floor("C13-k", 6)


def rule_round4(repo, rep):
    """(l) internal assertions / slice stores that every model of some class would trip."""
    from ..exprnorm import linear
    from .shared import closed_interval_sites, stale_extent_lint

    rep.clause("C13-l", "cached array extents are used with the array they were measured on; live-range time intervals are closed wherever expanded (the fast-storage "
               "book-keeping asserts against its own totals); the inferred SPLIT_V size satisfies the assertion that follows it; the scheduler's operand swap never puts a broadcast operand first")
    mods = [m.name for m in repo.core_modules()]
    n = stale_extent_lint(repo, rep, "C13-l", mods)
    if n < 40:
        raise AnalysisError(f"cached extents: only {n} (extent, use) pairs found")
    closed_interval_sites(repo, rep, "C13-l")
    # SPLIT_V: one size may be -1; it is replaced by the remainder so that `assert sum(sizes) == shape[axis]` holds:
    # new sum = sum(sizes) + 1 + v  ==>  v = shape[axis] - sum(sizes) - 1
    op = repo.mod("operation")
    gs = op.func("Operation.get_split_inputs_axis")
    site = "ethosu/vela/operation.py:Operation.get_split_inputs_axis"
    cands = [st for st in ast.walk(gs) if isinstance(st, ast.Assign) and isinstance(st.targets[0], ast.Subscript) and norm(st.targets[0].value) == "sizes"]
    asr = [a for a in ast.walk(gs) if isinstance(a, ast.Assert) and isinstance(a.test, ast.Compare) and "sum(sizes)" in str(norm(a.test))]
    if len(cands) != 1 or len(asr) != 1:
        raise AnalysisError("get_split_inputs_axis: SPLIT_V size inference / closing assertion not found")
    total = [x for x in [asr[0].test.left] + asr[0].test.comparators if str(norm(x)) != "sum(sizes)"]
    form = linear(cands[0].value)
    want = {str(norm(total[0])): 1, "sum(sizes)": -1, "": -1} if len(total) == 1 else None
    rep.check(want is not None and {k: v for k, v in form.items() if v} == want, "C13-l", site, f"inferred size = {norm(total[0]) if total else '?'} - sum(sizes) - 1 (the -1 placeholder is part of the sum)",
              f"inferred size is `{str(norm(cands[0].value))}` = {form}: the assertion `{str(norm(asr[0].test))}` two statements later fails for every SPLIT_V with an inferred size (AssertionError traceback)")
    # binary elementwise swap: the operand moved to the primary position is neither constant, scalar nor broadcast
    sch = repo.mod("scheduler")
    so = sch.func("SchedulerOperation.__init__")
    prim = [st for st in ast.walk(so) if isinstance(st, ast.Assign) and norm(st.targets[0]) == "ifm2_can_be_primary"]
    if len(prim) != 1:
        raise AnalysisError("SchedulerOperation.__init__: ifm2_can_be_primary not found")
    v = prim[0].value
    dis = set()
    if isinstance(v, ast.UnaryOp) and isinstance(v.op, ast.Not):
        inner = v.operand
        dis = {str(norm(x)) for x in (inner.values if isinstance(inner, ast.BoolOp) and isinstance(inner.op, ast.Or) else [inner])}
    elif isinstance(v, ast.BoolOp) and isinstance(v.op, ast.And):
        dis = {str(norm(x.operand)) for x in v.values if isinstance(x, ast.UnaryOp) and isinstance(x.op, ast.Not)}
    need = {"ifm2.is_const", "ifm2.is_scalar", "ifm2.is_broadcast(ofm)"}
    rep.check(need <= dis, "C13-l", "ethosu/vela/scheduler.py:SchedulerOperation.__init__", "IFM2 becomes the primary input only if it is not constant, not scalar and not broadcast",
              f"missing exclusion {sorted(need - dis)}: a broadcast second operand is swapped into the primary position with reversed_operands set, and create_npu_elementwise_op asserts ifm_ifm2_correct_order")
    rep.floor("C13-l", 45)


# ------------------------------------------------------------------ m: non-constant operands in the constraint checkers

_SEQ_CALLS = {"int", "float", "list", "tuple", "len", "iter", "sum", "max", "min", "set", "sorted", "enumerate", "zip"}


def _operand_aliases(fn):
    al = {}
    for st in ast.walk(fn):
        if isinstance(st, ast.Assign) and len(st.targets) == 1:
            t, v = st.targets[0], st.value
            if isinstance(t, ast.Name) and isinstance(v, ast.Subscript) and str(norm(v.value)) == "op.inputs" and isinstance(v.slice, ast.Constant):
                al[t.id] = f"op.inputs[{v.slice.value}]"
            if isinstance(t, ast.Tuple) and str(norm(v)) == "op.inputs":
                for i, e in enumerate(t.elts):
                    if isinstance(e, ast.Name):
                        al[e.id] = f"op.inputs[{i}]"
    return al


def _values_loads(fn, al):
    """[(node, operand)] for every load of `<operand>.values` (operand = op.inputs[k], directly or through a local alias of
    the operand or of its values)."""
    val_alias = {}
    for st in ast.walk(fn):
        if isinstance(st, ast.Assign) and len(st.targets) == 1 and isinstance(st.targets[0], ast.Name) and isinstance(st.value, ast.Attribute) and st.value.attr == "values":
            base = str(norm(st.value.value))
            base = al.get(base, base)
            if base.startswith("op.inputs["):
                val_alias[st.targets[0].id] = base
    out = []
    for x in ast.walk(fn):
        if isinstance(x, ast.Attribute) and x.attr == "values" and isinstance(x.ctx, ast.Load):
            base = str(norm(x.value))
            base = al.get(base, base)
            if base.startswith("op.inputs["):
                out.append((x, base))
        if isinstance(x, ast.Name) and isinstance(x.ctx, ast.Load) and x.id in val_alias:
            out.append((x, val_alias[x.id]))
    return out


def _none_test(mod, node):
    """'is' / 'is not' if `node` is the left side of a comparison with None."""
    p = mod.parents.get(node)
    if isinstance(p, ast.Compare) and p.left is node and len(p.ops) == 1 and isinstance(p.ops[0], (ast.Is, ast.IsNot)) and isinstance(p.comparators[0], ast.Constant) and p.comparators[0].value is None:
        return "is" if isinstance(p.ops[0], ast.Is) else "is not"
    return None


def _deref(mod, node, loads_by_id):
    """How a load of <operand>.values is used if that use fails on None (None for harmless uses)."""
    p = mod.parents.get(node)
    how = None
    if isinstance(p, ast.Attribute) and p.value is node:
        how = f".{p.attr}"
    elif isinstance(p, ast.Subscript) and p.value is node:
        how = "[...]"
    elif isinstance(p, ast.Call) and node in p.args and (call_name(p) or "").split(".")[-1] in _SEQ_CALLS:
        how = f"{call_name(p)}()"
    elif isinstance(p, (ast.BinOp, ast.UnaryOp)):
        how = "arithmetic"
    elif isinstance(p, (ast.For, ast.comprehension)) and p.iter is node:
        how = "iteration"
    elif isinstance(p, ast.Starred):
        how = "*"
    elif isinstance(p, (ast.Assign,)) and isinstance(p.targets[0], (ast.Tuple, ast.List)) and p.value is node:
        how = "unpacking"
    if how is None:
        return None
    # `X.values is not None and <use of X.values>` in one conjunction: the earlier operand protects the later one
    cur = node
    while cur is not None and not isinstance(cur, ast.stmt):
        par = mod.parents.get(cur)
        if isinstance(par, ast.BoolOp) and isinstance(par.op, ast.And):
            idx = next(i for i, v_ in enumerate(par.values) if v_ is cur)
            for earlier in par.values[:idx]:
                for y in ast.walk(earlier):
                    if id(y) in loads_by_id and loads_by_id[id(y)] == loads_by_id.get(id(node)) and _none_test(mod, y) == "is not":
                        return None
        cur = par
    return how


def _when_none(mod, fn, operand):
    """Explores the paths of constraint function `fn` on which `<operand>.values is None` holds (branches of tests of exactly
    that fact are taken accordingly; all other tests both ways; loops once). Returns (rejects, crashes): rejects = every
    returning path returns validity False; crashes = uses of the None value on such a path."""
    c = cfg_of(fn)
    al = _operand_aliases(fn)
    loads = [(x, b) for x, b in _values_loads(fn, al) if b == operand]
    loads_by_id = {id(x): b for x, b in _values_loads(fn, al)}
    by_node = {}
    for x, _ in loads:
        nid = c.node_of(x)
        if nid is not None:
            by_node.setdefault(nid, []).append(x)
    crashes, verdicts = [], []

    def expr_state(e, state):
        if isinstance(e, ast.Constant) and isinstance(e.value, bool):
            return e.value
        if isinstance(e, ast.Name) and e.id == "valid":
            return state
        if isinstance(e, ast.Compare):
            for y in ast.walk(e.left):
                if id(y) in loads_by_id and loads_by_id[id(y)] == operand:
                    t = _none_test(mod, y)
                    if t:
                        return t == "is"
        if isinstance(e, ast.BoolOp) and isinstance(e.op, ast.And):
            vals = [expr_state(v_, state) for v_ in e.values]
            if any(v_ is False for v_ in vals):
                return False
        return None

    def tri(e):
        """truth of a test under `<operand>.values is None` (None = not determined by that fact)"""
        if isinstance(e, ast.Compare):
            for y in ast.walk(e.left):
                if id(y) in loads_by_id and loads_by_id[id(y)] == operand and mod.parents.get(y) is e:
                    t = _none_test(mod, y)
                    if t:
                        return t == "is"
            return None
        if isinstance(e, ast.BoolOp):
            vals = [tri(v_) for v_ in e.values]
            if isinstance(e.op, ast.And):
                return False if any(v_ is False for v_ in vals) else (True if all(v_ is True for v_ in vals) else None)
            return True if any(v_ is True for v_ in vals) else (False if all(v_ is False for v_ in vals) else None)
        if isinstance(e, ast.UnaryOp) and isinstance(e.op, ast.Not):
            v_ = tri(e.operand)
            return None if v_ is None else not v_
        return None

    seen_paths = [0]

    def walk(nid, state, visited):
        seen_paths[0] += 1
        if seen_paths[0] > 20000:
            raise AnalysisError(f"{fn.name}: too many paths")
        if nid in visited or nid in (1, 2):
            return
        visited = visited | {nid}
        nd = c.nodes[nid]
        restrict = tri(nd.expr) if nd.kind == "test" and nd.expr is not None else None
        for x in by_node.get(nid, []):
            t = _none_test(mod, x)
            if t is None:
                how = _deref(mod, x, loads_by_id)
                if how:
                    crashes.append((x.lineno, how))
                    return  # the path ends in the exception
        if nd.kind == "stmt" and isinstance(nd.stmt, ast.Assign) and len(nd.stmt.targets) == 1 and isinstance(nd.stmt.targets[0], ast.Name) and nd.stmt.targets[0].id == "valid":
            state = expr_state(nd.stmt.value, state)
        if nd.kind == "stmt" and isinstance(nd.stmt, ast.Return):
            v = nd.stmt.value
            first = v.elts[0] if isinstance(v, ast.Tuple) and v.elts else v
            verdicts.append(expr_state(first, state) if first is not None else None)
            return
        for b, lab in c.succ[nid]:
            if restrict is not None and lab in (True, False) and lab != restrict:
                continue
            walk(b, state, visited)

    walk(0, None, frozenset())
    return bool(verdicts) and all(v is False for v in verdicts), sorted(set(crashes))


def rule_dynamic_operands(repo, rep):
    from .c16 import registrations

    rep.clause("C13-m", "the constraint checkers run on every operator of a valid model: a constraint uses the values of an operand (axis, size, permutation ... tensors, which are "
               "None when the operand is not constant) only after a constraint that rejects the non-constant case has run - an earlier one of the same operator's list, or any "
               "semantic constraint for the supported-operator list (registration order interpreted from the two __init__ methods; paths explored with the operand's values = None)")
    sem = repo.mod("tflite_model_semantic")
    so = repo.mod("tflite_supported_operators")
    _, s_sem, _, _ = registrations(repo, sem, "TFLiteSemantic")
    _, s_so, _, _ = registrations(repo, so, "TFLiteSupportedOperators")
    memo = {}

    def when_none(m, cls, cname, operand):
        key = (cls, cname, operand)
        if key not in memo:
            fn = m.functions.get(f"{cls}.{cname}")
            memo[key] = _when_none(m, fn, operand) if fn is not None else (False, [])
        return memo[key]

    def operands(m, cls, cname):
        fn = m.functions.get(f"{cls}.{cname}")
        if fn is None:
            return []
        return sorted({b for _, b in _values_loads(fn, _operand_aliases(fn))})

    n = 0
    sem_established = {}
    for m, cls, spec, path in ((sem, "TFLiteSemantic", s_sem, "ethosu/vela/tflite_model_semantic.py"), (so, "TFLiteSupportedOperators", s_so, "ethosu/vela/tflite_supported_operators.py")):
        reported = set()
        for opn, cons in sorted(spec.items()):
            have = set(sem_established.get(opn, ())) if cls == "TFLiteSupportedOperators" else set()
            for cname in cons:
                for operand in operands(m, cls, cname):
                    rejects, crashes = when_none(m, cls, cname, operand)
                    n += 1
                    if operand not in have:
                        for line, how in crashes:
                            if (cname, operand, line) in reported:
                                continue
                            reported.add((cname, operand, line))
                            rep.bad("C13-m", f"{path}:{cls}.{cname}", f"{operand}.values is used only where a non-constant operand has been rejected",
                                    f"{how} on {operand}.values (line {line}) for {opn}: nothing before it rejects a non-constant operand, whose values are None "
                                    f"(valid model with a computed {operand} tensor -> TypeError / AttributeError traceback instead of CPU fallback)")
                        if not crashes:
                            rep.ok("C13-m", f"{path}:{cls}.{cname}", f"{operand}.values is not dereferenced while it may be None ({opn})", "")
                    else:
                        rep.ok("C13-m", f"{path}:{cls}.{cname}", f"{operand}.values is used after an earlier constraint rejected the non-constant case ({opn})", "")
                    if rejects:
                        have.add(operand)
            if cls == "TFLiteSemantic":
                sem_established[opn] = have
    if n < 20:
        raise AnalysisError(f"constraint operand uses: only {n} found")
    rep.floor("C13-m", 20)


def rule_array_truth(repo, rep):
    """(n) per-axis quantisation: scale_f32 / zero_point hold one value per channel (NumPy arrays). An elementwise comparison of
    such a field is an array; using it as a truth value raises `ValueError: The truth value of an array ... is ambiguous`."""
    rep.clause("C13-n", "a comparison on a quantisation field that is an array for per-axis quantised tensors (scale_f32, zero_point) is reduced (np.all / np.any / np.array_equal / .all()) "
               "before it is used as a truth value (if / and / or / not / assert / bool return)")
    FIELDS = ("scale_f32", "zero_point")
    REDUCERS = {"np.all", "np.any", "numpy.all", "numpy.any", "all", "any", "np.array_equal", "numpy.array_equal", "np.allclose", "np.isclose", "bool"}
    n = 0
    # scope: code that sees every tensor of the model before any operator has been judged (reader, the two constraint checkers and
    # the tensor.py helpers they call). After placement NPU operators have been filtered by constraint_tens_quant_per_axis and the
    # reader gives every operator its own bias clone, so the same comparisons in weight_compressor cannot meet two arrays.
    for mname in ("tensor", "tflite_reader", "model_reader", "tflite_model_semantic", "tflite_supported_operators", "operation", "supported_operators_util"):
        m = repo.mod(mname)
        for cmp_ in ast.walk(m.tree):
            if isinstance(cmp_, ast.Call) and (call_name(cmp_) or "") in ("np.array_equal", "numpy.array_equal") and any(isinstance(a_, ast.Attribute) and a_.attr in FIELDS for a_ in cmp_.args):
                fn = m.enclosing_function(cmp_)
                n += 1
                rep.ok("C13-n", f"ethosu/vela/{m.name}.py:{m.qualname_of(fn) if fn else '<module>'}", f"`{str(norm(cmp_))[:70]}` compares the field as an array", "")
                continue
            if not isinstance(cmp_, ast.Compare) or any(isinstance(o, (ast.Is, ast.IsNot, ast.In, ast.NotIn)) for o in cmp_.ops):
                continue
            operands = [cmp_.left] + list(cmp_.comparators)
            if not any(isinstance(o, ast.Attribute) and o.attr in FIELDS for o in operands):
                continue
            # climb to the context the comparison's value is used in
            cur, ctx = cmp_, None
            while True:
                par = m.parents.get(cur)
                if par is None:
                    break
                if isinstance(par, ast.Call):
                    cn = call_name(par) or ""
                    if cn in REDUCERS or (isinstance(par.func, ast.Attribute) and par.func.attr in ("all", "any", "item")):
                        ctx = "reduced"
                        break
                    ctx = "argument"
                    break
                if isinstance(par, ast.Attribute) and par.attr in ("all", "any"):
                    cur = par
                    continue
                if isinstance(par, ast.BoolOp) or (isinstance(par, ast.UnaryOp) and isinstance(par.op, ast.Not)):
                    ctx = "truth"
                    break
                if isinstance(par, (ast.If, ast.While, ast.IfExp, ast.Assert)) and par.test is cur:
                    ctx = "truth"
                    break
                if isinstance(par, ast.Return):
                    fn = m.enclosing_function(par)
                    ctx = "truth" if fn is not None and fn.returns is not None and str(norm(fn.returns)) == "bool" else "value"
                    break
                if isinstance(par, ast.stmt):
                    ctx = "value"
                    break
                cur = par
            fn = m.enclosing_function(cmp_)
            n += 1
            rep.check(ctx != "truth", "C13-n", f"ethosu/vela/{m.name}.py:{m.qualname_of(fn) if fn else '<module>'}", f"`{str(norm(cmp_))[:70]}` is reduced before it is used as a truth value",
                      "elementwise comparison of a per-channel quantisation field used as a boolean: a model with per-axis quantised tensors on this path dies with "
                      "'ValueError: The truth value of an array with more than one element is ambiguous'")
    if n < 2:
        raise AnalysisError(f"comparisons on quantisation fields: only {n} found")
    rep.floor("C13-n", 2)


def rule_absent_vectors(repo, rep):
    """(o) generated flatbuffer accessors `XAsNumpy()` return the int 0 when the vector is absent from the file. A value taken
    from such an accessor and kept as an operator attribute must not reach len() / iteration / *-unpacking in the matching
    serialize() unless one of the two sides normalises or tests it."""
    rep.clause("C13-o", "an absent flatbuffer vector (XAsNumpy() returns the int 0) kept as an operator attribute by a deserialize() is not consumed as a sequence by the matching serialize()")
    tm = repo.mod("tflite_mapping")
    # premise: the generated accessor really returns 0 for an absent vector
    gen = repo.modules.get("tflite.Operator")
    if gen is None:
        raise AnalysisError("generated module tflite/Operator.py not loaded")
    acc = gen.functions.get("Operator.CustomOptionsAsNumpy")
    if acc is None or not any(isinstance(r, ast.Return) and isinstance(r.value, ast.Constant) and r.value.value == 0 for r in ast.walk(acc)):
        raise AnalysisError("Operator.CustomOptionsAsNumpy: 'return 0' for the absent vector not found (premise of C13-o)")
    n = 0
    classes = sorted({q.split(".")[0] for q in tm.functions if q.endswith(".deserialize")} & {q.split(".")[0] for q in tm.functions if q.endswith(".serialize")})
    for cls in classes:
        de, se = tm.func(f"{cls}.deserialize"), tm.func(f"{cls}.serialize")
        raw = {}
        for st in ast.walk(de):
            if isinstance(st, ast.Assign) and len(st.targets) == 1 and isinstance(st.targets[0], ast.Name) and isinstance(st.value, ast.Call) and isinstance(st.value.func, ast.Attribute) \
                    and st.value.func.attr.endswith("AsNumpy"):
                raw[st.targets[0].id] = st.value.func.attr
        keys = {}
        for st in ast.walk(de):
            if isinstance(st, ast.Assign) and isinstance(st.targets[0], ast.Subscript) and str(norm(st.targets[0].value)) == "attrs" and isinstance(st.targets[0].slice, ast.Constant):
                v = st.value
                src = raw.get(v.id) if isinstance(v, ast.Name) else (v.func.attr if isinstance(v, ast.Call) and isinstance(v.func, ast.Attribute) and v.func.attr.endswith("AsNumpy") else None)
                if src:
                    keys[st.targets[0].slice.value] = src
        if not keys:
            continue
        c = cfg_of(se)
        for st in ast.walk(se):
            if not (isinstance(st, ast.Assign) and len(st.targets) == 1 and isinstance(st.targets[0], ast.Name)):
                continue
            v = st.value
            k = None
            if isinstance(v, ast.Call) and str(norm(v.func)) == "attrs.get" and v.args and isinstance(v.args[0], ast.Constant):
                k = v.args[0].value
            elif isinstance(v, ast.Subscript) and str(norm(v.value)) == "attrs" and isinstance(v.slice, ast.Constant):
                k = v.slice.value
            if k not in keys:
                continue
            name = st.targets[0].id
            uses = []
            for x in ast.walk(se):
                if isinstance(x, ast.Name) and x.id == name and isinstance(x.ctx, ast.Load):
                    p = tm.parents.get(x)
                    if (isinstance(p, ast.Call) and call_name(p) in ("len", "list", "tuple", "bytes", "bytearray") and x in p.args) or isinstance(p, ast.Starred) or (isinstance(p, (ast.For, ast.comprehension)) and p.iter is x):
                        uses.append(x)
            tests = [t for t in c.nodes[3:] if t.kind == "test" and any(isinstance(y, ast.Name) and y.id == name for y in ast.walk(t.expr))]
            for x in uses:
                nid = c.node_of(x)
                guarded = any(c.dominates(t.id, nid) and t.id != nid for t in tests)
                n += 1
                rep.check(guarded, "C13-o", f"ethosu/vela/tflite_mapping.py:{cls}.serialize", f"attribute '{k}' (from {keys[k]}() in deserialize) is tested before it is used as a sequence",
                          f"`{str(norm(tm.parents.get(x)))[:50]}` on the value deserialize() took from {keys[k]}(): for an operator without that vector the accessor returns the int 0 "
                          "(valid model with a custom operator that has no custom_options -> TypeError: object of type 'int' has no len() while writing)")
        if not any(True for _ in keys):
            continue
    # deserialize sides that normalise the accessor result count as examined sites
    for cls in classes:
        de = tm.func(f"{cls}.deserialize")
        for x in ast.walk(de):
            if isinstance(x, ast.Call) and isinstance(x.func, ast.Attribute) and x.func.attr.endswith("AsNumpy"):
                p = tm.parents.get(x)
                if isinstance(p, ast.IfExp) or any(isinstance(a_, ast.If) and any(y is x for y in ast.walk(a_)) and ("IsNone" in str(norm(a_.test)) or "Length" in str(norm(a_.test))) for a_ in ast.walk(de)):
                    n += 1
                    rep.ok("C13-o", f"ethosu/vela/tflite_mapping.py:{cls}.deserialize", f"{x.func.attr}() result is normalised where it is read", "")
    if n < 1:
        raise AnalysisError("C13-o: no accessor result kept as attribute found")
    rep.floor("C13-o", 1)


def rule_lut_dispatch(repo, rep):
    """(p) convert_ops_to_lut ends in `assert False` for an element type it has no table generator for ("Should already be
    catched in tflite supported ops"): for every operator type that reaches that dispatch some registered constraint must
    restrict the IFM element type to the handled ones. (q) the real function a table is generated from is evaluated on
    (code - zero point) * scale for every code, which is negative for codes below the zero point: library functions with a
    restricted domain (math.sqrt, math.log) are called only behind a test of that boundary."""
    from .c16 import registrations

    rep.clause("C13-p", "every operator type that reaches the element-type dispatch of convert_ops_to_lut (which asserts on anything but the handled types) has a registered constraint "
               "admitting only handled IFM element types; table functions with a restricted domain (sqrt, log) guard it (a code below the zero point dequantises to a negative number)")
    go = repo.mod("tflite_graph_optimiser")
    f = go.func("convert_ops_to_lut")
    site = "ethosu/vela/tflite_graph_optimiser.py:convert_ops_to_lut"
    # operator types that fall through to the dtype dispatch, and the function each uses
    types, funcs = [], {}
    for i_ in ast.walk(f):
        if isinstance(i_, ast.If) and isinstance(i_.test, ast.Compare) and str(norm(i_.test.left)) == "op.type" and isinstance(i_.test.ops[0], ast.Eq):
            t = str(norm(i_.test.comparators[0]))
            if any(isinstance(b, ast.Return) for b in i_.body):
                continue
            types.append(t)
            for b in i_.body:
                if isinstance(b, ast.Assign) and str(norm(b.targets[0])) == "func":
                    funcs[t] = b.value
    handled = {str(norm(c.comparators[0])) for c in ast.walk(f) if isinstance(c, ast.Compare) and str(norm(c.left)) == "op.ifm.dtype" and isinstance(c.ops[0], ast.Eq)}
    fallthrough_asserts = [a for a in ast.walk(f) if isinstance(a, ast.Assert) and isinstance(a.test, ast.Constant) and a.test.value is False]
    if len(types) < 3 or not handled or len(fallthrough_asserts) != 1:
        raise AnalysisError(f"convert_ops_to_lut: dispatch not recognised (types {types}, handled {sorted(handled)})")
    sem, so = repo.mod("tflite_model_semantic"), repo.mod("tflite_supported_operators")
    _, s_sem, _, _ = registrations(repo, sem, "TFLiteSemantic")
    _, s_so, _, _ = registrations(repo, so, "TFLiteSupportedOperators")
    sup = so.class_assigns("TFLiteSupportedOperators").get("supported_op_dtypes")
    base = {str(norm(x)) for x in ast.walk(sup) if isinstance(x, ast.Attribute) and str(norm(x.value)) == "DataType"} if sup is not None else set()
    if len(base) < 3:
        raise AnalysisError("TFLiteSupportedOperators.supported_op_dtypes not recognised")

    def admitted_by(m, cls, cname):
        """set of IFM dtypes a constraint admits, or None if it does not restrict the IFM element type"""
        fn = m.functions.get(f"{cls}.{cname}")
        if fn is None:
            return None
        al = {str(norm(s_.targets[0])) for s_ in ast.walk(fn) if isinstance(s_, ast.Assign) and str(norm(s_.value)) == "op.ifm.dtype"} | {"op.ifm.dtype"}
        adm = set()
        for c in ast.walk(fn):
            if isinstance(c, ast.Compare) and str(norm(c.left)) in al and len(c.ops) == 1:
                if isinstance(c.ops[0], ast.Eq) and str(norm(c.comparators[0])).startswith("DataType."):
                    adm.add(str(norm(c.comparators[0])))
                elif isinstance(c.ops[0], ast.In) and isinstance(c.comparators[0], (ast.Tuple, ast.List, ast.Set)) and all(str(norm(e)).startswith("DataType.") for e in c.comparators[0].elts):
                    adm |= {str(norm(e)) for e in c.comparators[0].elts}
        return adm or None

    for t in types:
        opn = t.split(".")[-1]
        adm = set(base)
        used = []
        for m, cls, spec in ((sem, "TFLiteSemantic", s_sem), (so, "TFLiteSupportedOperators", s_so)):
            for cname in spec.get(opn, []):
                a = admitted_by(m, cls, cname)
                if a is not None:
                    adm &= a
                    used.append(cname)
        rep.check(adm <= handled, "C13-p", site, f"{t}: the IFM element types that pass its constraints ({sorted(x.split('.')[-1] for x in adm)}) are all handled by the table dispatch ({sorted(x.split('.')[-1] for x in handled)})",
                  f"constraints restricting the IFM type of {t}: {used or 'none'} - {sorted(x.split('.')[-1] for x in adm - handled)} reach `assert False` (valid {opn.upper()} model with that element type -> AssertionError traceback)")
    # (q) domain of the real function
    RESTRICTED = {"math.sqrt": ("x >= 0", ("<", "<=")), "math.log": ("x > 0", ("<=", "<"))}
    for t, v in sorted(funcs.items()):
        txt = str(norm(v))
        inner = None
        if isinstance(v, ast.Name):
            inner = next((d for d in ast.walk(f) if isinstance(d, ast.FunctionDef) and d.name == v.id), None)
        called = [txt] if txt in RESTRICTED else []
        if inner is not None:
            prm = inner.args.args[0].arg
            # only calls whose argument depends on the table function's parameter (math.sqrt(2 / math.pi) is a constant)
            called = sorted({call_name(c) for c in ast.walk(inner) if isinstance(c, ast.Call) and call_name(c) in RESTRICTED and any(isinstance(y, ast.Name) and y.id == prm for a_ in c.args for y in ast.walk(a_))})
        for lib in called:
            guarded = False
            if inner is not None:
                arg = inner.args.args[0].arg
                for c in ast.walk(inner):
                    if isinstance(c, ast.Compare) and len(c.ops) == 1 and str(norm(c.left)) == arg and type(c.ops[0]).__name__ in ("Lt", "LtE") and str(norm(c.comparators[0])) in ("0", "0.0"):
                        guarded = True
                    if isinstance(c, ast.Call) and call_name(c) == "max" and any(str(norm(a_)) in ("0", "0.0", "sys.float_info.min") for a_ in c.args):
                        guarded = True
            rep.check(guarded, "C13-p", site, f"{t}: {lib} (defined for {RESTRICTED[lib][0]}) is called behind a test of the domain boundary",
                      f"table function `{txt}` reaches {lib} for every code: codes below the input zero point dequantise to negative numbers "
                      f"(valid int8 {t.split('.')[-1].upper()} with zero point > -128 -> ValueError: math domain error while the table is built)")
    rep.floor("C13-p", 5)


def rule_reshape_counts(repo, rep):
    """(q) np.array(<list of n values>).reshape(<shape>) raises ValueError unless n equals the product of the shape. Where both are
    built from the same local names the two element counts are compared as polynomials (an identity that must hold for every
    value of the names, e.g. every channel count)."""
    from ..exprnorm import poly

    rep.clause("C13-q", "a constant built by a rewrite as np.array(<list>).reshape(<shape>) has as many list elements as the shape has entries (compared as polynomials in the local names)")
    n = 0
    for mname in ("tflite_graph_optimiser", "graph_optimiser_util", "operation_util", "lut", "softmax", "lstm"):
        m = repo.mod(mname)
        for q, fn in m.functions.items():
            sa = {}
            for st in walk_no_nested(fn):
                if isinstance(st, ast.Assign) and len(st.targets) == 1 and isinstance(st.targets[0], ast.Name):
                    sa.setdefault(st.targets[0].id, []).append(st.value)
            one = {k: v[0] for k, v in sa.items() if len(v) == 1}
            for c in walk_no_nested(fn):
                if not (isinstance(c, ast.Call) and isinstance(c.func, ast.Attribute) and c.func.attr == "reshape" and len(c.args) == 1):
                    continue
                src = c.func.value
                if not (isinstance(src, ast.Call) and (call_name(src) or "") in ("np.array", "numpy.array", "np.asarray") and src.args):
                    continue
                lst = src.args[0]
                if isinstance(lst, ast.Name) and lst.id in one:
                    lst = one[lst.id]
                shp = c.args[0]
                if isinstance(shp, ast.Name) and shp.id in one:
                    shp = one[shp.id]
                count = None
                if isinstance(lst, ast.BinOp) and isinstance(lst.op, ast.Mult) and isinstance(lst.left, ast.List) and len(lst.left.elts) == 1:
                    count = lst.right
                elif isinstance(lst, ast.BinOp) and isinstance(lst.op, ast.Mult) and isinstance(lst.right, ast.List) and len(lst.right.elts) == 1:
                    count = lst.left
                if count is None or not isinstance(shp, (ast.List, ast.Tuple)) or not shp.elts:
                    continue
                prod = shp.elts[0]
                for e in shp.elts[1:]:
                    prod = ast.BinOp(left=prod, op=ast.Mult(), right=e)
                try:
                    a, b = poly(count), poly(prod)
                except Exception:
                    continue
                n += 1
                rep.check(a == b, "C13-q", f"ethosu/vela/{mname}.py:{q}", f"`{str(norm(c))[:70]}`: {str(norm(count))} values fill the shape {str(norm(shp))}",
                          f"the list has {str(norm(count))} elements but the shape has {' * '.join(str(norm(e)) for e in shp.elts)} entries: numpy raises 'ValueError: cannot reshape array' "
                          "whenever the two differ (here: for every channel count other than 1)")
    if n < 1:
        raise AnalysisError("no np.array(list).reshape(shape) site with a symbolic element count found")
    rep.floor("C13-q", 1)


def rule_round5(repo, rep):
    """(r) assertions that a small slip turns into a crash for a class of valid models."""
    from ..exprnorm import comparison

    rule_conditionally_assigned(repo, rep)
    rule_bias_range_agreement(repo, rep)
    rule_stale_ofm_alias(repo, rep)
    rule_dimension_minus_one_divisor(repo, rep)
    rule_none_to_dereferencing_method(repo, rep)
    rule_quant_field_subscript(repo, rep)
    rule_cross_indexed_operands(repo, rep)
    rule_axis_normalisation(repo, rep)
    rule_constness_of_encoded_operands(repo, rep)
    rule_scalar_conversion(repo, rep)
    rep.clause("C13-s", "after a Reshape has been bypassed no later rewrite re-derives an operator's OFM shape from the re-shaped tensor (the command generators assert that IFM, IFM2 and OFM shapes of an "
               "operator are consistent: an inconsistent view aborts the compilation) [rule shared with C02-m]")
    from . import c02 as _c02

    _c02.rule_shape_view(repo, rep, "C13-s")
    rep.clause("C13-r", "rank < 4 concatenations on axis 0 are shifted into 4-D index space like every non-negative axis; a time-major LSTM step reads an [n_batch, n_feature] slice; a scale-only "
               "encoded tensor carries no weight compression key (the allocator asserts that equal weight keys imply equal scale keys)")
    go = repo.mod("tflite_graph_optimiser")
    rc = go.func("rewrite_concat_ops")
    tests = [i_ for i_ in ast.walk(rc) if isinstance(i_, ast.If) and any(isinstance(s_, ast.Assign) and str(norm(s_.targets[0])) == "axis_4D" and "len(inp.shape)" in str(norm(s_.value)) for s_ in i_.body)]
    if len(tests) != 1:
        raise AnalysisError("rewrite_concat_ops: 4-D axis conversion not found")
    rep.check(comparison(tests[0].test) == comparison(ast.parse("axis >= 0", mode="eval").body), "C13-r", "ethosu/vela/tflite_graph_optimiser.py:rewrite_concat_ops",
              "every non-negative axis (0 included) is converted with axis + (4 - rank)", f"converted under `{str(norm(tests[0].test))}`: for rank < 4 inputs and axis 0 the extents are read from the padded batch position and "
              "`assert ofm.shape[axis] == offset` fires (AssertionError traceback)")
    ls = repo.mod("lstm").func("Lstm.get_feature")
    sh = [c for c in ast.walk(ls) if isinstance(c, ast.Call) and isinstance(c.func, ast.Attribute) and c.func.attr == "set_all_shapes" and c.args and isinstance(c.args[0], ast.List)]
    if len(sh) != 1 or len(sh[0].args[0].elts) != 2:
        raise AnalysisError("Lstm.get_feature: slice shape not found")
    first = sh[0].args[0].elts[0]
    ok = isinstance(first, ast.IfExp) and str(norm(first.test)) == "self.time_major" and str(norm(first.body)) == "self.n_batch" and str(norm(first.orelse)) == "1" and str(norm(sh[0].args[0].elts[1])) == "self.n_feature"
    rep.check(ok, "C13-r", "ethosu/vela/lstm.py:Lstm.get_feature", "the per-step slice is [n_batch if time_major else 1, n_feature]",
              f"`{str(norm(sh[0].args[0]))}`: with n_time != n_batch the read runs past the IFM (Box assertion) or the gate shapes disagree (broadcast assertion)")
    wc = repo.mod("weight_compressor")
    ew = wc.func("encode_weight_and_scale_tensor")
    so = [i_ for i_ in ast.walk(ew) if isinstance(i_, ast.If) and str(norm(i_.test)) == "not do_weights" and any(isinstance(s_, ast.Assign) and "TensorPurpose.FSBias" in str(norm(s_.value)) for s_ in i_.body)]
    if len(so) != 1:
        raise AnalysisError("encode_weight_and_scale_tensor: scale-only branch not found")
    cleared = any(isinstance(s_, ast.Assign) and str(norm(s_.targets[0])) == "npu_tensor.weight_compression_config" and str(norm(s_.value)) == "None" for s_ in so[0].body)
    ta = repo.mod("tensor_allocation")
    asserted = any(isinstance(a_, ast.Assert) and "scale_compression_config" in str(norm(a_.test)) for a_ in ast.walk(ta.tree))
    rep.check(cleared or not asserted, "C13-r", "ethosu/vela/weight_compressor.py:encode_weight_and_scale_tensor", "a scale-only tensor has weight_compression_config = None",
              "the scale-only tensor keeps the cached weights' compression key with its own scale key: linear_allocate_live_ranges asserts that equal weight keys imply equal scale keys "
              "(two operators sharing weights with different bias / scales -> AssertionError traceback)")
    rep.floor("C13-r", 3)


# reviewed: (module, function, local) -> why the unassigned path cannot be taken
_COND_ONLY_OK = {
    ("debug_database", "DebugDatabase.add_stream", "uid"): "called once per NPU subgraph of a compilation and the table is emptied at every entry point (C14-a): the key is always new",
    ("high_level_command_stream_generator", "generate_high_level_commands_for_sched_op", "pad_top"): "every scheduled NPU operation has an IFM (SchedulerOperation takes it from the pass's ifm_tensor, which pass packing requires)",
    ("high_level_command_stream_generator", "generate_high_level_commands_for_sched_op", "pad_bottom"): "as pad_top",
}


def rule_conditionally_assigned(repo, rep):
    """(t) UnboundLocalError: a local whose every assignment sits inside an `if` (no branch pair covers both outcomes, no initialisation
    before) and that is read later outside any test that mentions the same condition or the local itself."""
    rep.clause("C13-t", "no local variable is assigned only under a condition and read where that condition is not known to hold (UnboundLocalError for the inputs that take the other branch)")

    def tnames(e):
        return {y.id for y in ast.walk(e) if isinstance(y, ast.Name)} | {y.attr for y in ast.walk(e) if isinstance(y, ast.Attribute)}

    nfun = 0
    hits = 0
    for m in repo.core_modules():
        for q, fn in m.functions.items():
            if "." in q and q.split(".")[0] in m.functions:
                continue
            nfun += 1
            par = m.parents
            params = {a.arg for a in fn.args.args + fn.args.kwonlyargs + fn.args.posonlyargs}
            stores = {}
            for x in walk_no_nested(fn):
                if isinstance(x, ast.Name) and isinstance(x.ctx, ast.Store):
                    stores.setdefault(x.id, []).append(x)
            for name, sts in stores.items():
                if name in params:
                    continue
                conds = []
                ok = True
                for s_ in sts:
                    p_ = par.get(s_)
                    while p_ is not None and not isinstance(p_, (ast.Assign, ast.AugAssign, ast.AnnAssign, ast.For, ast.With, ast.ExceptHandler, ast.comprehension, ast.NamedExpr, ast.Import, ast.ImportFrom)):
                        p_ = par.get(p_)
                    if not isinstance(p_, ast.Assign):
                        ok = False
                        break
                    cur, ifs = p_, []
                    while cur is not fn and cur is not None:
                        pp = par.get(cur)
                        if isinstance(pp, ast.If) and (cur in pp.body or cur in pp.orelse):
                            ifs.append(pp)
                        if isinstance(pp, (ast.Try, ast.ExceptHandler)):
                            ok = False
                        cur = pp
                    if not ifs:
                        ok = False
                        break
                    conds.append(ifs)
                if not ok:
                    continue

                def holds(block):
                    return any(any(x is s_ for x in ast.walk(ast.Module(body=block, type_ignores=[]))) for s_ in sts)

                covered = any(holds(i_.body) and i_.orelse and (holds(i_.orelse) or isinstance(i_.orelse[-1], (ast.Return, ast.Raise, ast.Continue, ast.Break))) for ifs in conds for i_ in ifs)
                if covered:
                    continue
                guard_names = set().union(*[tnames(i_.test) for ifs in conds for i_ in ifs]) | {name}
                first = min(s_.lineno for s_ in sts)
                for x in walk_no_nested(fn):
                    if not (isinstance(x, ast.Name) and x.id == name and isinstance(x.ctx, ast.Load) and x.lineno > first):
                        continue
                    cur, correlated = x, False
                    while cur is not fn and cur is not None:
                        pp = par.get(cur)
                        if isinstance(pp, (ast.If, ast.IfExp, ast.While)) and cur is not pp.test and tnames(pp.test) & guard_names:
                            correlated = True
                        if isinstance(pp, ast.BoolOp) and any(v is not cur and tnames(v) & guard_names for v in pp.values):
                            correlated = True
                        cur = pp
                    if correlated:
                        continue
                    hits += 1
                    key = (m.name, q, name)
                    site = f"{m.rel}:{q}"
                    if key in _COND_ONLY_OK:
                        rep.ok("C13-t", site, f"`{name}` is assigned under a condition only [reviewed: {_COND_ONLY_OK[key]}]")
                    else:
                        rep.bad("C13-t", site, f"`{name}` is assigned only under `{str(norm(conds[0][0].test))[:60]}` and read unconditionally (line of `{str(norm(par.get(x)))[:60]}`)",
                                "UnboundLocalError when the condition is false"
                                + (" (demonstrated: a subgraph whose only operator has no inputs, e.g. a CUSTOM operator without operands: 'cannot access local variable startup_ps')" if name == "startup_ps" else ""))
                    break
    if nfun < 900:
        raise AnalysisError(f"only {nfun} functions scanned")
    rep.ok("C13-t", "ethosu/vela", f"{nfun} functions scanned, {hits} conditionally assigned locals with an unguarded read")
    rep.floor("C13-t", 2)


def rule_scalar_conversion(repo, rep):
    """(u) `int(t.values)` raises TypeError (NumPy >= 2) unless the array is 0-dimensional. Operand tensors such as a SPLIT axis may be 0-d or a
    one-element 1-D array (the semantic checks accept both), so every such conversion is made under a test that the array is a scalar
    (`.values.ndim == 0`, `.shape == []`), or goes through an element access."""
    rep.clause("C13-u", "int(<tensor>.values) is applied only to arrays known to be 0-dimensional (a scalar test on the same tensor guards it); one-element 1-D operands are read through an element access")
    n = 0
    for m in repo.core_modules():
        if m.name.startswith("tosa_") or "/test/" in m.rel:
            continue
        for q, fn in m.functions.items():
            if "." in q and q.split(".")[0] in m.functions:
                continue
            for c in walk_no_nested(fn):
                if not (isinstance(c, ast.Call) and isinstance(c.func, ast.Name) and c.func.id == "int" and len(c.args) == 1 and isinstance(c.args[0], ast.Attribute) and c.args[0].attr == "values"):
                    continue
                base = str(norm(c.args[0].value))
                n += 1
                cur, guarded = c, False
                while cur is not fn and cur is not None:
                    pp = m.parents.get(cur)
                    if isinstance(pp, (ast.If, ast.IfExp)) and cur is not pp.test:
                        t = str(norm(pp.test))
                        in_body = (cur in pp.body) if isinstance(pp, ast.If) else (cur is pp.body)
                        scalar_true = any(x in t for x in (f"{base}.values.ndim == 0", f"{base}.shape == []", f"len({base}.shape) == 0", f"{base}.values.shape == ()"))
                        scalar_false = any(x in t for x in (f"{base}.values.ndim != 0", f"{base}.values.ndim > 0", f"{base}.shape != []"))
                        if (scalar_true and in_body) or (scalar_false and not in_body):
                            guarded = True
                    cur = pp
                if (m.name, q) == ("operation", "Operation.get_concat_inputs_axis"):
                    # reviewed: the branch is taken for Op.Concat only, which the TFLite reader never produces (CONCATENATION maps to ConcatTFLite, whose axis is an option)
                    tm_ = repo.mod("tflite_mapping")
                    if "Op.Concat," in tm_.src or "Op.Concat)" in tm_.src:
                        raise AnalysisError("tflite_mapping now maps an operator to Op.Concat: the exemption of get_concat_inputs_axis no longer holds")
                    rep.ok("C13-u", f"{m.rel}:{q}", f"`{str(norm(c))}` [reviewed: Op.Concat is not reachable from a TFLite model]")
                    continue
                rep.check(guarded, "C13-u", f"{m.rel}:{q}", f"`{str(norm(c))}` is made under a test that `{base}` is 0-dimensional",
                          "no such test: a one-element 1-D array (accepted by the semantic checks for SPLIT / SPLIT_V axes) makes int() raise `TypeError: only 0-dimensional arrays can be converted to "
                          "Python scalars` under NumPy >= 2 (demonstrated: SPLIT whose axis tensor has shape [1])")
    rep.floor("C13-u", 6)


def rule_constness_of_encoded_operands(repo, rep):
    """(m') the weight / bias encoder reads `.values` of the weight and the bias tensor of every operator placed on the NPU. Constness has to be
    established by a registered constraint for each of the two roles: wherever shape / type constraints of a role are registered for a list of
    operator types, a constraint that is false for `<role>.values is None` is registered for the same list."""
    rep.clause("C13-m'", "for every operator list for which bias (weights) constraints are registered, a constraint that rejects a non-constant bias (weights) tensor is registered too: "
               "the encoder reads the values of both")
    so = repo.mod("tflite_supported_operators")
    init = so.func("TFLiteSupportedOperators.__init__")

    def rejects_nonconst(fname, role):
        fn = so.functions.get(f"TFLiteSupportedOperators.{fname}")
        if fn is None:
            return False
        alias = {role, f"op.{role}"} | {str(norm(st.targets[0])) for st in ast.walk(fn) if isinstance(st, ast.Assign) and str(norm(st.value)) == f"op.{role}"}
        for st in ast.walk(fn):
            # valid = <role>.values is not None
            if isinstance(st, ast.Assign) and str(norm(st.targets[0])) == "valid" and any(str(norm(st.value)) in (f"{a}.values is not None", f"{a} is None or {a}.values is not None", f"not {a} or {a}.values is not None") for a in alias):
                return True
            # if <role>.values is None: return False, ...
            if isinstance(st, ast.If) and any(f"{a}.values is None" in str(norm(st.test)) for a in alias):
                for r_ in st.body:
                    if isinstance(r_, ast.Return) and isinstance(r_.value, ast.Tuple) and isinstance(r_.value.elts[0], ast.Constant) and r_.value.elts[0].value is False:
                        return True
        return False

    enc = repo.mod("weight_compressor").func("_prepare_scale_and_bias")
    reads_bias = any(isinstance(x, ast.Attribute) and x.attr == "values" for x in ast.walk(enc))
    if not reads_bias:
        raise AnalysisError("_prepare_scale_and_bias no longer reads tensor values")
    nblocks = 0
    for loop in [l for l in ast.walk(init) if isinstance(l, ast.For)]:
        regs = [str(norm(c.args[0])).split(".")[-1] for c in ast.walk(loop) if isinstance(c, ast.Call) and isinstance(c.func, ast.Attribute) and c.func.attr == "append" and "specific_constraints" in str(norm(c.func.value)) and c.args]
        for role in ("bias", "weights"):
            role_regs = [r_ for r_ in regs if r_.startswith(f"constraint_{role}_")]
            if not role_regs:
                continue
            nblocks += 1
            ok = any(rejects_nonconst(r_, role) for r_ in regs)
            rep.check(ok, "C13-m'", "ethosu/vela/tflite_supported_operators.py:TFLiteSupportedOperators.__init__",
                      f"operators in `{str(norm(loop.iter)).split('.')[-1]}`: a registered constraint rejects a non-constant {role} tensor (registered for the role: {', '.join(role_regs)})",
                      f"none of {role_regs} is false for `{role}.values is None`: the operator is placed on the NPU and the encoder reads the values"
                      + (" (demonstrated: CONV_2D with constant weights and a bias computed at run time: `TypeError: object of type 'NoneType' has no len()` in _prepare_scale_and_bias)" if role == "bias" else ""))
    if nblocks < 4:
        raise AnalysisError(f"only {nblocks} registration blocks with weight / bias constraints found")
    rep.floor("C13-m'", 4)


def rule_axis_normalisation(repo, rep):
    """(v) PACK / UNPACK: a negative axis is made positive by adding the number of positions the axis can take in the shape it is then used
    on. Both rewrites build `S[:axis] + [1] + S[axis:]`; the result has rank(S) + 1 positions, so the term added is rank(S) + 1. With r the
    rank of the operator's first input, rank(output) is r + 1 for PACK and r - 1 for UNPACK."""
    from ..exprnorm import linear as _lin

    rep.clause("C13-v", "PACK / UNPACK rewrites normalise a negative axis with the rank of the shape they index (rank(S) + 1 positions for the insertion S[:axis] + [1] + S[axis:])")
    go = repo.mod("tflite_graph_optimiser")
    n = 0
    for fname, kind in (("rewrite_unpack_output", "Unpack"), ("rewrite_concat_ops", "Pack")):
        fn = go.functions.get(fname)
        if fn is None:
            continue
        out_delta = 1 if kind == "Pack" else -1
        alias = {str(norm(st.targets[0])): str(norm(st.value)) for st in ast.walk(fn) if isinstance(st, ast.Assign) and len(st.targets) == 1 and isinstance(st.targets[0], ast.Name) and str(norm(st.value)) in ("op.outputs[0]", "op.inputs[0]", "op.ofm", "op.ifm")}

        def rank_of(shape_txt):
            base = shape_txt[:-len(".shape")] if shape_txt.endswith(".shape") else None
            base = alias.get(base, base)
            if base in ("op.inputs[0]", "op.ifm"):
                return {"r": 1}
            if base in ("op.outputs[0]", "op.ofm"):
                return {"r": 1, "": out_delta}
            return None

        norms = [st for i_ in ast.walk(fn) if isinstance(i_, ast.If) and str(norm(i_.test)) in ("axis < 0", "0 > axis") for st in i_.body if isinstance(st, (ast.Assign, ast.AugAssign)) and str(norm(st.targets[0] if isinstance(st, ast.Assign) else st.target)) == "axis"]
        inserts = [b for b in ast.walk(fn) if isinstance(b, ast.BinOp) and isinstance(b.op, ast.Add) and isinstance(b.left, ast.BinOp) and isinstance(b.left.left, ast.Subscript) and isinstance(b.right, ast.Subscript)
                   and str(norm(b.left.right)) == "[1]" and str(norm(b.left.left.value)) == str(norm(b.right.value)) and "axis" in str(norm(b.left.left.slice))]
        if not norms or not inserts:
            continue
        n += 1
        st = norms[0]
        added = st.value if isinstance(st, ast.AugAssign) else st.value
        lf = _lin(added)
        # replace len(X.shape) atoms by ranks
        form = {}
        okform = True
        for k, v in lf.items():
            if k in ("", "axis"):
                if k == "":
                    form[""] = form.get("", 0) + v
                continue
            if k.startswith("len(") and k.endswith(".shape)"):
                rk = rank_of(k[4:-1])
                if rk is None:
                    okform = False
                    continue
                for kk, vv in rk.items():
                    form[kk] = form.get(kk, 0) + v * vv
            else:
                okform = False
        need = rank_of(str(norm(inserts[0].left.left.value)))
        if not okform or need is None:
            raise AnalysisError(f"{fname}: axis normalisation `{str(norm(st))}` / insertion `{str(norm(inserts[0]))}` not recognised")
        need = dict(need)
        need[""] = need.get("", 0) + 1
        form = {k: v for k, v in form.items() if v}
        need = {k: v for k, v in need.items() if v}
        rep.check(form == need, "C13-v", f"ethosu/vela/tflite_graph_optimiser.py:{fname}", f"{kind}: the term added to a negative axis is rank(S) + 1 for the shape S of `{str(norm(inserts[0]))[:60]}`",
                  f"`{str(norm(st))}` adds {form} (r = rank of the first input), the insertion has {need} positions: the last axis (-1) becomes an index one past the end "
                  "(demonstrated: UNPACK with axis -1 on the NPU: IndexError in rewrite_split_ops)")
    if n < 2:
        raise AnalysisError(f"PACK / UNPACK axis normalisations: {n} found")
    rep.floor("C13-v", 2)


def rule_cross_indexed_operands(repo, rep):
    """(w) a loop over the positions of one tensor that indexes the values of another operand needs that operand to be as long: guarded by a
    comparison of the index with the operand's length (the reference semantics for STRIDED_SLICE: missing trailing entries mean the whole
    dimension), or by a reviewed reason why the lengths agree."""
    rep.clause("C13-w", "a loop over the rank of one tensor that indexes the values of another operand compares the index with that operand's length first (or the lengths agree for a reviewed reason)")
    reviewed = {("operation", "Operation.get_split_inputs_axis", "size_tens.values[idx]"): "SLICE: TFLite itself rejects a model whose begin and size tensors differ in length (Prepare: NumElements(begin) == NumElements(size))"}
    n = 0
    for mn in ("tflite_model_semantic", "tflite_supported_operators", "operation", "tflite_graph_optimiser", "graph_optimiser_util"):
        m = repo.mod(mn)
        for q, fn in m.functions.items():
            if "." in q and q.split(".")[0] in m.functions:
                continue
            for lp in ast.walk(fn):
                if not (isinstance(lp, ast.For) and isinstance(lp.iter, ast.Call) and str(norm(lp.iter.func)) == "range" and lp.iter.args and "len(" in str(norm(lp.iter.args[-1])) and isinstance(lp.target, ast.Name)):
                    continue
                rng = str(norm(lp.iter.args[-1]))
                for x in ast.walk(lp):
                    if isinstance(x, ast.Subscript) and isinstance(x.slice, ast.Name) and x.slice.id == lp.target.id and str(norm(x.value)).endswith(".values") and isinstance(x.ctx, ast.Load):
                        base = str(norm(x.value))
                        if base[:-len(".values")] in rng:
                            continue
                        n += 1
                        key = (mn, q, str(norm(x)))
                        # guarded: an enclosing test (or a conjunct left of the access) compares the index with len(<operand>.values) / len(<operand>.shape)
                        cur, guarded = x, False
                        while cur is not lp and cur is not None:
                            pp = m.parents.get(cur)
                            tests = []
                            if isinstance(pp, (ast.If, ast.IfExp)) and cur is not pp.test:
                                tests.append(pp.test)
                            if isinstance(pp, ast.BoolOp) and isinstance(pp.op, ast.And):
                                tests.extend(v for v in pp.values if v is not cur)
                            for t in tests:
                                tt = str(norm(t))
                                if f"{lp.target.id} < len({base})" in tt or f"len({base}) > {lp.target.id}" in tt or f"{lp.target.id} < len({base[:-7]}.shape" in tt:
                                    guarded = True
                            cur = pp
                        if key in reviewed:
                            rep.ok("C13-w", f"{m.rel}:{q}", f"`{key[2]}` in a loop over `{rng}` [reviewed: {reviewed[key]}]")
                        else:
                            rep.check(guarded, "C13-w", f"{m.rel}:{q}", f"`{str(norm(x))}` in a loop over `{rng}` is reached only for positions the operand has",
                                      f"no comparison of `{lp.target.id}` with `len({base})`: an operand shorter than the rank raises IndexError "
                                      "(demonstrated: STRIDED_SLICE of a rank-3 input with begin / end / strides of length 2: IndexError in _get_slice_offsets)")
    rep.floor("C13-w", 2)


def rule_quant_field_subscript(repo, rep):
    """(x) the reader collapses a one-element quantisation vector to a scalar (len1_array_to_scalar): `scale_f32` / `zero_point` is an array only
    for per-axis quantisation. A subscript of such a field is therefore made only where the field is known to be an array (a test on its
    dimensionality / type guards it, or the value went through np.atleast_1d / np.broadcast_to / np.full)."""
    rep.clause("C13-x", "scale_f32 / zero_point are subscripted only where they are known to be arrays (per-tensor quantisation is stored as a scalar)")
    n = 0
    for m in repo.core_modules():
        if m.name.startswith("tosa_"):
            continue
        for q, fn in m.functions.items():
            if "." in q and q.split(".")[0] in m.functions:
                continue
            for x in walk_no_nested(fn):
                if not (isinstance(x, ast.Subscript) and isinstance(x.value, ast.Attribute) and x.value.attr in ("scale_f32", "zero_point") and isinstance(x.ctx, ast.Load)):
                    continue
                n += 1
                base = str(norm(x.value))
                cur, guarded = x, False
                while cur is not fn and cur is not None:
                    pp = m.parents.get(cur)
                    if isinstance(pp, (ast.If, ast.IfExp)) and cur is not pp.test:
                        t = str(norm(pp.test))
                        in_body = (cur in pp.body) if isinstance(pp, ast.If) else (cur is pp.body)
                        arr_true = any(k in t for k in (f"np.ndim({base}) > 0", f"np.ndim({base}) != 0", f"isinstance({base}, np.ndarray)", f"{base}.ndim > 0", f"np.size({base}) > 1", f"{base}.size > 1"))
                        arr_false = any(k in t for k in (f"np.ndim({base}) == 0", f"np.isscalar({base})", f"not isinstance({base}, np.ndarray)"))
                        if (arr_true and in_body) or (arr_false and not in_body):
                            guarded = True
                    cur = pp
                rep.check(guarded, "C13-x", f"{m.rel}:{q}", f"`{str(norm(x))[:80]}` is evaluated only where `{base}` is an array",
                          "no test of its dimensionality: for per-tensor quantisation the field is a NumPy scalar and the subscript raises `IndexError: invalid index to scalar variable` "
                          "(demonstrated: grouped CONV_2D whose weights are quantised per tensor)")
    rep.floor("C13-x", 1)


def rule_none_to_dereferencing_method(repo, rep):
    """(y) Operation.add_input_tensor / add_output_tensor / set_output_tensor dereference their tensor argument unconditionally: a call that passes the constant
    None is a definite AttributeError on its path (an absent optional operand is appended to `inputs` directly)."""
    rep.clause("C13-y", "the tensor-wiring methods of Operation that dereference their argument are never called with the constant None")
    opm = repo.mod("operation")
    deref = set()
    for nm in ("add_input_tensor", "add_output_tensor", "set_output_tensor"):
        fn = opm.functions.get(f"Operation.{nm}")
        if fn is None:
            raise AnalysisError(f"Operation.{nm} vanished")
        p0 = fn.args.args[1].arg
        guarded = any(isinstance(i, ast.If) and (f"{p0} is None" in str(norm(i.test)) or f"{p0} is not None" in str(norm(i.test)) or str(norm(i.test)) == p0) for i in ast.walk(fn))
        uses = any(isinstance(a, ast.Attribute) and isinstance(a.value, ast.Name) and a.value.id == p0 for a in ast.walk(fn))
        if uses and not guarded:
            deref.add(nm)
    if not deref:
        raise AnalysisError("no dereferencing wiring method found in Operation")
    n = 0
    for m in repo.core_modules():
        for c in ast.walk(m.tree):
            if isinstance(c, ast.Call) and isinstance(c.func, ast.Attribute) and c.func.attr in deref and c.args:
                n += 1
                if isinstance(c.args[0], ast.Constant) and c.args[0].value is None:
                    fn_ = m.enclosing_function(c)
                    rep.bad("C13-y", f"{m.rel}:{m.qualname_of(fn_) if fn_ else '<module>'}", f"`{str(norm(c))}`",
                            f"Operation.{c.func.attr} dereferences its argument: AttributeError whenever this statement is reached "
                            "(demonstrated: grouped CONV_2D without a bias tensor: 'NoneType' object has no attribute 'consumer_list')")
    rep.ok("C13-y", "ethosu/vela", f"{n} calls of {sorted(deref)} scanned")
    rep.floor("C13-y", 1)
    if n < 100:
        raise AnalysisError(f"only {n} wiring calls found")


def _bool_eval(e, env):
    """Truth value of a test under an assignment of its atoms (comparisons, names, calls are opaque atoms keyed by their normal text)."""
    if isinstance(e, ast.BoolOp):
        vals = [_bool_eval(v, env) for v in e.values]
        return all(vals) if isinstance(e.op, ast.And) else any(vals)
    if isinstance(e, ast.UnaryOp) and isinstance(e.op, ast.Not):
        return not _bool_eval(e.operand, env)
    return env[_canon_atom(e)]


def _canon_atom(e):
    """text of an atomic test with `c == X` / `c != X` written as `X == c` / `X != c` (comparisons commute)"""
    if isinstance(e, ast.Compare) and len(e.ops) == 1 and isinstance(e.ops[0], (ast.Eq, ast.NotEq)):
        l, r = e.left, e.comparators[0]
        l_const = isinstance(l, ast.Constant) or (isinstance(l, ast.Attribute) and str(norm(l)).split(".")[0][:1].isupper())
        r_const = isinstance(r, ast.Constant) or (isinstance(r, ast.Attribute) and str(norm(r)).split(".")[0][:1].isupper())
        if l_const and not r_const:
            return f"{str(norm(r))} {'==' if isinstance(e.ops[0], ast.Eq) else '!='} {str(norm(l))}"
    return str(norm(e))


def _atoms(e, acc):
    if isinstance(e, ast.BoolOp):
        for v in e.values:
            _atoms(v, acc)
    elif isinstance(e, ast.UnaryOp) and isinstance(e.op, ast.Not):
        _atoms(e.operand, acc)
    else:
        acc.add(_canon_atom(e))
    return acc


def facts_at(mod, fn, node):
    """(test, truth) pairs known at `node` from its enclosing if-branches and from earlier `if T: return / raise / continue` statements of the
    enclosing blocks (flow-insensitive to reassignments of the names involved: callers use it for names assigned once)."""
    facts = []
    cur = node
    while cur is not fn and cur is not None:
        pp = mod.parents.get(cur)
        if isinstance(pp, ast.If) and cur is not pp.test:
            facts.append((pp.test, cur in pp.body))
        for fld in ("body", "orelse"):
            blk = getattr(pp, fld, None)
            if isinstance(blk, list) and cur in blk:
                for st in blk[: blk.index(cur)]:
                    if isinstance(st, ast.If) and st.body and isinstance(st.body[-1], (ast.Return, ast.Raise, ast.Continue)) and not st.orelse:
                        facts.append((st.test, False))
        cur = pp
    return facts


def possible(facts, atom_text):
    """Is `atom_text` (an atom of the tests) true under some assignment that satisfies all facts? Atoms are independent booleans, except that
    `X == c` / `X != c` / `X > c` style atoms over the same X are not related (conservative: more assignments are possible)."""
    import itertools

    atoms = {atom_text}
    for t, _ in facts:
        _atoms(t, atoms)
    atoms = sorted(atoms)
    if len(atoms) > 14:
        return True
    for vals in itertools.product((False, True), repeat=len(atoms)):
        env = dict(zip(atoms, vals))
        if not env[atom_text]:
            continue
        if all(_bool_eval(t, env) == truth for t, truth in facts):
            return True
    return False


def rule_dimension_minus_one_divisor(repo, rep):
    """(z) a quotient whose divisor is `<dimension> - 1` (align_corners scaling) is evaluated only where the dimension cannot be 1: the facts of
    the enclosing branches and of earlier returning tests, taken as a propositional formula, must exclude `<dimension> == 1`."""
    rep.clause("C13-z", "divisors of the form <tensor dimension> - 1 in the constraint checkers are reached only where the enclosing tests exclude a dimension of 1 (NumPy yields nan / inf, int() of it raises)")
    n = 0
    for mn in ("tflite_model_semantic", "tflite_supported_operators"):
        m = repo.mod(mn)
        for q, fn in m.functions.items():
            if "." in q and q.split(".")[0] in m.functions:
                continue
            for x in walk_no_nested(fn):
                if not (isinstance(x, ast.BinOp) and isinstance(x.op, (ast.Div, ast.FloorDiv, ast.Mod))):
                    continue
                d = x.right
                if not (isinstance(d, ast.BinOp) and isinstance(d.op, ast.Sub) and isinstance(d.right, ast.Constant) and d.right.value == 1 and isinstance(d.left, (ast.Name, ast.Subscript, ast.Attribute))):
                    continue
                n += 1
                dim = str(norm(d.left))
                facts = facts_at(m, fn, x)
                bad_ = possible(facts, f"{dim} == 1")
                rep.check(not bad_, "C13-z", f"{m.rel}:{q}", f"`{str(norm(x))}` is evaluated only where `{dim} == 1` is excluded",
                          f"the tests that hold here ({'; '.join(('' if t_ else 'not ') + str(norm(e_))[:60] for e_, t_ in facts) or 'none'}) admit `{dim} == 1`: the quotient is nan or inf and `int()` of it raises "
                          "(demonstrated: RESIZE_BILINEAR with align_corners and an IFM of height 1 and width 8: `ValueError: cannot convert float NaN to integer`)")
    rep.floor("C13-z", 2)


def rule_stale_ofm_alias(repo, rep):
    """(aa) a rewrite that empties the producer list of the handed operator's OFM (`ofm.ops = []`, to append the replacement operators) must do it
    for the tensor that is the operator's OFM when the replacements are created: no call that replaces the operator's output
    (`<op>.set_output_tensor(...)`, directly or in a callee that takes the operator) may come between the alias binding and the end of the
    function. Otherwise the old producer stays in the list of the new OFM and the un-rewritten operator is visited again."""
    rep.clause("C13-aa", "a local alias of the handed operator's OFM whose producer list is reset is bound after the last statement that can replace the operator's output")
    mods = [repo.mod(n) for n in ("tflite_graph_optimiser", "graph_optimiser_util", "lut", "softmax", "lstm")]
    repl = set()
    for m in mods:
        for q, fn in m.functions.items():
            if fn.args.args:
                p0 = fn.args.args[0].arg
                if any(isinstance(c, ast.Call) and isinstance(c.func, ast.Attribute) and c.func.attr == "set_output_tensor" and str(norm(c.func.value)) == p0 for c in ast.walk(fn)):
                    repl.add(q)
    n = 0
    for m in mods:
        for q, fn in m.functions.items():
            if not fn.args.args or ("." in q and q.split(".")[0] in m.functions):
                continue
            p0 = fn.args.args[0].arg
            aliases = [(st.lineno, st.targets[0].id) for st in walk_no_nested(fn) if isinstance(st, ast.Assign) and isinstance(st.targets[0], ast.Name) and str(norm(st.value)) in (f"{p0}.ofm", f"{p0}.outputs[0]")]
            resets = [(st.lineno, str(norm(st.targets[0].value))) for st in walk_no_nested(fn) if isinstance(st, ast.Assign) and isinstance(st.targets[0], ast.Attribute) and st.targets[0].attr == "ops"
                      and isinstance(st.value, ast.List) and not st.value.elts]
            calls = [(c.lineno, str(norm(c))[:50]) for c in walk_no_nested(fn) if isinstance(c, ast.Call) and ((isinstance(c.func, ast.Name) and c.func.id in repl and c.args and str(norm(c.args[0])) == p0)
                                                                                                              or (isinstance(c.func, ast.Attribute) and c.func.attr == "set_output_tensor" and str(norm(c.func.value)) == p0))]
            for al, an in aliases:
                for rl, rbase in resets:
                    if rbase != an or rl < al:
                        continue
                    n += 1
                    later = [c for c in calls if c[0] > rl]
                    rep.check(not later, "C13-aa", f"{m.rel}:{q}", f"`{an}.ops = []` resets the producers of the tensor that is still `{p0}`'s OFM at the end of the function",
                              f"`{later[0][1] if later else ''}` (later in the function) gives `{p0}` another output tensor: its producer list keeps `{p0}` itself, the replacement operators are appended next to it and the "
                              "un-rewritten operator is scheduled (demonstrated: CONCATENATION with a fused RELU: AssertionError in pass_packing.build_pass)")
    if n < 1:
        raise AnalysisError("no reset of an OFM alias' producer list found (expected rewrite_concat_ops)")
    rep.floor("C13-aa", 1)


def rule_bias_range_agreement(repo, rep, rule="C13-ad"):
    """(ad) the supported-operator check on int64 biases admits exactly the values the encoder can pack: encode_bias asserts the signed 40-bit
    range -(2^39) <= b < 2^39. constraint_bias_40bit is interpreted on probe values around both ends."""
    from ..absint import AList, AObj, Interp, Unknown

    rep.clause(rule, "constraint_bias_40bit accepts exactly the signed 40-bit range that weight_compressor.encode_bias asserts (a value it lets through aborts the compilation in the encoder)")
    so = repo.mod("tflite_supported_operators")
    enc = repo.mod("weight_compressor").func("encode_bias")
    rng = [a for a in ast.walk(enc) if isinstance(a, ast.Assert) and "bias" in str(norm(a.test)) and "<<" in str(norm(a.test))]
    if len(rng) != 1 or str(norm(rng[0].test)).replace(" ", "") not in ("-(1<<40-1)<=bias<1<<40-1", "-(1<<39)<=bias<1<<39", "-(1<<(40-1))<=bias<(1<<(40-1))"):
        raise AnalysisError(f"encode_bias: signed 40-bit range assertion not recognised ({[str(norm(a.test)) for a in rng]})")
    it = Interp(repo, so)
    probes = [(1 << 39) - 1, 1 << 39, (1 << 40) - 1, 1 << 40, -(1 << 39), -(1 << 39) - 1, -5, 0, 12345]
    wrong = []
    for v in probes:
        def mk(v=v):
            return [AObj("op", {"bias": AObj("bias", {"dtype": Unknown("DataType.int64"), "values": AList([v]), "name": "b"})})], {}

        ps = [p for p in it.run("TFLiteSupportedOperators.constraint_bias_40bit", mk) if p.kind == "return"]
        if not ps or not all(isinstance(p.value, tuple) and isinstance(p.value[0], bool) for p in ps):
            raise AnalysisError(f"constraint_bias_40bit not evaluable for {v}")
        accepted = all(p.value[0] for p in ps)
        if accepted != (-(1 << 39) <= v < (1 << 39)):
            wrong.append((v, accepted))
    rep.check(not wrong, rule, "ethosu/vela/tflite_supported_operators.py:TFLiteSupportedOperators.constraint_bias_40bit", f"accepts b iff -(2^39) <= b < 2^39 ({len(probes)} probes)",
              f"{[(v_, 'accepted' if a_ else 'rejected') for v_, a_ in wrong]}: the test counts the bits of the magnitude; a bias in [2^39, 2^40) is placed on the NPU and `encode_bias` asserts "
              "(under python -O the record holds bias - 2^40)")
    rep.floor(rule, 1)


def rule_cpu_pass_move(repo, rep):
    pp = repo.mod("pass_packing")
    f = pp.func("pack_into_passes")
    site = "ethosu/vela/pass_packing.py:pack_into_passes"
    gens = [g for g in ast.walk(f) if isinstance(g, ast.GeneratorExp) and "cpu_ps.ops[0].outputs" in str(norm(g.generators[0].iter))]
    if not gens:
        raise AnalysisError("pack_into_passes: dependency test of the CPU pass move not found")
    for g in gens:
        t = str(norm(g.elt))
        ok = (".ifm2" in t and ".ifm" in t.replace(".ifm2", "")) or ".inputs" in t
        rep.check(ok, "C13-ah", site, f"`{t[:80]}` covers ifm and ifm2 of the next pass",
                  "only one operand of the next pass is tested: a CPU pass whose result is the second operand of a later NPU elementwise pass is moved behind its consumer (AssertionError pred_pass.time < ps.time in build_pass_links)")


def rule_chain_merge_consumers(repo, rep):
    """(aj) A rewrite that merges a chain pre -> mid -> post into `mid` (mid takes pre's input and post's output) makes the two tensors in
    between producer-less for everybody else. It may only go ahead if each of them has exactly one consumer: an early `return` guarded by
    a test of `len(<tensor>.consumer_list)` (or `.consumers()`) for `post.inputs[0]` and `mid.inputs[0]`. Otherwise the second consumer
    reads a tensor nothing produces and verify_graph_health asserts."""
    go = repo.mod("tflite_graph_optimiser")
    n = 0
    for q, fn in go.functions.items():
        outs = [c for c in ast.walk(fn) if isinstance(c, ast.Call) and isinstance(c.func, ast.Attribute) and c.func.attr == "set_output_tensor" and c.args and str(norm(c.args[0])).endswith(".outputs[0]")
                and isinstance(c.func.value, ast.Name)]
        ins = [c for c in ast.walk(fn) if isinstance(c, ast.Call) and isinstance(c.func, ast.Attribute) and c.func.attr == "set_input_tensor" and len(c.args) == 2 and isinstance(c.func.value, ast.Name)
               and (str(norm(c.args[0])).endswith(".inputs[0]") or str(norm(c.args[0])).endswith(".outputs[0]"))]
        for o in outs:
            mid = o.func.value.id
            post = str(norm(o.args[0]))[: -len(".outputs[0]")]
            if post == mid or not any(i.func.value.id == mid for i in ins):
                continue
            # mid was found as the producer of post's input
            found_chain = any(isinstance(a, ast.Assign) and str(norm(a.targets[0])) == mid and str(norm(a.value)).endswith(".inputs[0].ops[0]") for a in ast.walk(fn))
            if not found_chain:
                continue
            n += 1
            tested = set()
            for i in ast.walk(fn):
                if isinstance(i, ast.If) and i.body and isinstance(i.body[-1], ast.Return) and i.lineno < o.lineno:
                    for c in ast.walk(i.test):
                        if isinstance(c, ast.Call) and call_name(c) == "len" and c.args:
                            t = str(norm(c.args[0]))
                            if t.endswith(".consumer_list") or t.endswith(".consumers()"):
                                tested.add(t.rsplit(".", 1)[0])
            need = {f"{post}.inputs[0]", f"{mid}.inputs[0]"}
            # a local that names the tensor (`mid_out = post_op.inputs[0]`) counts as the tensor itself
            local = {a.targets[0].id: str(norm(a.value)) for a in ast.walk(fn) if isinstance(a, ast.Assign) and len(a.targets) == 1 and isinstance(a.targets[0], ast.Name) and str(norm(a.value)) in need}
            tested |= {local[t] for t in tested if t in local}
            missing = {x for x in need if x not in tested}
            rep.check(not missing, "C13-aj", f"ethosu/vela/tflite_graph_optimiser.py:{q}", f"`{mid}` absorbs `{post}` and its own producer only if the tensors in between have one consumer each",
                      f"no single-consumer test for {sorted(missing)} before `{str(norm(o))[:60]}`: a second consumer of the inner tensor is left reading a tensor nothing produces "
                      "(DEQUANTIZE -> EXP -> QUANTIZE with a second QUANTIZE on EXP's output: AssertionError in rewrite_graph.verify_graph_health)")
    if n < 2:
        raise AnalysisError(f"tflite_graph_optimiser: {n} chain merges found")


def rule_optional_strings(repo, rep):
    """(al) string members of option tables are optional in the flatbuffer: the reader stores None for an absent one (VAR_HANDLE without
    `container`). The writer may hand an option attribute to builder.CreateString only under a test that excludes None."""
    tw = repo.mod("tflite_writer")
    n = 0
    for q, fn in tw.functions.items():
        for c in ast.walk(fn):
            if not (isinstance(c, ast.Call) and isinstance(c.func, ast.Attribute) and c.func.attr == "CreateString" and c.args):
                continue
            a = c.args[0]
            if not (isinstance(a, ast.Subscript) and str(norm(a.value)) in ("attrs", "op.attrs")):
                continue
            n += 1
            t = str(norm(a))
            ok = False
            child, cur = c, tw.parents.get(c)
            while cur is not None and cur is not fn:
                if isinstance(cur, ast.If):
                    tt = str(norm(cur.test))
                    in_body = any(child is x for st in cur.body for x in ast.walk(st))
                    in_else = any(child is x for st in cur.orelse for x in ast.walk(st))
                    key = t[t.index("["):]
                    if in_else and (f"{t} is None" in tt or f"attrs.get({key[1:-1]}) is None" in tt):
                        ok = True
                    if in_body and (f"{t} is not None" in tt or f"attrs.get({key[1:-1]}) is not None" in tt or f"isinstance({t}, str)" in tt):
                        ok = True
                child, cur = cur, tw.parents.get(cur)
            rep.check(ok, "C13-al", f"ethosu/vela/tflite_writer.py:{q}", f"`{str(norm(c))[:60]}` is reached only for a present string",
                      f"`{t}` may be None (the member is absent in the source model): TypeError 'non-string passed to CreateString' (VAR_HANDLE with shared_name but no container)")
    if n < 1:
        raise AnalysisError("tflite_writer: no option string is handed to CreateString")


def rule_size_minus_one(repo, rep):
    """(am) SLICE and SPLIT_V take sizes in which -1 means 'the rest of the dimension'. Operation.get_split_inputs_axis turns sizes into
    end offsets; every place that does arithmetic on a value read from a size operand (`size_tens.values[..]`, or a local bound to it)
    is in a function region that also compares that value with -1 - the SPLIT_V branch does, the SLICE branch must (end = begin - 1 makes
    Box.__init__ assert)."""
    opm = repo.mod("operation")
    f = opm.func("Operation.get_split_inputs_axis")
    site = "ethosu/vela/operation.py:Operation.get_split_inputs_axis"
    n = 0
    # branches of the if / elif chain over self.type
    for br in ast.walk(f):
        if not (isinstance(br, ast.If) and "self.type" in str(norm(br.test))):
            continue
        body = ast.Module(body=br.body, type_ignores=[])
        size_names = {a.targets[0].id for a in ast.walk(body) if isinstance(a, ast.Assign) and len(a.targets) == 1 and isinstance(a.targets[0], ast.Name) and "size" in a.targets[0].id and ".values" in str(norm(a.value))}
        size_names |= {t.id for a in ast.walk(body) if isinstance(a, ast.Assign) and isinstance(a.targets[0], ast.Tuple) for t in a.targets[0].elts if isinstance(t, ast.Name) and "size" in t.id}
        uses = []
        for x in ast.walk(body):
            if isinstance(x, ast.BinOp) and isinstance(x.op, (ast.Add, ast.Sub)):
                t = str(norm(x))
                if any(_re.search(rf"\b{nm}\b(\.values)?\[", t) for nm in size_names):
                    uses.append(x)
        if not uses:
            continue
        n += 1
        txt = " ".join(str(norm(c)) for c in ast.walk(body) if isinstance(c, ast.Compare))
        handled = "== -1" in txt or "< 0" in txt or "-1 ==" in txt
        rep.check(handled, "C13-am", site, f"branch `{str(norm(br.test))[:50]}`: a size of -1 (rest of the dimension) is resolved before it enters the offset arithmetic",
                  f"`{str(norm(uses[0]))[:70]}` uses the size as it is: SLICE with begin 2 and size -1 gets end offset 1 < begin: AssertionError in Box.__init__ (start <= end)")
    if n < 1:
        raise AnalysisError("get_split_inputs_axis: no branch does arithmetic on a size operand")


def rule_asserted_constants(repo, rep):
    """(an) Operation.get_split_inputs_axis asserts that the size / axis operands it reads are constants
    (`assert len(t.ops) == 1 and t.ops[0].type == Op.Const`). It runs on operators that passed both checkers, so for every such
    operand a registered constraint of that operator type must reject a non-constant one (`<operand>.values is None`); otherwise a valid
    model with a computed size_splits tensor aborts in the assert instead of staying on the CPU."""
    from .c16 import registrations

    opm = repo.mod("operation")
    f = opm.func("Operation.get_split_inputs_axis")
    so, sem = repo.mod("tflite_supported_operators"), repo.mod("tflite_model_semantic")
    reg = {}
    for m_, cls in ((so, "TFLiteSupportedOperators"), (sem, "TFLiteSemantic")):
        for op_t, names in registrations(repo, m_, cls)[1].items():
            for nm in names:
                reg.setdefault(str(op_t).split(".")[-1], []).append((m_, cls, nm))
    n = 0
    for br in ast.walk(f):
        if not (isinstance(br, ast.If) and "self.type ==" in str(norm(br.test))):
            continue
        op_t = str(norm(br.test)).split("Op.")[-1].strip(") ")
        idx = {}
        for a in br.body:
            if isinstance(a, ast.Assign) and len(a.targets) == 1 and isinstance(a.targets[0], ast.Name) and str(norm(a.value)).startswith("self.inputs["):
                idx[a.targets[0].id] = int(str(norm(a.value))[len("self.inputs["):-1])
        for a in br.body:
            if isinstance(a, ast.Assert) and ".ops[0].type == Op.Const" in str(norm(a.test)):
                nm = str(norm(a.test)).split(".ops[0].type")[0].split()[-1].split("(")[-1]
                if nm not in idx:
                    continue
                i = idx[nm]
                n += 1
                found = False
                for m_, cls, cn in reg.get(op_t, []):
                    g = m_.functions.get(f"{cls}.{cn}")
                    if g is None:
                        continue
                    names_i = {f"op.inputs[{i}]"}
                    for b in ast.walk(g):
                        if isinstance(b, ast.Assign) and len(b.targets) == 1:
                            bv = b.value.body if isinstance(b.value, ast.IfExp) else b.value
                            if isinstance(b.targets[0], ast.Name) and str(norm(bv)) == f"op.inputs[{i}]":
                                names_i.add(b.targets[0].id)
                            if isinstance(b.targets[0], ast.Tuple) and str(norm(b.value)) == "op.inputs" and len(b.targets[0].elts) > i and isinstance(b.targets[0].elts[i], ast.Name):
                                names_i.add(b.targets[0].elts[i].id)
                    txt = " ".join(str(norm(c)) for c in ast.walk(g) if isinstance(c, ast.Compare))
                    if any(f"{x}.values is None" in txt for x in names_i):
                        found = True
                rep.check(found, "C13-an", "ethosu/vela/operation.py:Operation.get_split_inputs_axis", f"{op_t}: operand {i} (`{nm}`), asserted constant here, is required constant by a registered constraint",
                          f"no constraint of {op_t} tests `op.inputs[{i}].values is None`: {op_t} with a computed `{nm}` passes both checkers and aborts in `{str(norm(a))[:70]}`")
    if n < 2:
        raise AnalysisError(f"get_split_inputs_axis: {n} constness assertions on named operands")


def rule_lut_fn_overflow(repo, rep):
    """(ao) the table generators of lut.py evaluate a `math` function (math.exp ..) at every dequantised input code. `math` functions raise
    OverflowError where C returns inf (exp above ~709: int16 input scale 0.05 reaches 1638). Every call of the function parameter is inside
    a `try` that catches OverflowError (or wider)."""
    lu = repo.mod("lut")
    n = 0
    for q, fn in lu.functions.items():
        params = [a.arg for a in fn.args.args]
        if "lut_fn" not in params:
            continue
        for c in ast.walk(fn):
            if isinstance(c, ast.Call) and isinstance(c.func, ast.Name) and c.func.id == "lut_fn":
                n += 1
                ok = False
                cur = lu.parents.get(c)
                while cur is not None and cur is not fn:
                    if isinstance(cur, ast.Try) and any(c is x for st in cur.body for x in ast.walk(st)):
                        for h in cur.handlers:
                            names = {"BaseException"} if h.type is None else {str(norm(x)) for x in ([h.type] if not isinstance(h.type, ast.Tuple) else h.type.elts)}
                            if names & {"OverflowError", "ArithmeticError", "Exception", "BaseException"}:
                                ok = True
                    cur = lu.parents.get(cur)
                rep.check(ok, "C13-ao", f"ethosu/vela/lut.py:{q}", f"`{str(norm(c))[:50]}` is evaluated under a handler for OverflowError",
                          "math.exp raises OverflowError ('math range error') for arguments above ~709: an int16 EXP with input scale 0.05 (range +-1638) aborts the compilation instead of saturating the table entry")
    if n < 1:
        raise AnalysisError("lut.py: no call of a table function parameter found")


def rule_quant_record_complete(repo, rep):
    """(ap) the scaling code reads scale and zero point of every IFM / OFM / weight tensor of an accelerated operator
    (`int(zero_point)`, `zero_point != 0` ..). The flatbuffer allows a record with a scale and no zero point (the reader stores None).
    The semantic check that requires quantisation parameters must reject such a record as well as an absent one: its rejecting test
    mentions `zero_point is None` next to the `quantization is None` case."""
    sem = repo.mod("tflite_model_semantic")
    f = sem.func("TFLiteSemantic.constraint_tens_quant_none_check")
    site = "ethosu/vela/tflite_model_semantic.py:TFLiteSemantic.constraint_tens_quant_none_check"
    tests = [i for i in ast.walk(f) if isinstance(i, ast.If) and any(isinstance(x, ast.Assign) and str(norm(x.targets[0])) == "valid" and str(norm(x.value)) == "False" for x in i.body)]
    if len(tests) != 1:
        raise AnalysisError(f"constraint_tens_quant_none_check: {len(tests)} rejecting tests")
    t = str(norm(tests[0].test))
    alias = {a.targets[0].id: str(norm(a.value)) for a in ast.walk(f) if isinstance(a, ast.Assign) and len(a.targets) == 1 and isinstance(a.targets[0], ast.Name)}
    for k, v in alias.items():
        t = _re.sub(rf"\b{k}\b", v, t)
    rep.check("quantization is None" in t and "zero_point is None" in t, "C13-ap", site, "a quantisation record without a zero point is rejected like an absent record",
              f"`{t[:100]}`: a tensor with a scale but no zero point passes the check; get_ofm_quantization / constraint_weights_limit then evaluate int(None) (PAD with such an OFM, CONV_2D with such weights: TypeError)")


def rule_round8(repo, rep):
    """(aq) the scale check rejects a tensor if *any* of its (per-channel) scales is not finite: `np.isinf(s).any()` or an equivalent with
    the quantifier kept (`not np.isfinite(s).all()`); `not np.isfinite(s).any()` only fires when no entry is finite, and a mixed vector
    reaches quantise_scale(inf). (ar) the reader records one entry per buffer of the file, on every path of the loop (tensors refer to
    buffers by index). (as) the debug database stores (optimised uid, source uid) pairs; every read takes the member it names."""
    from ..cfg import cfg_of as _cfg

    sem = repo.mod("tflite_model_semantic")
    f = sem.func("TFLiteSemantic.constraint_tens_quant_scale")
    txt = " ".join(str(norm(i.test)) for i in ast.walk(f) if isinstance(i, ast.If))
    ok = ("np.isinf(" in txt and ").any()" in txt and "not np.isinf" not in txt) or "not np.isfinite(" in txt and ").all()" in txt or "(~np.isfinite(" in txt and ").any()" in txt
    bad = "not np.isfinite(" in txt and ".any()" in txt and ".all()" not in txt
    rep.check(ok and not bad, "C13-aq", "ethosu/vela/tflite_model_semantic.py:TFLiteSemantic.constraint_tens_quant_scale", "a tensor is rejected if any of its scales is infinite",
              f"`{txt[:120]}`: the test fires only if no scale is finite: CONV_2D with per-channel scales of which some are inf passes and aborts with OverflowError in quantise_scale")
    tr = repo.mod("tflite_reader")
    g = tr.func("TFLiteGraph.__init__")
    loops = [l for l in ast.walk(g) if isinstance(l, ast.For) and "BuffersLength" in str(norm(l.iter))]
    if len(loops) != 1:
        raise AnalysisError("TFLiteGraph.__init__: buffer loop not found")
    c = _cfg(ast.Module(body=loops[0].body, type_ignores=[]))
    app = c.nodes_where(lambda n_: n_.stmt is not None and n_.kind != "test" and not isinstance(n_.stmt, (ast.If, ast.For, ast.While)) and "self.buffers.append(" in str(norm(n_.stmt)))
    rep.check(bool(app) and not c.path_avoiding(0, 1, app), "C13-ar", "ethosu/vela/tflite_reader.py:TFLiteGraph.__init__", "every buffer of the file gets an entry in self.buffers (all paths of the loop body append)",
              "a path through the loop body records nothing: every later buffer index shifts down by one; parse_tensor raises ValueError / IndexError (a file with a zero-length buffer, as TF >= 2.11 writes for element-less constants)")
    dd = repo.mod("debug_database")
    stores = [a for q, fn in dd.functions.items() for a in ast.walk(fn) if isinstance(a, ast.Assign) and len(a.targets) == 1 and isinstance(a.targets[0], ast.Subscript) and str(norm(a.targets[0].value)).endswith("_optimisedUID") and isinstance(a.value, ast.Tuple)]
    if not stores:
        raise AnalysisError("debug_database: no store into _optimisedUID")
    layouts = {tuple(str(norm(e)) for e in a.value.elts) for a in stores}
    if len(layouts) != 1:
        raise AnalysisError(f"debug_database: _optimisedUID layouts {layouts}")
    layout = layouts.pop()
    n = 0
    for q, fn in dd.functions.items():
        for a in ast.walk(fn):
            if isinstance(a, ast.Assign) and len(a.targets) == 1 and isinstance(a.targets[0], ast.Name) and isinstance(a.value, ast.Subscript) and isinstance(a.value.value, ast.Subscript) \
                    and str(norm(a.value.value.value)).endswith("_optimisedUID") and isinstance(a.value.slice, ast.Constant):
                nm = a.targets[0].id
                if nm in layout:
                    n += 1
                    rep.check(layout.index(nm) == a.value.slice.value, "C13-as", f"ethosu/vela/debug_database.py:{q}", f"`{str(norm(a))}` reads member {layout.index(nm)} of the stored pair {layout}",
                              f"`{nm}` is read from position {a.value.slice.value}, the pair is stored as {layout}: an optimised-table id is recorded as a source id; print_performance (--verbose-performance) raises KeyError")
    if n < 1:
        raise AnalysisError("debug_database: no named read of an _optimisedUID member")


_OPTION_SUBSCRIPT_EXEMPT = {
    # option members whose absence makes the operator meaningless: a control-flow operator needs the indices of the subgraphs it calls
    "cond_subgraph_index": "WHILE without its options table calls nothing (invalid input)", "body_subgraph_index": "as cond_subgraph_index",
    "init_subgraph_index": "CALL_ONCE without its options table calls nothing (invalid input)",
    "then_subgraph_index": "IF without its options table calls nothing (invalid input)", "else_subgraph_index": "as then_subgraph_index",
}


def rule_option_members_optional(repo, rep):
    """(au) the options table of an operator is optional in the flatbuffer; OptionsSerializer.deserialize then fills none of the members and
    lists them in attribute_read_error. In parse_operator a member of `op.attrs` is therefore read with .get() or under a membership test
    (`"stride_w" in op.attrs` covers the members that come with it); a bare subscript raises KeyError for an operator without options
    (DEPTHWISE_CONV_2D without DepthwiseConv2DOptions), which is not among the errors the reader converts into a Vela error."""
    tr = repo.mod("tflite_reader")
    f = tr.func("TFLiteSubgraph.parse_operator")
    site = "ethosu/vela/tflite_reader.py:TFLiteSubgraph.parse_operator"
    stored = set()
    n = 0
    for x in sorted((x for x in ast.walk(f) if isinstance(x, ast.Subscript) and str(norm(x.value)) == "op.attrs" and isinstance(x.slice, ast.Constant) and isinstance(x.slice.value, str)), key=lambda x: (x.lineno, x.col_offset)):
        k = x.slice.value
        if isinstance(x.ctx, ast.Store):
            stored.add(k)
            continue
        if k in stored or k == "attribute_read_error":
            continue
        n += 1
        guarded = False
        cur = tr.parents.get(x)
        child = x
        while cur is not None and cur is not f:
            tests = []
            if isinstance(cur, ast.If) and any(child is y for st in cur.body for y in ast.walk(st)):
                tests.append(cur.test)
            if isinstance(cur, ast.BoolOp) and isinstance(cur.op, ast.And) and child in cur.values:
                tests.extend(cur.values[: cur.values.index(child)])
            for t in tests:
                if " in op.attrs" in str(norm(t)) and "not in" not in str(norm(t)):
                    guarded = True
                # `op.attrs.get('<k>') == <value other than None>` holds only if the member is there
                for cmp_ in ast.walk(t):
                    if isinstance(cmp_, ast.Compare) and len(cmp_.ops) == 1 and isinstance(cmp_.ops[0], ast.Eq) and str(norm(cmp_.left)).replace('"', "'") == f"op.attrs.get('{k}')" and str(norm(cmp_.comparators[0])) != "None":
                        guarded = True
            child, cur = cur, tr.parents.get(cur)
        if k in _OPTION_SUBSCRIPT_EXEMPT and not guarded:
            rep.ok("C13-au", site, f"op.attrs['{k}']", "reviewed: " + _OPTION_SUBSCRIPT_EXEMPT[k])
            continue
        rep.check(guarded, "C13-au", site, f"`op.attrs['{k}']` is read under a membership test (or with .get)",
                  f"bare subscript: an operator without an options table has no '{k}': KeyError out of the reader (DEPTHWISE_CONV_2D without options)")
    if n < 5:
        raise AnalysisError(f"parse_operator: {n} option member reads")


def rule_optional_quantization(repo, rep):
    """(av) NpuFeatureMap.quantization is Optional (tensors of TRANSPOSE, ARG_MAX, SHAPE are exempt from the 'must have quantisation' check;
    int32 feature maps normally have none). The default branch of generate_ofm_scaling_for_pooling - the one every pooling-type operator
    without rescale / fused quantise / LUT activation reaches, the no-op average pools of TRANSPOSE among them - may dereference the records
    only under a None test of the record itself."""
    m = repo.mod("register_command_stream_generator")
    f = m.func("generate_ofm_scaling_for_pooling")
    site = "ethosu/vela/register_command_stream_generator.py:generate_ofm_scaling_for_pooling"
    from ..exprnorm import conjuncts

    alias = {a.targets[0].id for a in f.body if isinstance(a, ast.Assign) and len(a.targets) == 1 and isinstance(a.targets[0], ast.Name) and isinstance(a.value, ast.Attribute) and a.value.attr == "quantization"}
    if not alias:
        raise AnalysisError("generate_ofm_scaling_for_pooling: quantisation aliases not found")
    n = 0
    for i in ast.walk(f):
        if isinstance(i, ast.If):
            cj = conjuncts(i.test)
            texts = [str(norm(c)) for c in cj]
            for k, c in enumerate(cj):
                for x in ast.walk(c):
                    if isinstance(x, ast.Attribute) and isinstance(x.value, ast.Name) and x.value.id in alias:
                        n += 1
                        nm = x.value.id
                        ok = any(t in (f"{nm} is not None", nm) for t in texts[:k])
                        rep.check(ok, "C13-av", site, f"`{nm}.{x.attr}` in a branch condition is read under `{nm} is not None`",
                                  f"`{texts[k][:60]}` dereferences `{nm}` (= <fm>.quantization, Optional): TRANSPOSE of a tensor without quantisation parameters (int32, or int8 without a record) aborts with AttributeError: 'NoneType' object has no attribute 'scale_f32'")
    if n < 2:
        raise AnalysisError(f"generate_ofm_scaling_for_pooling: {n} dereferences in branch conditions")


def rule_input_holes(repo, rep):
    """nn_graph's own traversals (`get_all_ops`, `visit_op` of `update_consumers`, `print_graph_with_tensors` ..) skip None entries of
    `op.inputs` (an operator without its optional operand keeps the slot). Sibling agreement: every loop in nn_graph over `<op>.inputs`
    that dereferences the element, or hands it to a function that does not itself test it, has a None/truth test in the loop."""
    m = repo.mod("nn_graph")
    n = 0
    for q, fn in m.functions.items():
        tolerant = set()
        for i in ast.walk(fn):
            if isinstance(i, ast.FunctionDef) and i.args.args:
                a0 = i.args.args[0].arg
                if re.search(rf"\b{a0} is None\b|\bnot {a0}\b", " ".join(str(norm(x)) for x in i.body[:1])):
                    tolerant.add(i.name)
        # names that stand for `op.inputs`: bound by `for <label>, <c> in ((.., op.inputs), (.., op.outputs))`
        carriers = set()
        for node in ast.walk(fn):
            if isinstance(node, ast.For) and isinstance(node.target, ast.Tuple) and isinstance(node.iter, (ast.Tuple, ast.List)):
                for row in node.iter.elts:
                    if isinstance(row, (ast.Tuple, ast.List)) and len(row.elts) == len(node.target.elts):
                        for tv, e in zip(node.target.elts, row.elts):
                            if isinstance(tv, ast.Name) and re.search(r"\bop\.inputs$", str(norm(e))):
                                carriers.add(tv.id)
        for node in ast.walk(fn):
            if not isinstance(node, ast.For):
                continue
            it, tgt = node.iter, node.target
            if isinstance(it, ast.Call) and call_name(it) == "enumerate" and it.args and isinstance(tgt, ast.Tuple) and len(tgt.elts) == 2:
                it, tgt = it.args[0], tgt.elts[1]
            if not isinstance(tgt, ast.Name):
                continue
            t = str(norm(it))
            if not (re.search(r"\bop\.inputs$", t) or (isinstance(it, ast.Name) and it.id in carriers)):
                continue
            v = tgt.id
            n += 1
            deref = [x for b in node.body for x in ast.walk(b) if isinstance(x, ast.Attribute) and isinstance(x.value, ast.Name) and x.value.id == v]
            txt = " ".join(str(norm(b)) for b in node.body)
            guarded = bool(re.search(rf"\b{v} is not None\b|\b{v} is None\b|\bnot {v}\b|\b{v} and \b|\bif {v}\b", txt))
            site = f"ethosu/vela/nn_graph.py:{q}"
            if deref and not guarded:
                rep.bad("C13-aw", site, "elements of `op.inputs` are dereferenced only under a None test",
                        f"`{v}.{deref[0].attr}` for `{v}` in `{t}` without a None test: a CONV_2D without a bias keeps a None slot "
                        "(--subgraph-output: AttributeError 'NoneType' object has no attribute 'values')")
            else:
                rep.ok("C13-aw", site, f"`for {v} in {t}`", "dereferences are under a None/truth test" if deref else "the element is only passed on")
    if n < 3:
        raise AnalysisError(f"nn_graph: only {n} loops over op.inputs")


def rule_saturating_stand_in(repo, rep):
    """(bd) finite_lut_value replaces an overflowing table entry by a large finite stand-in. The int16 table generator multiplies the value
    by the output scaling (65536 / output range) and subtracts two such products: the stand-in must be a literal whose product with any
    scaling below 1e100 is still finite (|c| <= 1e200), otherwise inf - inf = nan reaches int() (ValueError during graph optimisation)."""
    fn = repo.mod("lut").func("finite_lut_value")
    site = "ethosu/vela/lut.py:finite_lut_value"
    rets = [s_ for s_ in ast.walk(fn) if isinstance(s_, ast.Return)]
    consts = []
    for r in rets:
        for c in ast.walk(r):
            if isinstance(c, ast.Call) and call_name(c) in ("min", "max"):
                for a in c.args:
                    if not (isinstance(a, ast.Call) or (isinstance(a, ast.Name))):
                        consts.append(a)
    if len(consts) < 2:
        raise AnalysisError(f"finite_lut_value: {len(consts)} clamp bounds found")
    for a in consts:
        v = try_fold(a, default=None)
        ok = isinstance(v, (int, float)) and 1e30 <= abs(v) <= 1e200
        rep.check(ok, "C13-bd", site, f"clamp bound `{str(norm(a))}` is a literal with 1e30 <= |c| <= 1e200",
                  f"folds to {v!r}: the product with the int16 output scaling overflows to inf, inf - inf is nan and int(nan) aborts the compilation (int16 EXP with an input range beyond 709)")


def rule_driver_created_operators(repo, rep):
    """`tflite_optimise_graph` runs the supported-operator check as a rewrite step; operators created later by rewrite callbacks derive
    from an operator that passed it. An operator created in the driver's own body takes its operands from `sg.output_tensors` - tensors
    whose data type no check has bounded (SHAPE with out_type INT64 folded to a constant that is a graph output). Typestate: every name
    bound to `create_*()` / `Operation()` in the driver body gets `run_on_npu` assigned from `is_operator_supported(<that name>)`."""
    m = repo.mod("tflite_graph_optimiser")
    fn = m.func("tflite_optimise_graph")
    if fn is None:
        raise AnalysisError("tflite_graph_optimiser.tflite_optimise_graph not found")
    created = {}
    for st in ast.walk(fn):
        if isinstance(st, ast.Assign) and len(st.targets) == 1 and isinstance(st.targets[0], ast.Name) and isinstance(st.value, ast.Call):
            cn = call_name(st.value) or ""
            leaf = cn.split(".")[-1]
            if leaf == "Operation" or (leaf.startswith("create_") and not leaf.endswith("_tensor") and "tensor" not in leaf and "const" not in leaf):
                created[st.targets[0].id] = st
    checked = set()
    for st in ast.walk(fn):
        if isinstance(st, ast.Assign) and len(st.targets) == 1:
            t = st.targets[0]
            if isinstance(t, ast.Attribute) and t.attr == "run_on_npu" and isinstance(t.value, ast.Name) and isinstance(st.value, ast.Call):
                if (call_name(st.value) or "").endswith("is_operator_supported") and st.value.args and str(norm(st.value.args[0])) == t.value.id:
                    checked.add(t.value.id)
    for name, st in sorted(created.items()):
        site = "ethosu/vela/tflite_graph_optimiser.py:tflite_optimise_graph"
        rep.check(name in checked, "C13-ax", site, f"`{name} = {norm(st.value)}` is followed by `{name}.run_on_npu = ..is_operator_supported({name})`",
                  f"`{name}` is created for the NPU behind the supported-operator check with operands taken from the subgraph's outputs: an int64 constant "
                  "(SHAPE with out_type INT64, folded, as a graph output) ends in KeyError 64 in find_block_config")
    if not created:
        rep.ok("C13-ax", "ethosu/vela/tflite_graph_optimiser.py:tflite_optimise_graph", "no operator is created in the driver body", "nothing to submit")


def rule_slice_offsets_bounded(repo, rep):
    """`TFLiteSemantic._get_slice_offsets` turns the begin / end operands of STRIDED_SLICE into the offsets that
    `Operation.get_split_inputs_axis` hands on as the read window; nothing between the two looks at them again. The function is
    interpreted (engine interpreter, the repo's own source) for positions below -dim, inside, and above dim: every result lies in
    [0, dim] and an in-range position keeps its meaning."""
    from ..absint import AList, AObj, Interp

    sem = repo.mod("tflite_model_semantic")
    if sem.func("TFLiteSemantic._get_slice_offsets") is None:
        raise AnalysisError("tflite_model_semantic.TFLiteSemantic._get_slice_offsets not found")
    it = Interp(repo, sem)
    dim = 8
    wrong = []
    pts = 0
    for is_begin in (True, False):
        for v in (-100, -9, -8, -3, 0, 5, 8, 9, 100):
            tens = AObj("offset_tens", {"values": AList([0, v, 0, 0])}, cls="Tensor")
            ps = [p_ for p_ in it.run("TFLiteSemantic._get_slice_offsets", lambda tens=tens, is_begin=is_begin: ([AList([1, dim, dim, 4]), tens, 0, is_begin], {})) if p_.kind == "return"]
            if len(ps) != 1 or not isinstance(ps[0].value, AList) or not isinstance(ps[0].value.items[1], int):
                raise AnalysisError(f"_get_slice_offsets not evaluable for position {v}: {[(p_.kind, p_.value) for p_ in ps][:2]}")
            got = ps[0].value.items[1]
            want = max(0, min(v + dim if v < 0 else v, dim))
            pts += 1
            if got != want:
                wrong.append((("begin" if is_begin else "end"), v, got, want))
    rep.check(not wrong, "C13-ay", "ethosu/vela/tflite_model_semantic.py:TFLiteSemantic._get_slice_offsets",
              f"begin / end positions are normalised into [0, dim] ({pts} points, dim {dim})",
              (f"{wrong[0][0]} = {wrong[0][1]} in a dimension of {dim} becomes offset {wrong[0][2]} (TFLite clamps: {wrong[0][3]}): the offset is used as a read window as it is "
               "(STRIDED_SLICE with begin -100: AssertionError in Tensor.address_for_coordinate)") if wrong else "")


def rule_file_type_dispatch(repo, rep):
    """model_reader.read_model decides which reader parses the input; vela.process decides which writer runs. Both look at the file name. The
    two decisions are compared as predicates: for each extension literal, (how the name is tested, whether the tested string is case
    folded). A reader that accepts `net.TFLITE` with a driver that does not writes no output and returns status 0."""
    def signatures(mname, q):
        m = repo.mod(mname)
        f = m.func(q)
        if f is None:
            raise AnalysisError(f"{mname}.{q} not found")
        loc = {}
        for a in ast.walk(f):
            if isinstance(a, ast.Assign) and len(a.targets) == 1 and isinstance(a.targets[0], ast.Name):
                loc.setdefault(a.targets[0].id, []).append(a.value)

        def folded(e):
            seen = 0
            while isinstance(e, ast.Name) and len(loc.get(e.id, [])) == 1 and seen < 3:
                e = loc[e.id][0]
                seen += 1
            return any(isinstance(c, ast.Call) and isinstance(c.func, ast.Attribute) and c.func.attr in ("lower", "casefold", "upper") for c in ast.walk(e))

        out = {}
        for i in ast.walk(f):
            if not isinstance(i, ast.If):
                continue
            for c in ast.walk(i.test):
                if isinstance(c, ast.Call) and isinstance(c.func, ast.Attribute) and c.func.attr == "endswith" and c.args and isinstance(c.args[0], ast.Constant) and c.args[0].value in (".tflite", ".tosa"):
                    out[c.args[0].value] = ("endswith", folded(c.func.value))
                if isinstance(c, ast.Compare) and len(c.ops) == 1 and isinstance(c.ops[0], (ast.Eq, ast.In)):
                    sides = [c.left] + c.comparators
                    lits = [x.value for sd in sides for x in ast.walk(sd) if isinstance(x, ast.Constant) and x.value in (".tflite", ".tosa", "tflite", "tosa")]
                    for lit in lits:
                        other = [sd for sd in sides if not any(isinstance(x, ast.Constant) and x.value == lit for x in ast.walk(sd))]
                        out["." + lit.lstrip(".")] = ("equals", any(folded(o) for o in other))
        return out

    rd = signatures("model_reader", "read_model")
    wr = signatures("vela", "process")
    if not rd or not wr:
        raise AnalysisError(f"file-type dispatch not found (reader {rd}, driver {wr})")
    for ext in sorted(set(rd) | set(wr)):
        a, b = rd.get(ext), wr.get(ext)
        if a is None or b is None:
            continue
        rep.check(a[1] == b[1], "C13-az", "ethosu/vela/model_reader.py:read_model / ethosu/vela/vela.py:process", f"`{ext}`: reader ({a[0]}, case folded: {a[1]}) and driver ({b[0]}, case folded: {b[1]}) accept the same names",
                  f"`{ext}`: the reader folds case: {a[1]}, the driver: {b[1]}: a file named net{ext.upper()} is read and compiled but no output model is written (status 0; with --enable-debug-db FileNotFoundError)")


def rule_subgraph_attr_shape(repo, rep):
    """`attrs["subgraph"]` of control-flow operators is iterated by live_range / the writer (`for sg in op.attrs["subgraph"]`). Every store
    into `<op>.attrs["subgraph"]` in the readers holds a tuple / list display (not a bare subgraph object), as all sibling stores do."""
    n = 0
    for mname in ("tflite_reader", "tosa_reader", "extract_npu_subgraphs"):
        try:
            m = repo.mod(mname)
        except Exception:
            continue
        for q, fn in m.functions.items():
            for a in ast.walk(fn):
                if isinstance(a, ast.Assign) and isinstance(a.targets[0], ast.Subscript) and str(norm(a.targets[0].value)).endswith(".attrs") and isinstance(a.targets[0].slice, ast.Constant) \
                        and a.targets[0].slice.value == "subgraph":
                    if mname == "extract_npu_subgraphs":
                        continue  # the NPU call operator: read as a single subgraph by its own consumers (CustomNpuOp is skipped by the iterating readers)
                    n += 1
                    v = a.value
                    ok = isinstance(v, (ast.Tuple, ast.List)) or (isinstance(v, ast.Call) and (call_name(v) or "") in ("tuple", "list"))
                    rep.check(ok, "C13-ba", f"ethosu/vela/{mname}.py:{q}", f"`{norm(a)[:90]}` stores a container of subgraphs",
                              f"`{norm(a)[:90]}`: live_range.extract_live_ranges_from_cascaded_passes iterates the attribute: TypeError 'Subgraph' object is not iterable for a model with this operator")
    if n < 2:
        raise AnalysisError(f"readers: {n} stores into attrs['subgraph'] found")


def rule_quantize_fold_elements(repo, rep):
    """Sibling agreement inside tflite_graph_optimiser.optimise_quantize: the requantisation branch iterates `input_values.flatten()` and
    restores the shape; the float branch must do the same. `for val in input_values:` yields rows for rank >= 2: `round_away_zero(row)`
    tests `f < 0` on an array (ValueError: truth value of an array is ambiguous) for [1, 4] or [1, 2, 2, 4] constants."""
    go = repo.mod("tflite_graph_optimiser")
    f = go.func("optimise_quantize")
    site = "ethosu/vela/tflite_graph_optimiser.py:optimise_quantize"
    if f is None:
        raise AnalysisError("tflite_graph_optimiser.optimise_quantize not found")
    loops = [l for l in ast.walk(f) if isinstance(l, ast.For) and "input_values" in str(norm(l.iter))]
    if len(loops) < 2:
        raise AnalysisError(f"optimise_quantize: {len(loops)} loops over the input values")
    for l in loops:
        it_ = str(norm(l.iter))
        flat = any(k in it_ for k in (".flatten()", ".flat", ".ravel()", "np.nditer(", ".reshape(-1)"))
        rep.check(flat, "C13-bc", site, f"`for {norm(l.target)} in {it_}` iterates scalar elements",
                  f"`for {norm(l.target)} in {it_}` iterates the first axis: a float32 constant of shape [1, 4] hands a row to round_away_zero (ValueError: the truth value of an array with more than one element is ambiguous)")
    shp = [a for a in ast.walk(f) if (isinstance(a, ast.Assign) and str(norm(a.targets[0])).endswith(".values.shape") and "input_values.shape" in str(norm(a.value)))
           or (isinstance(a, ast.Call) and isinstance(a.func, ast.Attribute) and a.func.attr == "reshape" and "input_values.shape" in str(norm(a)))]
    rep.check(len(shp) >= len(loops), "C13-bc", site, f"the folded values take the input's shape in each of the {len(loops)} branches", f"{len(shp)} of {len(loops)} branches restore `input_values.shape`")


def rule_pre_check_shape_rank(repo, rep):
    """(be) the passes that run before supported_operator_check see every operator the semantic checker let through, of any rank (the rank
    and shape constraints belong to the supported-operator check). In those rewrites a constant index into a tensor's shape
    (`<t>.shape[k]`) is taken only under a test of that shape's length, or through full_shape()."""
    go = repo.mod("tflite_graph_optimiser")
    tg = go.func("tflite_optimise_graph")
    lists = {st.targets[0].id: st.value for st in ast.walk(tg) if isinstance(st, ast.Assign) and isinstance(st.targets[0], ast.Name) and isinstance(st.value, ast.List)}
    passes = []
    for c in sorted((c_ for c_ in ast.walk(tg) if isinstance(c_, ast.Call) and (call_name(c_) or "").endswith("rewrite_graph_pre_order")), key=lambda c_: c_.lineno):
        kw = {k.arg: k.value for k in c.keywords}
        oplist = c.args[4] if len(c.args) > 4 else kw.get("op_rewrite_list")
        if isinstance(oplist, ast.Name):
            oplist = lists.get(oplist.id)
        passes.append([e.id for e in oplist.elts if isinstance(e, ast.Name)] if isinstance(oplist, ast.List) else [])
    pre = []
    for names in passes:
        if "supported_operator_check" in names:
            break
        pre += names
    else:
        raise AnalysisError("tflite_optimise_graph: the pass holding supported_operator_check was not found")
    if len(pre) < 2:
        raise AnalysisError(f"passes before the supported-operator check: {pre}")
    sem_init = repo.mod("tflite_model_semantic").func("TFLiteSemantic.__init__")
    out_not_scalar = any(isinstance(c_, ast.Call) and str(norm(c_.func)) == "self.generic_constraints.append" and str(norm(c_.args[0])).endswith("constraint_tens_output_scalar") for c_ in ast.walk(sem_init))
    n = 0
    for nm in pre:
        fn = go.functions.get(nm)
        if fn is None:
            raise AnalysisError(f"rewrite {nm} not found")
        site = f"ethosu/vela/tflite_graph_optimiser.py:{nm}"
        for x in ast.walk(fn):
            if not (isinstance(x, ast.Subscript) and isinstance(x.value, ast.Attribute) and x.value.attr == "shape" and isinstance(x.ctx, ast.Load)):
                continue
            k = try_fold(x.slice, default=None)
            if not isinstance(k, int):
                continue
            base = str(norm(x.value))
            n += 1
            guarded = False
            cur = x
            while cur is not fn and cur is not None:
                pp = go.parents.get(cur)
                tests = []
                if isinstance(pp, (ast.If, ast.IfExp)) and (cur in getattr(pp, "body", []) or cur is getattr(pp, "body", None)):
                    tests.append(pp.test)
                if isinstance(pp, ast.BoolOp) and isinstance(pp.op, (ast.And, ast.Or)) and cur in pp.values:
                    tests += pp.values[:pp.values.index(cur)]
                for t in tests:
                    if f"len({base})" in str(norm(t)):
                        guarded = True
                cur = pp
            # an early return on the rank earlier in the function also counts
            for i_ in ast.walk(fn):
                if isinstance(i_, ast.If) and i_.lineno < x.lineno and f"len({base})" in str(norm(i_.test)) and i_.body and isinstance(i_.body[-1], ast.Return):
                    guarded = True
            if not guarded and k in (0, -1) and out_not_scalar:
                # the semantic checker rejects operators with a scalar output ('Output tensors cannot be scalar', generic): an operator that is
                # still marked run_on_npu has an output of rank >= 1
                names_ofm = {"ofm", "op.ofm", "op.outputs[0]"}
                under_npu = False
                cur = x
                while cur is not fn and cur is not None:
                    pp = go.parents.get(cur)
                    if isinstance(pp, ast.If) and "run_on_npu" in str(norm(pp.test)) and "not " not in str(norm(pp.test)):
                        under_npu = True
                    cur = pp
                if under_npu and base.rsplit(".shape", 1)[0] in names_ofm:
                    rep.ok("C13-be", site, f"`{str(norm(x))}`", "rank >= 1: the semantic checker's generic 'Output tensors cannot be scalar' already cleared run_on_npu otherwise")
                    continue
            rep.check(guarded, "C13-be", site, f"`{str(norm(x))}` is read under a test of `len({base})`",
                      f"no rank test: the rewrite runs before the supported-operator check on operators of any rank (AVERAGE_POOL_2D on a [1, 8] tensor: IndexError instead of CPU placement)")
    if n < 2:
        raise AnalysisError(f"pre-check passes: {n} constant shape indices found")
    # the constraints of the supported-operator checker are themselves evaluated on feature maps of any rank: a constant index into
    # `op.ifm.shape` / `op.ofm.shape` needs a rank test in the constraint, or an earlier constraint of every operator type it is registered
    # for that lets only rank-4 feature maps pass (is_operator_supported stops at the first failing constraint); full_shape(4, ..) is safe
    from ..exprnorm import conjuncts as _cj
    from .c16 import registrations as _regs

    so = repo.mod("tflite_supported_operators")
    _g, spec, _e, _se = _regs(repo, so, "TFLiteSupportedOperators")

    def shape_aliases(f):
        al = {}
        for st in ast.walk(f):
            if isinstance(st, ast.Assign) and isinstance(st.targets[0], ast.Name) and str(norm(st.value)) in ("op.ifm.shape", "op.ofm.shape", "op.ifm2.shape"):
                al[st.targets[0].id] = str(norm(st.value))
        return al

    def establishes(cname):
        """shapes S for which constraint `cname` can only return valid = True when len(S) == 4"""
        f = so.functions.get(f"TFLiteSupportedOperators.{cname}")
        if f is None:
            return set()
        al = shape_aliases(f)
        tops = [st for st in f.body if isinstance(st, ast.Assign) and str(norm(st.targets[0])) == "valid"]
        if not tops or str(norm(tops[0].value)) != "False":
            return set()
        out = None
        for st in ast.walk(f):
            if isinstance(st, ast.Assign) and str(norm(st.targets[0])) == "valid" and st is not tops[0] and str(norm(st.value)) != "False":
                ranks = set()
                cur = st
                while cur is not f and cur is not None:
                    pp = so.parents.get(cur)
                    if isinstance(pp, ast.If) and cur in pp.body:
                        for cj in _cj(pp.test):
                            mm = re.match(r"^len\((.+)\) == 4$", str(norm(cj)))
                            if mm:
                                ranks.add(al.get(mm.group(1), mm.group(1)))
                    cur = pp
                out = ranks if out is None else out & ranks
        return out or set()

    m = 0
    for q, f in so.functions.items():
        if not q.startswith("TFLiteSupportedOperators.constraint_"):
            continue
        cname = q.split(".", 1)[1]
        al = shape_aliases(f)
        site = f"ethosu/vela/tflite_supported_operators.py:{q}"
        for x in ast.walk(f):
            if not (isinstance(x, ast.Subscript) and isinstance(x.ctx, ast.Load)):
                continue
            b = str(norm(x.value))
            b = al.get(b, b)
            if b not in ("op.ifm.shape", "op.ofm.shape", "op.ifm2.shape"):
                continue
            k = try_fold(x.slice, default=None)
            if not isinstance(k, int) or k in (0, -1):
                continue
            m += 1
            names = {b} | {a_ for a_, v_ in al.items() if v_ == b}
            guarded = False
            cur = x
            while cur is not f and cur is not None:
                pp = so.parents.get(cur)
                if isinstance(pp, ast.If) and cur in pp.body and any(f"len({nm_})" in str(norm(pp.test)) for nm_ in names):
                    guarded = True
                if isinstance(pp, ast.IfExp) and cur is pp.body and any(f"len({nm_})" in str(norm(pp.test)) for nm_ in names):
                    guarded = True
                if isinstance(pp, ast.BoolOp) and isinstance(pp.op, ast.And) and cur in pp.values and any(f"len({nm_})" in str(norm(v_)) for v_ in pp.values[:pp.values.index(cur)] for nm_ in names):
                    guarded = True
                cur = pp
            for i_ in ast.walk(f):
                if isinstance(i_, ast.If) and i_.lineno < x.lineno and any(f"len({nm_})" in str(norm(i_.test)) for nm_ in names) and i_.body and isinstance(i_.body[-1], ast.Return):
                    guarded = True
            how = "a rank test in the constraint"
            if not guarded:
                ops_ = [o_ for o_, cs in spec.items() if cname in cs]
                if ops_ and all(any(b in establishes(c2) for c2 in spec[o_][:spec[o_].index(cname)]) for o_ in ops_):
                    guarded, how = True, "an earlier constraint of every operator type it is registered for passes rank-4 feature maps only"
            rep.check(guarded, "C13-be", site, f"`{str(norm(x))}` ({b}) is read under {how}",
                      "no rank test and no earlier constraint establishes the rank: the supported-operator check raises IndexError for a feature map of lower rank instead of placing the operator "
                      "on the CPU (AVERAGE_POOL_2D / CONV_2D on [1, 8], DEPTHWISE_CONV_2D with depth_multiplier 2 on [1, 4, 8], RESIZE_BILINEAR on [4, 8], TRANSPOSE_CONV [1, 4] -> [1, 8])")
    if m < 6:
        raise AnalysisError(f"supported-operator constraints: {m} constant shape indices found")


def rule_byte_view_rank(repo, rep):
    """(bf) numpy refuses `.view()` with a different item size on a 0-d array (ValueError). Scalar constants are 0-d: where the writer or the
    serialiser takes a byte view of tensor values, the receiver is a flattened array (flatten / ravel / reshape(-1))."""
    n = 0
    for mn in ("tflite_writer", "npu_serialisation"):
        m = repo.mod(mn)
        for q, fn in m.functions.items():
            for c in ast.walk(fn):
                if not (isinstance(c, ast.Call) and isinstance(c.func, ast.Attribute) and c.func.attr == "view" and c.args and str(norm(c.args[0])).split(".")[-1] in ("uint8", "int8", "byte", "ubyte")):
                    continue
                n += 1
                recv = c.func.value
                flat = isinstance(recv, ast.Call) and isinstance(recv.func, ast.Attribute) and (recv.func.attr in ("flatten", "ravel") or (recv.func.attr == "reshape" and recv.args and str(norm(recv.args[0])) in ("-1", "(-1,)", "[-1]")))
                rep.check(flat, "C13-bf", f"{m.rel}:{q}", f"`{str(norm(c))[:70]}` views a flattened array", f"receiver `{str(norm(recv))[:50]}` may be 0-d: a float32 / int32 scalar constant of a CPU operator raises ValueError in the writer")
    if n < 1:
        raise AnalysisError("byte views in the writer: none found")


def rule_pre_check_scalar_scales(repo, rep):
    """(bg) the rewrites that run before the supported-operator check also see operands with per-axis quantisation (the per-axis constraint
    belongs to that check). Where such a rewrite hands `<tensor>.quantization.scale_f32` to arithmetic that needs a scalar (quantise_scale ->
    math.frexp, round_away_zero, a truth test), a returning test of `is_per_axis()` precedes the first use."""
    go = repo.mod("tflite_graph_optimiser")
    tg = go.func("tflite_optimise_graph")
    lists = {st.targets[0].id: st.value for st in ast.walk(tg) if isinstance(st, ast.Assign) and isinstance(st.targets[0], ast.Name) and isinstance(st.value, ast.List)}
    pre = []
    for c in sorted((c_ for c_ in ast.walk(tg) if isinstance(c_, ast.Call) and (call_name(c_) or "").endswith("rewrite_graph_pre_order")), key=lambda c_: c_.lineno):
        kw = {k.arg: k.value for k in c.keywords}
        oplist = c.args[4] if len(c.args) > 4 else kw.get("op_rewrite_list")
        if isinstance(oplist, ast.Name):
            oplist = lists.get(oplist.id)
        names = [e.id for e in oplist.elts if isinstance(e, ast.Name)] if isinstance(oplist, ast.List) else []
        if "supported_operator_check" in names:
            break
        pre += names
    n = 0
    for nm in pre:
        fn = go.functions.get(nm)
        if fn is None:
            continue
        uses = [x for x in ast.walk(fn) if isinstance(x, ast.Attribute) and x.attr == "scale_f32" and isinstance(x.ctx, ast.Load)]
        if not uses:
            continue
        n += 1
        first = min(u.lineno for u in uses)
        # a local that holds the per-axis test counts as the test
        pa_locals = {st_.targets[0].id for st_ in ast.walk(fn) if isinstance(st_, ast.Assign) and isinstance(st_.targets[0], ast.Name) and "is_per_axis()" in str(norm(st_.value))}
        guards = [i_ for i_ in ast.walk(fn) if isinstance(i_, ast.If) and ("is_per_axis()" in str(norm(i_.test)) or any(isinstance(x_, ast.Name) and x_.id in pa_locals for x_ in ast.walk(i_.test)))
                  and i_.body and isinstance(i_.body[-1], ast.Return) and i_.lineno < first]
        rep.check(bool(guards), "C13-bg", f"ethosu/vela/tflite_graph_optimiser.py:{nm}", f"{len(uses)} scalar uses of scale_f32 follow a returning `is_per_axis()` test",
                  "no per-axis test before the scale is used as a scalar: QUANTIZE of a constant into a per-axis quantised output hands an array to quantise_scale (TypeError in math.frexp) - the rewrite runs before the supported-operator check")
    if n < 1:
        raise AnalysisError("pre-check passes: no use of scale_f32 found")

"""C05 Tensor allocators never overlap live buffers and report their footprint.

Decided clauses: alignment provenance of every assigned address, closed
interval convention, footprint fold, HillClimb termination ranking and the
safe direction of every overlap / fit / liveness comparison (normalised as
linear forms over a finite ordering domain). Non-overlap for all range sets
is not decided."""
import ast

from ..astutil import calls_in, call_name, norm, inline, walk_no_nested
from ..cfg import cfg_of
from ..core import AnalysisError
from ..exprnorm import EQ, GT, LT, comparison, conjuncts, form_text, linear, sub
from .shared import closed_interval_sites

G = "ethosu/vela/greedy_allocation.py"
H = "ethosu/vela/hillclimb_allocation.py"
T = "ethosu/vela/tensor_allocation.py"
L = "ethosu/vela/live_range.py"


def _defs_reaching(func, use_node, name):
    c = cfg_of(func)
    rd = c.reaching_defs()
    n = c.node_of(use_node)
    out = []
    for d in sorted(rd[n].get(name, ())):
        out.append(c.nodes[d])
    return out


def _value_of_def(node, name):
    st = node.stmt
    if node.kind == "entry":
        return "<param>"
    if isinstance(st, ast.Assign):
        for t in st.targets:
            if isinstance(t, ast.Name) and t.id == name:
                return st.value
        return "<tuple>"
    if isinstance(st, ast.AugAssign):
        return st
    return "<other>"


def _is_round_up(v, sym_texts):
    return isinstance(v, ast.Call) and call_name(v) in ("numeric_util.round_up", "round_up") and len(v.args) == 2 and norm(v.args[1]) in sym_texts


def run(repo, rep):
    rep.clause("C05-a", "every assigned address is 0, a copy of an assigned address, or round_up(., the range's alignment); alignment requests never decrease")
    rep.clause("C05-b", "live ranges are closed time intervals in all allocators and in the verifier")
    rep.clause("C05-c", "reported total is the fold max(end address) over all ranges")
    rep.clause("C05-d", "HillClimb search and allocate_lr have a ranking: bounded counter, strict improvement, strictly increasing address")
    rep.clause("C05-d'", "overlap / fit / liveness comparisons are at least as conservative as their canonical forms; the offset tested is the offset taken; aborted partial allocations are never accepted")
    rep.undecided("non-overlap of simultaneously live ranges for every range set; footprint >= peak live sum")
    # every way out of get_or_create_range has applied the requested alignment to the range it returns
    from ..cfg import cfg_of as _cfg5

    lrm = repo.mod("live_range")
    gf = lrm.func("LiveRangeGraph.get_or_create_range")
    c5 = _cfg5(gf)
    appl = c5.nodes_where(lambda n_: n_.stmt is not None and n_.kind != "test" and ("set_alignment(alignment)" in str(norm(n_.stmt)) or "LiveRange(tens, alignment)" in str(norm(n_.stmt))))
    rets5 = [n_ for n_ in c5.nodes[3:] if n_.stmt is not None and isinstance(n_.stmt, ast.Return)]
    if not appl or not rets5:
        raise AnalysisError("get_or_create_range: alignment application / returns not found")
    for r_ in rets5:
        rep.check(any(c5.dominates(a_, r_.id) for a_ in appl), "C05-a", "ethosu/vela/live_range.py:LiveRangeGraph.get_or_create_range", f"`{str(norm(r_.stmt))}` (line {r_.stmt.lineno}) follows set_alignment(alignment) / LiveRange(tens, alignment)",
                  "a live range is returned without the requested alignment having been applied: a later, stricter request (CPU tensor alignment for an NPU output) is silently dropped")
    from . import c12

    rep.run_borrowed(c12, {"C12-b": "C05-a"}, repo)
    rep.clause("C05-i", "an allocation is a function of the set it is given: the allocator modules keep no process-wide store of earlier results [rule shared with C14-a]; a LiveRange keeps the alignment it was created with; the linear allocator advances its running total to every address it hands out")
    from . import c14

    rep.run_borrowed(c14, {"C14-a": "C05-i"}, repo, only_sites=("hillclimb_allocation", "greedy_allocation", "tensor_allocation", "live_range"))
    rep.clause("C05-m", "Greedy: every address handed out was chosen by the gap scan over the live allocations (no return before the scan, set_address takes the scan's variable)")
    rule_round11(repo, rep)
    rule_round10(repo, rep)
    rule_round9(repo, rep)
    rule_round5(repo, rep)
    rep.clause("C05-g", "HillClimb: a trial that may stop early re-initialises, for every range, each per-trial field the permutation step reads off ranges it did not reach")
    rule_trial_state(repo, rep)
    rep.clause("C05-h", "HillClimb: the search runs only on allocations strictly above the peak live sum (its candidate selection needs a bottleneck above address 0)")
    rule_search_precondition(repo, rep)
    rule_mark_usage_closed(repo, rep)
    from .shared import duplicate_branch_lint

    duplicate_branch_lint(repo, rep, "C05-c", ['tensor_allocation', 'greedy_allocation', 'hillclimb_allocation', 'live_range'])
    greedy = repo.mod("greedy_allocation")
    hc = repo.mod("hillclimb_allocation")
    ta = repo.mod("tensor_allocation")
    lr = repo.mod("live_range")

    # ---------------------------------------------------------------- a
    f = hc.func("HillClimbAllocator.allocate_lr")
    sinks = [s for s in walk_no_nested(f) if isinstance(s, ast.Assign) and norm(s.targets[0]) == "lr.address"]
    if len(sinks) != 1 or norm(sinks[0].value) != "address":
        raise AnalysisError("allocate_lr: address sink not recognised")
    for d in _defs_reaching(f, sinks[0], "address"):
        v = _value_of_def(d, "address")
        txt = norm(v) if isinstance(v, ast.AST) else str(v)
        ok = (isinstance(v, ast.Constant) and v.value == 0) or _is_round_up(v, {"lr.min_alignment"})
        rep.check(ok, "C05-a", f"{H}:HillClimbAllocator.allocate_lr", f"address := {txt}", "an address that is neither 0 nor round_up(., lr.min_alignment) reaches lr.address")
    ea = [s for s in walk_no_nested(f) if isinstance(s, ast.Assign) and norm(s.targets[0]) == "lr.end_address"]
    rep.check(len(ea) == 1 and linear(ea[0].value) == {"address": 1, "lr.size": 1}, "C05-a", f"{H}:HillClimbAllocator.allocate_lr", "end_address = address + size", norm(ea[0]) if ea else "missing")
    init = hc.func("HillClimbAllocator.__init__")
    cons = calls_in(init, "LiveRangeInfo")
    rep.check(len(cons) == 1 and [norm(a) for a in cons[0].args] == ["id", "lr.start_time", "lr.end_time", "lr.size", "lr.get_alignment()"], "C05-a", f"{H}:HillClimbAllocator.__init__",
              "LiveRangeInfo(id, start, end, size, lr.get_alignment())", norm(cons[0]) if cons else "missing")
    params = [a.arg for a in hc.func("LiveRangeInfo.__init__").args.args]
    rep.check(params == ["self", "id", "start_time", "end_time", "size", "min_alignment"], "C05-a", f"{H}:LiveRangeInfo.__init__", "parameter order matches the constructor call", str(params))
    # greedy
    f = greedy.func("GreedyAllocator.alloc")
    sa = [c for c in calls_in(f, "new_lr.set_address")]
    _arg = norm(sa[0].args[0]) if len(sa) == 1 and sa[0].args else ""
    _cp = [norm(s_.value) for s_ in walk_no_nested(f) if isinstance(s_, ast.Assign) and norm(s_.targets[0]) == _arg and isinstance(s_.value, ast.Name)]
    if len(sa) != 1 or (_arg != "best_offset" and _cp != ["best_offset"]):
        raise AnalysisError("greedy alloc: set_address sink not recognised")
    align = {"new_lr.get_alignment()"}
    for d in _defs_reaching(f, sa[0], "best_offset"):
        v = _value_of_def(d, "best_offset")
        ok = _is_round_up(v, align)
        if isinstance(v, ast.Name):
            vs = [_value_of_def(x, v.id) for x in _defs_reaching(f, d.stmt, v.id)]
            ok = bool(vs) and all(_is_round_up(x, align) for x in vs)
        rep.check(ok, "C05-a", f"{G}:GreedyAllocator.alloc", f"best_offset := {norm(v) if isinstance(v, ast.AST) else v}", "unaligned offset can reach set_address")
    # linear
    f = ta.func("linear_allocate_live_ranges")
    sa = calls_in(f, "lr.set_address")
    if len(sa) != 1 or norm(sa[0].args[0]) != "address":
        raise AnalysisError("linear allocator: sink not recognised")
    for d in _defs_reaching(f, sa[0], "address"):
        v = _value_of_def(d, "address")
        t = norm(v) if isinstance(v, ast.AST) else str(v)
        aligned_fresh = isinstance(v, ast.AST) and _is_round_up(v, {"lr.get_alignment()", "max(alloc_granularity, lr.get_alignment())", "max(lr.get_alignment(), alloc_granularity)"}) and norm(v.args[0]) == "total_sz"
        rep.check(t == "allocated_tens.address" or aligned_fresh or t == "total_sz", "C05-a", f"{T}:linear_allocate_live_ranges", f"address := {t}", "address from an unrecognised source")
        if t != "allocated_tens.address":
            rep.check(aligned_fresh, "C05-a", f"{T}:linear_allocate_live_ranges", "a fresh address is the running total rounded up to the range's own alignment",
                      f"address := {t}: the running total is a multiple of alloc_granularity only; a range that requested a larger alignment gets an address that is not a multiple of it "
                      "(demonstrated at the allocator's interface: ranges with alignments 16, 64, 128 and the default granularity 16 get addresses 0, 16, 80)")
    for s in walk_no_nested(f):
        if isinstance(s, (ast.Assign, ast.AugAssign)) and any(norm(t_) == "total_sz" for t_ in (s.targets if isinstance(s, ast.Assign) else [s.target])):
            if isinstance(s, ast.Assign):
                # 0, or the running total rounded up to the range's alignment (alignments and the granularity are powers of two, so the
                # result stays a multiple of the granularity)
                ok = (isinstance(s.value, ast.Constant) and s.value.value == 0) or (_is_round_up(s.value, {"lr.get_alignment()", "max(alloc_granularity, lr.get_alignment())", "max(lr.get_alignment(), alloc_granularity)"})
                                                                                    and norm(s.value.args[0]) == "total_sz")
            else:
                ok = isinstance(s.op, ast.Add) and _is_round_up(s.value, {"alloc_granularity"})
            rep.check(ok, "C05-a", f"{T}:linear_allocate_live_ranges", norm(s), "total_sz must stay a multiple of alloc_granularity")
    # alignment requests are monotone and reach the range
    f = lr.func("LiveRange.set_alignment")
    body = [s for s in f.body if isinstance(s, ast.Assign)]
    ok = len(body) == 1 and norm(body[0].targets[0]) == "self.alignment" and norm(body[0].value) in ("max(self.alignment, alignment)", "max(alignment, self.alignment)")
    rep.check(ok, "C05-a", f"{L}:LiveRange.set_alignment", "alignment only ever grows: max(self.alignment, alignment)", norm(f.body[-1]))
    f = lr.func("LiveRange.get_alignment")
    rep.check(norm(f.body[-1]) == "return self.alignment", "C05-a", f"{L}:LiveRange.get_alignment", "returns the stored alignment", norm(f.body[-1]))
    f = lr.func("LiveRangeGraph.get_or_create_range")
    rep.check(len(calls_in(f, "rng.set_alignment")) == 1 and norm(calls_in(f, "rng.set_alignment")[0].args[0]) == "alignment" and
              any(norm(c) == "LiveRange(tens, alignment)" for c in calls_in(f, "LiveRange")), "C05-a", f"{L}:LiveRangeGraph.get_or_create_range",
              "requested alignment reaches both existing and new ranges", "alignment dropped")
    f = lr.func("LiveRange.set_address")
    rep.check(any(isinstance(s, ast.For) and norm(s.iter) == "self.tensors" and any(norm(x) == "tens.address = address" for x in s.body) for s in f.body)
              and norm(f.body[-1]) == "return address", "C05-a", f"{L}:LiveRange.set_address", "every tensor of the range gets the address unchanged", "changed")
    rep.floor("C05-a", 14)

    # ---------------------------------------------------------------- b
    n = closed_interval_sites(repo, rep, "C05-b")
    rep.floor("C05-b", 12)
    f = hc.func("LiveRangeInfo.is_neighbour")
    cs = [comparison(c) for c in conjuncts(f.body[-1].value)]
    want = [({"lr.end_time": 1, "self.start_time": -1}, {LT, EQ}), ({"lr.start_time": -1, "self.end_time": 1}, {LT, EQ})]
    got = sorted([(sorted(c[0].items()), sorted(c[1])) for c in cs if c])
    exp = sorted([(sorted(_canon(w[0]).items()), sorted(_canon_ord(w[0], w[1]))) for w in want])
    rep.check(got == exp, "C05-b", f"{H}:LiveRangeInfo.is_neighbour", "closed-interval overlap: start1 <= end2 and start2 <= end1", norm(f.body[-1]))

    # ---------------------------------------------------------------- c
    f = ta.func("hillclimb_allocate_live_ranges")
    loops = [s for s in f.body if isinstance(s, ast.For)]
    ok = False
    if len(loops) == 1 and norm(loops[0].iter) == "zip(live_ranges.lrs, addresses)" and norm(loops[0].target) == "(lr, address)":
        upd = [s for s in loops[0].body if isinstance(s, ast.Assign) and norm(s.targets[0]) == "total_sz"]
        ok = len(upd) == 1 and norm(upd[0].value) in ("max(total_sz, address + lr.size)", "max(address + lr.size, total_sz)") and not any(isinstance(s, (ast.If, ast.Continue, ast.Break)) for s in loops[0].body)
        ok = ok and any(norm(s) == "lr.set_address(address)" for s in loops[0].body)
    rep.check(ok, "C05-c", f"{T}:hillclimb_allocate_live_ranges", "total = fold max(address + size) over all (range, address) pairs; each address is applied", "fold changed")
    rep.check(norm(f.body[-1]) == "return total_sz", "C05-c", f"{T}:hillclimb_allocate_live_ranges", "returns the fold", norm(f.body[-1]))
    ad = [s for s in f.body if isinstance(s, ast.Assign) and norm(s.targets[0]) == "addresses"]
    rep.check(len(ad) == 1 and norm(ad[0].value) == "hillclimb_allocation.allocate_live_ranges(live_ranges.lrs, max_iterations, mem_limit)", "C05-c", f"{T}:hillclimb_allocate_live_ranges",
              "addresses come from the allocator for the same range list", norm(ad[0]) if ad else "")
    f = greedy.func("GreedyAllocator.alloc")
    c = cfg_of(f)
    upd = [s for s in walk_no_nested(f) if isinstance(s, ast.Assign) and norm(s.targets[0]) == "self.memory_required"]
    sa = calls_in(f, "new_lr.set_address")[0]
    ok = len(upd) == 1 and c.postdominates(c.node_of(upd[0]), c.node_of(sa))
    if ok:
        v = upd[0].value
        ok = isinstance(v, ast.Call) and call_name(v) == "max" and len(v.args) == 2
        if ok:
            others = [a for a in v.args if norm(a) != "self.memory_required"]
            ok = len(others) == 1 and linear(others[0]) in ({"best_offset": 1, "aligned_size": 1}, {"best_offset": 1, "size": 1}, {"best_offset": 1, "new_lr.size": 1})
    rep.check(ok, "C05-c", f"{G}:GreedyAllocator.alloc", "memory_required = max(memory_required, best_offset + size) after every placement", norm(upd[0]) if upd else "missing")
    f = greedy.func("GreedyAllocator.allocate_live_ranges")
    rep.check(norm(f.body[-1]) == "return self.memory_required", "C05-c", f"{G}:GreedyAllocator.allocate_live_ranges", "returns memory_required", norm(f.body[-1]))
    f = ta.func("linear_allocate_live_ranges")
    grow = [s for s in walk_no_nested(f) if isinstance(s, ast.AugAssign) and norm(s.target) == "total_sz"]
    par = [n for n in ast.walk(f) if isinstance(n, ast.If) and grow and grow[0] in n.body]
    rep.check(len(grow) == 1 and len(par) == 1 and norm(par[0].test) in ("address == total_sz", "total_sz == address"), "C05-c", f"{T}:linear_allocate_live_ranges",
              "total grows exactly when a fresh address was taken", norm(par[0].test) if par else "guard missing")
    rep.clause("C05-f", "the reported total is exactly the highest end address (not padded to the alignment)")
    # "equals the highest end address": Greedy and LinearAlloc add the size padded to the alignment, so the total exceeds max(address + size)
    # whenever the top-most range's size is no multiple of its alignment (conservative; HillClimb reports the exact end)
    ga = greedy.func("GreedyAllocator.alloc")
    al = [s_ for s_ in ast.walk(ga) if isinstance(s_, ast.Assign) and norm(s_.targets[0]) == "aligned_size"]
    used = upd and "aligned_size" in str(norm(upd[0].value))
    rep.check(not (used and al and "round_up" in str(norm(al[0].value))), "C05-f", f"{G}:GreedyAllocator.alloc", "the end address folded into the total is offset + size of the range",
              f"folds `best_offset + aligned_size` with aligned_size = `{str(norm(al[0].value)) if al else ''}`: total above the highest end address")
    rep.check(not (grow and "round_up" in str(norm(grow[0].value))), "C05-f", f"{T}:linear_allocate_live_ranges", "the total advances by the size of the range (the next address is aligned separately)",
              f"`total_sz += {str(norm(grow[0].value)) if grow else ''}`: total above the highest end address")
    rep.floor("C05-f", 2)
    # LinearAlloc: what is returned is a running maximum: every store into the returned name inside the loop is `+=` of a size or max(itself, ..)
    lf = ta.func("linear_allocate_live_ranges")
    rets = [r for r in ast.walk(lf) if isinstance(r, ast.Return) and isinstance(r.value, ast.Name)]
    if len(rets) != 1:
        raise AnalysisError("linear_allocate_live_ranges: `return <name>` not found")
    rn = rets[0].value.id
    for st in walk_no_nested(lf):
        tgts = [t for t in (st.targets if isinstance(st, ast.Assign) else [st.target] if isinstance(st, ast.AugAssign) else []) if isinstance(t, ast.Name) and t.id == rn]
        if not tgts:
            continue
        in_loop = any(isinstance(p_, (ast.For, ast.While)) and any(x is st for x in ast.walk(p_)) for p_ in ast.walk(lf))
        if isinstance(st, ast.AugAssign):
            ok_ = isinstance(st.op, ast.Add)
        else:
            v_ = st.value
            ok_ = (not in_loop and isinstance(v_, ast.Constant) and v_.value == 0) or (isinstance(v_, ast.Call) and call_name(v_) == "max" and any(str(norm(a)) == rn for a in v_.args)) or _is_round_up(v_, {"lr.get_alignment()", "max(alloc_granularity, lr.get_alignment())", "max(lr.get_alignment(), alloc_granularity)"})
        rep.check(ok_, "C05-c", f"{T}:linear_allocate_live_ranges", f"`{str(norm(st))[:70]}` keeps the returned total a running maximum", "the returned name is overwritten inside the loop: a range that only shares an earlier address (equal compression configuration, equivalent LUT) and is processed last sets the total to its own end, below the highest end address")
    # HillClimb: the 'nothing found yet' sentinel is above every reachable footprint (40-bit address space on Ethos-U65)
    hi = repo.mod("hillclimb_allocation").func("HillClimbAllocator.__init__")
    bs = [st for st in ast.walk(hi) if isinstance(st, (ast.Assign, ast.AnnAssign)) and str(norm(st.targets[0] if isinstance(st, ast.Assign) else st.target)) == "self.best_size"]
    if len(bs) != 1:
        raise AnalysisError("HillClimbAllocator.__init__: best_size initialisation not found")
    from ..astutil import try_fold as _tf5

    v5 = _tf5(bs[0].value)
    rep.check(isinstance(v5, int) and v5 >= (1 << 41), "C05-d", f"{H}:HillClimbAllocator.__init__", "best_size starts above every reachable footprint (>= 2^41)",
              f"starts at {v5}: the initial heuristic allocation is aborted (`size > best_size`) as soon as it passes that value, the remaining ranges keep address -1 and no search runs")
    rep.floor("C05-c", 6)

    # ---------------------------------------------------------------- d
    f = hc.func("HillClimbAllocator.search")
    wl = [s for s in f.body if isinstance(s, ast.While)]
    if len(wl) != 1:
        raise AnalysisError("search: loop not recognised")
    wl = wl[0]
    c = cfg_of(f)
    head = c.node_of(wl)
    incs = [s for s in walk_no_nested(wl) if isinstance(s, ast.AugAssign) and norm(s) == "i += 1"]
    ok = len(incs) == 1
    if ok:
        inc = c.node_of(incs[0])
        # every path from the loop body back to the head passes the increment
        ok = all(not c.path_avoiding(b, head, [inc]) for b, lab in c.succ[head] if lab is True)
    rep.check(ok, "C05-d", f"{H}:HillClimbAllocator.search", "the iteration counter is incremented on every path back to the loop head", "a path re-enters the loop without i += 1")
    test = wl.test
    disj = test.values if isinstance(test, ast.BoolOp) and isinstance(test.op, ast.Or) else [test]
    for dj in disj:
        bounded = False
        for cj in conjuncts(dj):
            cmp_ = comparison(cj)
            if cmp_ and "i" in cmp_[0] and set(k for k in cmp_[0] if k not in ("i", "")) <= {"self.max_iterations", "last_improvement_iteration", "self.MIN_ITERATIONS_IMPROVE"}:
                coef = cmp_[0]["i"]
                # i bounded above: (bound - i) > 0 or >= 0
                if (coef < 0 and cmp_[1] <= {LT, EQ}) or (coef > 0 and cmp_[1] <= {GT, EQ}):
                    bounded = True
        rep.check(bounded, "C05-d", f"{H}:HillClimbAllocator.search", f"loop disjunct `{norm(dj)}` bounds i from above", "unbounded disjunct")
    li = [s for s in walk_no_nested(wl) if isinstance(s, ast.Assign) and norm(s.targets[0]) == "last_improvement_iteration"]
    ok = len(li) == 1 and norm(li[0].value) == "i"
    if ok:
        guard = [n for n in ast.walk(wl) if isinstance(n, ast.If) and li[0] in n.body]
        cm = comparison(guard[0].test) if guard else None
        ok = bool(cm) and cm[0] in ({"new_size": -1, "self.best_size": 1}, {"new_size": 1, "self.best_size": -1}) and len(cm[1]) == 1 and EQ not in cm[1]
    rep.check(ok, "C05-d", f"{H}:HillClimbAllocator.search", "last_improvement_iteration advances only on a strict improvement", "non-strict improvement resets the patience window (possible livelock)")
    f = hc.func("HillClimbAllocator.allocate_lr")
    wl2 = [s for s in f.body if isinstance(s, ast.While)]
    ok = len(wl2) == 1 and norm(wl2[0].test) == "not fits" and isinstance(wl2[0].body[0], ast.Assign) and norm(wl2[0].body[0]) == "fits = True"
    rep.check(ok, "C05-d", f"{H}:HillClimbAllocator.allocate_lr", "each retry starts optimistic (fits = True) and repeats only after a collision", "loop protocol changed")
    moves = [s for s in walk_no_nested(wl2[0]) if isinstance(s, ast.Assign) and norm(s.targets[0]) == "address"] if wl2 else []
    ok = len(moves) == 1 and _is_round_up(moves[0].value, {"lr.min_alignment"}) and norm(moves[0].value.args[0]) == "lr2.end_address"
    rep.check(ok, "C05-d", f"{H}:HillClimbAllocator.allocate_lr", "on collision the address moves up to round_up(lr2.end_address, alignment)", norm(moves[0]) if moves else "")
    rep.floor("C05-d", 6)

    # ---------------------------------------------------------------- d'
    # (1) LiveRangeInfo.overlaps: half-open overlap
    f = hc.func("LiveRangeInfo.overlaps")
    cs = [comparison(c_) for c_ in conjuncts(f.body[-1].value)]
    exp = [comparison(ast.parse(t, mode="eval").body) for t in ("self.address < addr2 + size2", "addr2 < self.end_address")]
    ok = all(cs) and len(cs) == 2 and all(any(c_[0] == e[0] and c_[1] >= e[1] for c_ in cs) for e in exp) and isinstance(f.body[-1].value, ast.BoolOp) and isinstance(f.body[-1].value.op, ast.And)
    rep.check(ok, "C05-d'", f"{H}:LiveRangeInfo.overlaps", "address overlap is half-open interval overlap (or more conservative)", norm(f.body[-1]))
    # (2) allocate_lr skip test: only skip neighbours that are unallocated or end at/below the candidate
    f = hc.func("HillClimbAllocator.allocate_lr")
    skips = [n for n in ast.walk(f) if isinstance(n, ast.If) and any(isinstance(s, ast.Continue) for s in n.body)]
    ok = len(skips) == 1 and isinstance(skips[0].test, ast.BoolOp) and isinstance(skips[0].test.op, ast.Or)
    if ok:
        for v in skips[0].test.values:
            cm = comparison(v)
            if norm(v) == "lr2.address == HillClimbAllocator.NOT_ALLOCATED":
                continue
            e = comparison(ast.parse("lr2.end_address <= address", mode="eval").body)
            ok = ok and bool(cm) and cm[0] == e[0] and cm[1] <= e[1]
    rep.check(ok, "C05-d'", f"{H}:HillClimbAllocator.allocate_lr", "a neighbour is skipped only if unallocated or ending at/below the candidate address", norm(skips[0].test) if skips else "")
    ov = [n for n in ast.walk(f) if isinstance(n, ast.If) and "overlaps" in norm(n.test)]
    rep.check(len(ov) == 1 and norm(ov[0].test) == "lr2.overlaps(address, lr.size)" and any(norm(s) == "fits = False" for s in ov[0].body), "C05-d'", f"{H}:HillClimbAllocator.allocate_lr",
              "collision test uses the candidate address and the range's own size", norm(ov[0].test) if ov else "")
    loops = [n for n in ast.walk(f) if isinstance(n, ast.For)]
    rep.check(len(loops) == 1 and norm(loops[0].iter) == "lr.neighbours", "C05-d'", f"{H}:HillClimbAllocator.allocate_lr", "all neighbours are examined", "")
    # neighbours = every range sharing a time step
    init = hc.func("HillClimbAllocator.__init__")
    nb = [n for n in ast.walk(init) if isinstance(n, ast.For) and norm(n.iter) == "self.lrs_at_time[t]"]
    ok = len(nb) == 1 and any(norm(c_) == "lr.neighbours.append(lr2)" for c_ in calls_in(nb[0], ".append"))
    g = [n for n in ast.walk(nb[0]) if isinstance(n, ast.If)] if nb else []
    ok = ok and len(g) == 1 and norm(g[0].test) in ("lr2 not in neighbours and lr != lr2", "lr != lr2 and lr2 not in neighbours")
    rep.check(ok, "C05-d'", f"{H}:HillClimbAllocator.__init__", "neighbour lists contain every other range alive at a common time step", "")
    # (3) aborted partial allocations are never accepted (finite ordering domain)
    f = hc.func("HillClimbAllocator.allocate_indices")
    br = [n for n in ast.walk(f) if isinstance(n, ast.If) and any(isinstance(s, ast.Break) for s in n.body)]
    s_ = hc.func("HillClimbAllocator.search")
    acc = [n for n in ast.walk(s_) if isinstance(n, ast.If) and any(isinstance(x, ast.Assign) and norm(x.targets[0]) == "self.allocated_addresses" for x in n.body)]
    ok = len(br) == 1 and len(acc) == 1
    if ok:
        ab = comparison(br[0].test)
        ac = comparison(acc[0].test)
        ok = bool(ab) and bool(ac) and set(ab[0]) == {"size", "self.best_size"} and set(ac[0]) == {"new_size", "self.best_size"}
        if ok:
            # orient both as (returned size) relative to best_size
            ab_o = ab[1] if ab[0]["size"] < 0 else {{LT: GT, GT: LT, EQ: EQ}[o] for o in ab[1]}
            ac_o = ac[1] if ac[0]["new_size"] < 0 else {{LT: GT, GT: LT, EQ: EQ}[o] for o in ac[1]}
            ok = not (ab_o & ac_o)
            detail = f"abort when size {sorted(ab_o)} best_size; accept when size {sorted(ac_o)} best_size"
        else:
            detail = "comparisons not recognised"
    else:
        detail = "abort / accept sites not recognised"
    rep.check(ok, "C05-d'", f"{H}:HillClimbAllocator.allocate_indices", "an aborted (partial) allocation can never satisfy the acceptance test of search()", detail)
    rep.check(norm(f.body[-1]) == "return size", "C05-d'", f"{H}:HillClimbAllocator.allocate_indices", "returns the running maximum end address", norm(f.body[-1]))
    reset = [n for n in f.body if isinstance(n, ast.For) and norm(n.iter) == "self.lrs" and any(norm(x) == "lr.address = HillClimbAllocator.NOT_ALLOCATED" for x in n.body)]
    rep.check(len(reset) == 1, "C05-d'", f"{H}:HillClimbAllocator.allocate_indices", "all ranges are marked unallocated before each attempt", "")
    # (4) greedy: the offset tested is the offset taken; free only strictly expired ranges
    f = greedy.func("GreedyAllocator.alloc")
    loop = [n for n in f.body if isinstance(n, ast.For) and norm(n.iter) == "self.current_allocs"]
    if len(loop) != 1:
        raise AnalysisError("greedy gap loop not recognised")
    loop = loop[0]
    take = [n for n in ast.walk(loop) if isinstance(n, ast.If) and any(isinstance(s, ast.Assign) and norm(s.targets[0]) == "best_offset" for s in n.body)]
    if len(take) != 1:
        raise AnalysisError("greedy gap branch not recognised")
    taken = [s for s in take[0].body if isinstance(s, ast.Assign) and norm(s.targets[0]) == "best_offset"][0].value
    inl = lambda e: inline(e, loop)  # noqa
    want = None
    for sz in ("aligned_size", "size"):
        e = ast.parse(f"({norm(inl(taken))}) + {sz} <= start_addr", mode="eval").body
        want = want or []
        want.append(comparison(e))
    cjs = [comparison(cj, inl) for cj in conjuncts(take[0].test)]
    ok = any(cj and any(cj[0] == w[0] and cj[1] <= w[1] for w in want) for cj in cjs)
    rep.check(ok, "C05-d'", f"{G}:GreedyAllocator.alloc", f"gap test bounds the offset actually taken: ({norm(taken)}) + size <= start_addr",
              f"test `{norm(take[0].test)}` does not bound the taken offset `{norm(inl(taken))}`")
    co = [s for s in loop.body if isinstance(s, ast.Assign) and norm(s.targets[0]) == "current_offset"]
    rep.check(len(co) == 1 and linear(co[0].value) == {"start_addr": 1, "lr.size": 1}, "C05-d'", f"{G}:GreedyAllocator.alloc", "next gap starts at the end of the current allocation", norm(co[0]) if co else "")
    ct = [s for s in ast.walk(f) if isinstance(s, ast.Assign) and norm(s.targets[0]) == "current_top" and not isinstance(s.value, ast.Constant)]
    rep.check(len(ct) == 1 and norm(ct[0].value).replace("(start_addr, lr)", "start_addr, lr") == "max((start_addr + lr.size for start_addr, lr in self.current_allocs))", "C05-d'", f"{G}:GreedyAllocator.alloc",
              "fallback offset is above every live allocation", norm(ct[0].value) if ct else "")
    srt = [s for s in f.body if isinstance(s, ast.Assign) and norm(s.targets[0]) == "self.current_allocs"]
    rep.check(len(srt) == 1 and "sorted(self.current_allocs)" in norm(srt[0].value), "C05-d'", f"{G}:GreedyAllocator.alloc", "live allocations are kept sorted by address (the gap scan relies on it)", "")
    f = greedy.func("GreedyAllocator.allocate_live_ranges")
    fr = [n for n in ast.walk(f) if isinstance(n, ast.If) and calls_in(n, "self.dealloc")]
    ok = len(fr) == 1
    if ok:
        cm = comparison(fr[0].test)
        e = comparison(ast.parse("lr.end_time < curr_time", mode="eval").body)
        ok = bool(cm) and cm[0] == e[0] and cm[1] <= e[1]
    rep.check(ok, "C05-d'", f"{G}:GreedyAllocator.allocate_live_ranges", "a range is freed only when it ended strictly before the current time", norm(fr[0].test) if fr else "")
    # the placement loop runs over the live ranges sorted by (start time, ...) and takes the current time from the first key component
    firsts = []
    for s_ in ast.walk(f):
        if isinstance(s_, ast.Call) and isinstance(s_.func, ast.Attribute) and s_.func.attr == "add" and str(norm(s_.func.value)) == "lrs" and s_.args and isinstance(s_.args[0], ast.Tuple):
            firsts.append(str(norm(s_.args[0].elts[0])))
        if isinstance(s_, ast.Call) and call_name(s_) == "sorted" and s_.args and isinstance(s_.args[0], (ast.GeneratorExp, ast.ListComp)) and isinstance(s_.args[0].elt, ast.Tuple):
            firsts.append(str(norm(s_.args[0].elt.elts[0])))
    srt_ = any(isinstance(s_, ast.Assign) and str(norm(s_.targets[0])) == "lrs" and isinstance(s_.value, ast.Call) and call_name(s_.value) == "sorted" and not s_.value.keywords for s_ in f.body)
    loops_ = [l_ for l_ in f.body if isinstance(l_, ast.For) and str(norm(l_.iter)) == "lrs" and isinstance(l_.target, ast.Tuple)]
    ok = srt_ and firsts == ["lr.start_time"] and len(loops_) == 1 and str(norm(loops_[0].target.elts[0])) == "curr_time"
    rep.check(ok, "C05-d'", f"{G}:GreedyAllocator.allocate_live_ranges", "ranges are placed in start-time order and the current time is that start time (frees are then sound)",
              f"sort key starts with {firsts}, loop target {str(norm(loops_[0].target)) if loops_ else '?'}")
    # (5) LiveRange.overlaps_address
    f = lr.func("LiveRange.overlaps_address")
    t = [n for n in ast.walk(f) if isinstance(n, ast.If)]
    ok = len(t) == 1 and norm(t[0].test) in ("max(tens.address, other_tens.address) < min(tens.address + self.size, other_tens.address + other.size)",
                                            "max(tens.address, other_tens.address) <= min(tens.address + self.size, other_tens.address + other.size)")
    rep.check(ok, "C05-d'", f"{L}:LiveRange.overlaps_address", "verifier overlap test is half-open interval overlap on [address, address + size)", norm(t[0].test) if t else "")
    rep.floor("C05-d'", 14)



_TRIAL_FIELD_EXEMPT = {
    # field: reason a value of an older trial is harmless
    "turn": "any earlier turn is a valid position of the permutation; it only widens the set of swap candidates",
}


def rule_trial_state(repo, rep):
    """(g) HillClimb keeps the state of a trial on the ranges themselves (address, end address, predecessor, turn). `allocate_indices`
    may stop a trial early (the allocation is already worse than the best one); the ranges it did not reach then hold whatever an older
    trial left. `attempt_bottleneck_fix` / `add_predecessor_turns` read these fields off *every* range (bottleneck scan, neighbours,
    predecessor chain). Typestate: if the trial loop has an early exit, every per-trial field that the permutation step reads must be
    re-initialised for all ranges before the loop - or be read only under a test of the 'allocated' marker. Otherwise a stale bottleneck is
    chosen, whose candidate list can have one entry (`random.randint(0, -1)`: ValueError instead of an allocation) or whose stale
    predecessor chain need not end."""
    m = repo.mod("hillclimb_allocation")
    site = "ethosu/vela/hillclimb_allocation.py:HillClimbAllocator.allocate_indices"
    f = m.func("HillClimbAllocator.allocate_indices")
    loops = [n for n in f.body if isinstance(n, ast.For)]
    main = [n for n in loops if any(isinstance(x, (ast.Break, ast.Return)) for x in ast.walk(n)) or "indices" in str(norm(n.iter))]
    if len(main) != 1:
        raise AnalysisError("allocate_indices: trial loop not found")
    main = main[0]
    early = [x for x in ast.walk(main) if isinstance(x, (ast.Break, ast.Return))]

    def stores(nodes, var):
        out = set()
        for n in nodes:
            for x in ast.walk(n):
                if isinstance(x, (ast.Assign, ast.AugAssign, ast.AnnAssign)):
                    tg = x.targets if isinstance(x, ast.Assign) else [x.target]
                    for t in tg:
                        for e in (t.elts if isinstance(t, ast.Tuple) else [t]):
                            if isinstance(e, ast.Attribute) and isinstance(e.value, ast.Name) and e.value.id == var:
                                out.add(e.attr)
        return out

    reset = set()
    for lp in loops:
        if lp is main or lp.lineno > main.lineno:
            continue
        if str(norm(lp.iter)) == "self.lrs" and isinstance(lp.target, ast.Name):
            reset |= stores(lp.body, lp.target.id)
    # the range object of the trial loop
    rng = None
    for x in main.body:
        if isinstance(x, ast.Assign) and len(x.targets) == 1 and isinstance(x.targets[0], ast.Name) and str(norm(x.value)).startswith("self.lrs["):
            rng = x.targets[0].id
    if rng is None:
        raise AnalysisError("allocate_indices: the range of a turn is not `self.lrs[index]`")
    written = stores(main.body, rng)
    for c in ast.walk(main):
        if isinstance(c, ast.Call) and isinstance(c.func, ast.Attribute) and isinstance(c.func.value, ast.Name) and c.func.value.id == "self":
            for i, a in enumerate(c.args):
                if isinstance(a, ast.Name) and a.id == rng:
                    g = m.functions.get("HillClimbAllocator." + c.func.attr)
                    if g is not None and len(g.args.args) > i + 1:
                        written |= stores(g.body, g.args.args[i + 1].arg)
    if not {"address", "end_address", "predecessor"} <= written:
        raise AnalysisError(f"allocate_indices: per-trial fields not recognised ({sorted(written)})")
    # reads by the permutation step
    readers = [q for q in ("HillClimbAllocator.attempt_bottleneck_fix", "HillClimbAllocator.add_predecessor_turns", "HillClimbAllocator.search") if q in m.functions]
    if len(readers) < 2:
        raise AnalysisError("HillClimb: permutation step functions not found")
    unguarded = {}
    for q in readers:
        g = m.functions[q]
        parents = {}
        for n in ast.walk(g):
            for ch in ast.iter_child_nodes(n):
                parents[ch] = n
        for x in ast.walk(g):
            if isinstance(x, ast.Attribute) and isinstance(x.ctx, ast.Load) and x.attr in written and x.attr != "address":
                base = str(norm(x.value))
                # guarded by a test of the allocated marker of the same object?
                guarded = False
                p_ = x
                while p_ in parents:
                    p_ = parents[p_]
                    tests = []
                    if isinstance(p_, (ast.If, ast.IfExp, ast.While)):
                        tests.append(p_.test)
                    if isinstance(p_, ast.BoolOp):
                        tests.extend(p_.values)
                    if isinstance(p_, ast.comprehension):
                        tests.extend(p_.ifs)
                    for t in tests:
                        if any(isinstance(y, ast.Compare) and f"{base}.address" in str(norm(y)) and "NOT_ALLOCATED" in str(norm(y)) for y in ast.walk(t)):
                            guarded = True
                if not guarded:
                    unguarded.setdefault(x.attr, []).append(f"{q.split('.')[-1]}:{x.lineno}")
    rep.ok("C05-g", site, f"trial loop over the indices, per-trial fields {sorted(written)}, re-initialised for every range: {sorted(reset)}, early exits: {len(early)}",
           f"read without an 'allocated' test by the permutation step: {sorted(unguarded)}")
    if not early:
        return
    for fld in sorted((written & set(unguarded)) - reset):
        if fld in _TRIAL_FIELD_EXEMPT:
            rep.ok("C05-g", site, f"`{fld}` may be stale after an aborted trial", _TRIAL_FIELD_EXEMPT[fld])
            continue
        rep.bad("C05-g", site, f"`{fld}` is re-initialised for every range before a trial that may stop early",
                f"the trial loop leaves at line {early[0].lineno} before all ranges are placed, `{fld}` is only written for the ranges reached, and {unguarded[fld][0]} reads it off every range: "
                "a range of an older trial becomes the bottleneck (ValueError 'empty range in randrange(0, 0)' for 6 ranges with sizes 8 .. 8016) or its predecessor chain is followed")



def rule_search_precondition(repo, rep):
    """(h) attempt_bottleneck_fix draws two different turns from the ranges that affected the bottleneck (`randint(0, len(turn_list) - 2)`);
    that list has at least two entries only if the bottleneck lies above address 0, i.e. the allocation is *above* the peak sum of live
    sizes. The search is therefore entered only for best_size > min_required_size (strict) and left as soon as best_size <= min_required_size."""
    m = repo.mod("hillclimb_allocation")
    f = m.func("HillClimbAllocator.allocate")
    site = "ethosu/vela/hillclimb_allocation.py:HillClimbAllocator.allocate"
    guards = [i for i in ast.walk(f) if isinstance(i, ast.If) and any(isinstance(c, ast.Call) and str(norm(c.func)) == "self.search" for st in i.body for c in ast.walk(st))]
    calls = [c for c in ast.walk(f) if isinstance(c, ast.Call) and str(norm(c.func)) == "self.search"]
    if len(calls) != 1:
        raise AnalysisError("HillClimbAllocator.allocate: call of search() not found")
    want = comparison(ast.parse("self.best_size > self.min_required_size", mode="eval").body)
    ok = len(guards) == 1 and comparison(guards[0].test) == want
    rep.check(ok, "C05-h", site, "search() is entered only if best_size > min_required_size (strict)",
              f"`{str(norm(guards[0].test)) if guards else 'unguarded'}`: for an optimal first allocation whose largest range sits alone at address 0 the candidate list has one entry: "
              "ValueError 'empty range in randrange(0, 0)' instead of an allocation (single live range, ranges never live together)")
    g = m.func("HillClimbAllocator.search")
    rets = [i for i in ast.walk(g) if isinstance(i, ast.If) and i.body and isinstance(i.body[-1], ast.Return) and "min_required_size" in str(norm(i.test))]
    want2 = comparison(ast.parse("self.best_size <= self.min_required_size", mode="eval").body)
    rep.check(len(rets) == 1 and comparison(rets[0].test) == want2, "C05-h", "ethosu/vela/hillclimb_allocation.py:HillClimbAllocator.search", "search() returns as soon as best_size <= min_required_size",
              f"{[str(norm(i.test)) for i in rets]}")



def rule_mark_usage_closed(repo, rep):
    """(b') LiveRange.mark_usage(t, length) registers the closed interval [t, t + length]; length 0 is 'in use for exactly step t' (the
    double-buffered weight buffer that is neither used last nor pre-fetched). Only a negative length is an empty usage: the early return
    tests `end < start` strictly."""
    lr = repo.mod("live_range")
    f = lr.func("LiveRange.mark_usage")
    site = "ethosu/vela/live_range.py:LiveRange.mark_usage"
    guards = [i for i in ast.walk(f) if isinstance(i, ast.If) and i.body and isinstance(i.body[0], ast.Return) and "op_time_end" in str(norm(i.test))]
    if len(guards) != 1:
        raise AnalysisError(f"LiveRange.mark_usage: {len(guards)} empty-interval guards")
    want = comparison(ast.parse("op_time_end < op_time_start", mode="eval").body)
    rep.check(comparison(guards[0].test) == want, "C05-b", site, "only an interval with end < start is empty (a usage of length 0 is one time step)",
              f"`{str(norm(guards[0].test))}`: a length-0 usage is dropped; a range with only such usages is alive nowhere and is placed at address 0 on top of buffers in use at that step (conv1_weights_buf0 [0,2048) over ifm [0,4096))")


def _canon(form):
    keys = sorted(k for k in form if k != "")
    if keys and form[keys[0]] < 0:
        return {k: -v for k, v in form.items()}
    return dict(form)


def _canon_ord(form, ords):
    keys = sorted(k for k in form if k != "")
    if keys and form[keys[0]] < 0:
        return {{LT: GT, GT: LT, EQ: EQ}[o] for o in ords}
    return set(ords)


def rule_round5(repo, rep):
    """(e) the search terminates within its iteration bound: the bound given by the caller is used as given (0 is a bound, None
    means the default); the test that distinguishes 'not given' is an identity test, not a truth test."""
    rep.clause("C05-e", "numeric options of the allocators with a 'not given' default (None) are tested with `is None`: 0 is a value (--hillclimb-max-iterations 0 means no search iterations, not the default 99999)")
    n = 0
    for mname in ("hillclimb_allocation", "tensor_allocation", "greedy_allocation"):
        m = repo.mod(mname)
        for q, fn in m.functions.items():
            numeric = {a.arg for a in fn.args.args + fn.args.kwonlyargs if a.annotation is not None and "int" in str(norm(a.annotation))} | \
                {a.arg for a in fn.args.args if a.arg in ("max_iterations", "memory_limit", "alloc_granularity", "alignment")}
            if not numeric:
                continue
            for x in ast.walk(fn):
                tested = []
                if isinstance(x, ast.BoolOp):
                    tested = [v for v in x.values[:-1] if isinstance(v, ast.Name)]
                    if isinstance(x.op, ast.And) or True:
                        pass
                elif isinstance(x, (ast.If, ast.IfExp, ast.While)):
                    t = x.test
                    tested = [t] if isinstance(t, ast.Name) else ([t.operand] if isinstance(t, ast.UnaryOp) and isinstance(t.op, ast.Not) and isinstance(t.operand, ast.Name) else [])
                for v in tested:
                    if v.id in numeric:
                        n += 1
                        rep.bad("C05-e", f"ethosu/vela/{mname}.py:{q}", f"`{v.id}` (a number, None when not given) is compared with None by identity",
                                f"`{str(norm(x))[:70]}` truth-tests `{v.id}`: the legal value 0 is treated as 'not given' (max_iterations 0 runs 99999 search iterations)")
            for c in ast.walk(fn):
                if isinstance(c, ast.Compare) and isinstance(c.left, ast.Name) and c.left.id in numeric and len(c.ops) == 1 and isinstance(c.ops[0], (ast.Is, ast.IsNot)):
                    n += 1
                    rep.ok("C05-e", f"ethosu/vela/{mname}.py:{q}", f"`{str(norm(c))}`", "identity test against None")
    if n < 1:
        raise AnalysisError("allocator option defaults: no None tests found")
    rep.floor("C05-e", 1)


def rule_round9(repo, rep):
    """(i) `LiveRange.__init__` stores its `alignment` parameter (the allocators place by `get_alignment()`; the storage rounding quantum of
    the tensor is a different number). `linear_allocate_live_ranges`: on the path that hands out a fresh address the running total is
    the address itself when the freshness test `address == total_sz` is evaluated - the address statement assigns both, or the total is
    assigned from the address before the test (CFG: every path from the rounding to the test passes an assignment of total_sz)."""
    lrm = repo.mod("live_range")
    init = lrm.func("LiveRange.__init__")
    if init is None:
        raise AnalysisError("live_range.LiveRange.__init__ not found")
    params = [a.arg for a in init.args.args]
    st = [a for a in ast.walk(init) if isinstance(a, ast.Assign) and str(norm(a.targets[0])) == "self.alignment"]
    if "alignment" not in params or len(st) != 1:
        raise AnalysisError("LiveRange.__init__: alignment parameter / store not found")
    rep.check(isinstance(st[0].value, ast.Name) and st[0].value.id == "alignment", "C05-i", "ethosu/vela/live_range.py:LiveRange.__init__", "`self.alignment = alignment` (the requested placement alignment)",
              f"`{norm(st[0])}`: the alignment requested through get_or_create_range(tens, alignment) is dropped at creation; a tensor whose range is requested once (the intermediate of a CPU pass) is placed 16-byte aligned only")
    ta = repo.mod("tensor_allocation")
    f = ta.func("linear_allocate_live_ranges")
    site = "ethosu/vela/tensor_allocation.py:linear_allocate_live_ranges"
    rounds = [a for a in ast.walk(f) if isinstance(a, ast.Assign) and any(str(norm(t)) == "address" for t in a.targets) and "round_up" in str(norm(a.value)) and "total_sz" in str(norm(a.value))]
    tests = [i for i in ast.walk(f) if isinstance(i, ast.If) and str(norm(i.test)) in ("address == total_sz", "total_sz == address")]
    if len(tests) != 1 or len(rounds) > 1:
        raise AnalysisError(f"linear_allocate_live_ranges: rounding statement / freshness test not found ({len(rounds)}, {len(tests)})")
    if not rounds:
        # no alignment step at all: the address is the running total itself (whether that is right is C05-a's question, not this one's)
        rounds = [a for a in ast.walk(f) if isinstance(a, ast.Assign) and any(str(norm(t)) == "address" for t in a.targets) and "total_sz" in str(norm(a.value))]
        if len(rounds) != 1:
            raise AnalysisError("linear_allocate_live_ranges: the statement that takes the next address from the running total was not found")
    both = any(str(norm(t)) == "total_sz" for t in rounds[0].targets) or str(norm(rounds[0].value)) == "total_sz"
    if not both:
        c = cfg_of(f)
        src = c.nodes_where(lambda n_: n_.stmt is rounds[0])
        dst = c.nodes_where(lambda n_: n_.kind == "test" and n_.stmt is tests[0])
        setters = c.nodes_where(lambda n_: n_.stmt is not None and n_.kind != "test" and isinstance(n_.stmt, ast.Assign) and any(str(norm(t)) == "total_sz" for t in n_.stmt.targets) and str(norm(n_.stmt.value)) == "address")
        both = bool(src and dst) and not c.path_avoiding(src[0], dst[0], set(setters))
    # the skip test `if tens in <visited>: continue` is fed with every tensor of the range that just received its address
    loops = [l for l in ast.walk(f) if isinstance(l, ast.For) and str(norm(l.iter)).endswith(".ranges.items()") and isinstance(l.target, ast.Tuple) and len(l.target.elts) == 2]
    if len(loops) != 1:
        raise AnalysisError("linear_allocate_live_ranges: loop over the tensor -> range map not found")
    tv, rv = (e.id for e in loops[0].target.elts)
    skips = [i for i in loops[0].body if isinstance(i, ast.If) and isinstance(i.test, ast.Compare) and isinstance(i.test.ops[0], ast.In) and str(norm(i.test.left)) == tv and any(isinstance(x, ast.Continue) for x in i.body)]
    if len(skips) != 1:
        raise AnalysisError("linear_allocate_live_ranges: the already-allocated skip test was not found")
    visited = str(norm(skips[0].test.comparators[0]))
    adds = []
    for st in ast.walk(loops[0]):
        if isinstance(st, ast.AugAssign) and str(norm(st.target)) == visited:
            adds.append(st.value)
        if isinstance(st, ast.Call) and isinstance(st.func, ast.Attribute) and str(norm(st.func.value)) == visited and st.func.attr in ("extend", "update", "append", "add") and st.args:
            adds.append(st if st.func.attr in ("append", "add") else st.args[0])
    rep.check(len(adds) >= 1 and all(f"{rv}.tensors" in str(norm(a)) and not (isinstance(a, ast.Call) and a.func.attr in ("append", "add")) for a in adds), "C05-i", site,
              f"after `{rv}.set_address(..)` every tensor of the range (`{rv}.tensors`) is recorded in `{visited}`",
              f"`{'; '.join(str(norm(a)) for a in adds)}`: a range that holds several tensors (an elementwise OFM written over its IFM, a bypassed reshape) is visited again for its next tensor and gets a second address: "
              "AssertionError 'Two different addresses cannot be assigned to the same tensor' with --tensor-allocator LinearAlloc")
    rep.check(both, "C05-i", site, "the running total is moved to the aligned address before `address == total_sz` decides whether the space is fresh",
              f"`{norm(rounds[0])}`: after an alignment gap the freshness test is false, total_sz is not advanced past the range and the following ranges are laid out over it (addresses [0, 64, 16, 128] for sizes 16, 100, ..)")


# ------------------------------------------------------------------ round 10


def _bell_partitions(items):
    """all set partitions of a short list, as lists of classes"""
    if not items:
        yield []
        return
    head, rest = items[0], items[1:]
    for part in _bell_partitions(rest):
        for i in range(len(part)):
            yield part[:i] + [[head] + part[i]] + part[i + 1:]
        yield [[head]] + part


def rule_round10(repo, rep):
    """(j) HillClimb's turn order `indices` stays a permutation of the live ranges: every store into it is a parallel assignment among its
    own elements whose effect, simulated for every aliasing pattern of the index expressions (two drawn positions may coincide), leaves the
    multiset of elements unchanged, or a whole-list permutation (shuffle / sort / reverse).
    (k) Greedy's `current_allocs` is sorted by address whenever alloc() scans it for gaps: its writers are the empty list, a sort, an
    order-preserving filter of itself, or an append that is followed by a sort in the same function.
    (l) the linear allocator decides on what this call has placed: `.address` is read only off members of the call's own visited list."""
    rep.clause("C05-j", "HillClimb: every store into the turn order keeps it a permutation (parallel assignments simulated over all aliasing patterns of their index expressions)")
    hm = repo.mod("hillclimb_allocation")
    n = 0
    for q, fn in hm.functions.items():
        if not q.startswith("HillClimbAllocator."):
            continue
        site = f"ethosu/vela/hillclimb_allocation.py:{q}"
        for st in ast.walk(fn):
            tgts = []
            if isinstance(st, ast.Assign):
                for t in st.targets:
                    tgts += list(t.elts) if isinstance(t, (ast.Tuple, ast.List)) else [t]
            elif isinstance(st, (ast.AugAssign, ast.AnnAssign)):
                tgts = [st.target]
            elif isinstance(st, ast.Delete):
                tgts = list(st.targets)
            hit = [t for t in tgts if isinstance(t, ast.Subscript) and str(norm(t.value)) == "indices"]
            if hit:
                n += 1
                ok, why = False, "not a parallel assignment among elements of `indices`"
                if isinstance(st, ast.Assign) and len(st.targets) == 1:
                    t0 = st.targets[0]
                    ts = list(t0.elts) if isinstance(t0, (ast.Tuple, ast.List)) else [t0]
                    vs = list(st.value.elts) if isinstance(st.value, (ast.Tuple, ast.List)) else [st.value]
                    if len(ts) == len(vs) and all(isinstance(x, ast.Subscript) and str(norm(x.value)) == "indices" for x in ts + vs):
                        ti = [str(norm(x.slice)) for x in ts]
                        vi = [str(norm(x.slice)) for x in vs]
                        syms = sorted(set(ti + vi))
                        ok, why = True, ""
                        for part in _bell_partitions(syms):
                            pos = {s: k for k, cls in enumerate(part) for s in cls}
                            a = list(range(100, 100 + len(part)))
                            vals = [a[pos[s]] for s in vi]
                            for s, v in zip(ti, vals):
                                a[pos[s]] = v
                            if sorted(a) != list(range(100, 100 + len(part))):
                                eq = ", ".join(" == ".join(cls) for cls in part if len(cls) > 1) or "all positions distinct"
                                ok, why = False, f"with {eq} the assignment drops an element and duplicates another: a live range is never allocated (address -1 in the result)"
                                break
                rep.check(ok, "C05-j", site, f"`{str(norm(st))[:100]}` permutes elements of the turn order", why)
            if isinstance(st, ast.Expr) and isinstance(st.value, ast.Call) and isinstance(st.value.func, ast.Attribute) and str(norm(st.value.func.value)) == "indices":
                n += 1
                rep.check(st.value.func.attr in ("sort", "reverse"), "C05-j", site, f"`{str(norm(st))[:80]}` permutes the turn order", f"`{st.value.func.attr}` changes the set of elements")
    if n < 1:
        raise AnalysisError("HillClimbAllocator: no store into `indices` found")

    rep.clause("C05-k", "Greedy: the list of current allocations is sorted by address whenever alloc() scans it for gaps (writers: empty list, sort, order-preserving filter, append followed by a sort)")
    gm = repo.mod("greedy_allocation")
    n = 0
    for q, fn in gm.functions.items():
        if not q.startswith("GreedyAllocator."):
            continue
        site = f"ethosu/vela/greedy_allocation.py:{q}"
        body_stmts = [s for s in ast.walk(fn) if isinstance(s, ast.stmt)]
        for st in body_stmts:
            txt = str(norm(st))
            if isinstance(st, ast.Assign) and any(str(norm(t)) == "self.current_allocs" for t in st.targets):
                n += 1
                v = st.value
                vt = str(norm(v))
                ok = vt in ("[]", "list()") or vt.startswith(("sorted(", "list(sorted("))
                if isinstance(v, ast.ListComp) and len(v.generators) == 1 and str(norm(v.generators[0].iter)) == "self.current_allocs" and str(norm(v.elt)).strip("()") == str(norm(v.generators[0].target)).strip("()"):
                    ok = True
                rep.check(ok, "C05-k", site, f"`{txt[:90]}` keeps the allocations sorted by address", "neither empty, nor a sort, nor an order-preserving filter of the list itself")
            elif isinstance(st, (ast.Assign, ast.AugAssign, ast.Delete)) and any(
                    isinstance(t, ast.Subscript) and str(norm(t.value)) == "self.current_allocs" for t in (st.targets if not isinstance(st, ast.AugAssign) else [st.target])):
                n += 1
                rep.check(isinstance(st, ast.Delete), "C05-k", site, f"`{txt[:90]}` keeps the allocations sorted by address",
                          "an element is overwritten in place: alloc() walks the list assuming ascending addresses and takes the space below an entry that is out of order for a gap (two live ranges overlap)")
            elif isinstance(st, ast.Expr) and isinstance(st.value, ast.Call) and isinstance(st.value.func, ast.Attribute) and str(norm(st.value.func.value)) == "self.current_allocs":
                m_ = st.value.func.attr
                n += 1
                if m_ in ("append", "extend", "insert"):
                    later = [s for s in body_stmts if s.lineno > st.lineno and isinstance(s, (ast.Assign, ast.Expr)) and ("sorted(self.current_allocs" in str(norm(s)) or str(norm(s)) == "self.current_allocs.sort()")]
                    rep.check(bool(later), "C05-k", site, f"`{txt[:80]}` is followed by a sort of the list", "no sort follows in the same function")
                else:
                    rep.check(m_ in ("sort", "pop", "remove", "clear"), "C05-k", site, f"`{txt[:80]}` keeps the order", f"`{m_}` is not order preserving")
    if n < 4:
        raise AnalysisError(f"GreedyAllocator: {n} writers of current_allocs found")

    rep.clause("C05-l", "the linear allocator decides on what this call has placed: `.address` is read only off members of the call's own visited list, never off tensor state left by an earlier run")
    tm = repo.mod("tensor_allocation")
    fn = tm.func("linear_allocate_live_ranges")
    if fn is None:
        raise AnalysisError("linear_allocate_live_ranges not found")
    fresh = {st.targets[0].id for st in ast.walk(fn) if isinstance(st, ast.Assign) and isinstance(st.targets[0], ast.Name) and str(norm(st.value)) in ("[]", "list()", "set()")}
    members = {s.target.id for s in ast.walk(fn) if isinstance(s, ast.For) and isinstance(s.target, ast.Name) and isinstance(s.iter, ast.Name) and s.iter.id in fresh}
    n = 0
    for a in ast.walk(fn):
        if isinstance(a, ast.Attribute) and a.attr == "address" and isinstance(a.ctx, ast.Load):
            n += 1
            base = str(norm(a.value))
            rep.check(base in members, "C05-l", "ethosu/vela/tensor_allocation.py:linear_allocate_live_ranges", f"`{base}.address` is read off a member of the visited list of this call",
                      f"`{base}` is not drawn from {sorted(fresh)}: an address left on a tensor by an earlier allocation run decides what this run does (a tensor placed earlier is skipped without "
                      "advancing the running total: later ranges are laid out from 0 over it and the reported total falls short)")
    if n < 2:
        raise AnalysisError(f"linear_allocate_live_ranges: {n} address reads found")


def rule_round11(repo, rep):
    """(m) every address the Greedy allocator hands out has been checked against the ranges that are live: alloc() reaches its one
    set_address call only through the scan of `current_allocs` (no return before the scan), and the address it sets is the variable the
    scan assigns (initialised to the aligned top). A remembered address of a released block is not such a value: the hole it named may have
    been partly taken since."""
    gm = repo.mod("greedy_allocation")
    fn = gm.func("GreedyAllocator.alloc")
    site = "ethosu/vela/greedy_allocation.py:GreedyAllocator.alloc"
    scans = [lp for lp in ast.walk(fn) if isinstance(lp, ast.For) and str(norm(lp.iter)) == "self.current_allocs"]
    sets = [c for c in ast.walk(fn) if isinstance(c, ast.Call) and isinstance(c.func, ast.Attribute) and c.func.attr == "set_address"]
    if len(scans) != 1 or not sets:
        raise AnalysisError(f"GreedyAllocator.alloc: {len(scans)} scans of current_allocs, {len(sets)} set_address calls")
    scan = scans[0]
    early = [r for r in ast.walk(fn) if isinstance(r, ast.Return) and r.lineno < scan.lineno]
    rep.check(not early, "C05-m", site, "no return precedes the gap scan: every placement goes through it", f"a return at line offset {early[0].lineno - fn.lineno if early else 0} leaves before the scan: the address set on that path was never compared with the live ranges")
    scan_vars = {str(norm(t)) for st in ast.walk(scan) if isinstance(st, ast.Assign) for t in st.targets}
    copies = {}
    for st in ast.walk(fn):
        if isinstance(st, ast.Assign) and len(st.targets) == 1 and isinstance(st.targets[0], ast.Name) and isinstance(st.value, ast.Name):
            copies[st.targets[0].id] = st.value.id
    for c in sets:
        arg = str(norm(c.args[0])) if c.args else ""
        arg = copies.get(arg, arg) if arg not in scan_vars else arg  # a plain copy of the scan's variable is that variable
        rep.check(arg in scan_vars and c.lineno > scan.lineno, "C05-m", site, f"`{str(norm(c))[:60]}` sets the offset chosen by the gap scan",
                  f"`{arg}` is not assigned by the scan of the live allocations (or is set before it): a remembered address of a released block is reused although a later range may have taken part of that hole - two live ranges overlap")

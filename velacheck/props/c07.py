"""C07 Weight compression is lossless, hardware-ordered and memory-safe (structural clauses).

The C sources are parsed by clang (-fsyntax-only, JSON AST) with the flags the
extension ships with: CPython's CFLAGS define NDEBUG, so `#ifndef NDEBUG`
blocks and every assert() are absent from the analysed program."""
import ast
import re

from ..astutil import calls_in, call_name, norm
from ..cast import CUnit
from ..core import AnalysisError
from ..roles import RoleChecker

ENC = "ethosu/mlw_codec/mlw_encode.c"
DEC = "ethosu/mlw_codec/mlw_decode.c"
MOD = "ethosu/mlw_codec/mlw_codecmodule.c"
WC = "ethosu/vela/weight_compressor.py"


def _lits(cu, node):
    return [int(n.get("value")) for n in cu.walk(node) if n.get("kind") == "IntegerLiteral" and str(n.get("value", "")).lstrip("-").isdigit()]


def _is_range_guard(cu, stmt):
    """A loop whose body rejects (returns) when an element is < -255 or > 255."""
    if stmt.get("kind") not in ("ForStmt", "WhileStmt"):
        return False
    for n in cu.walk(stmt):
        if n.get("kind") == "IfStmt":
            cond = n["inner"][0]
            t = cu.text(cond).replace(" ", "")
            if "<-255" in t and ">255" in t and "||" in t:
                if any(x.get("kind") == "ReturnStmt" for x in cu.walk(n["inner"][1])):
                    return True
    return False


def run(repo, rep):
    rep.clause("C07-a", "in the shipped build (NDEBUG defined) every path from an exported entry to a 512-entry table index (value + 256) passes a -255..255 range check that rejects")
    rep.clause("C07-b", "assert() calls are listed as absent in the shipped program (informational)")
    rep.clause("C07-c", "the encoder's returned length is the bit cursor / 8 after padding until (pos & 127) == 0; Python side pads the scale section to 16")
    rep.clause("C07-d", "encoder and decoder agree on the bit-stream fields: names, widths, header order, inverse biases; values fit their fields (DIROFS)")
    rep.clause("C07-e", "heap buffers are as large as the indices written to them (zero-run buffer, reorder growth check, allocation results tested)")
    rep.clause("C07-f", "kernel decomposition uses the dilation of the matching axis (dilation_xy[0] = x, [1] = y)")
    rep.clause("C07-g", "a cached stream is returned only for the block depth it was reordered for (cache-key components named after what they hold) [rule shared with C08-h]")
    rep.clause("C07-h", "the exported entries see the caller's values: array conversion never force-casts (a wider integer is rejected, not wrapped, before the -255..255 check)")
    rep.undecided("round trip equality, block traversal order, sufficiency of the inbuf_size*2+1024 output buffer, absence of all undefined behaviour (value level; a sanitizer / fuzzer decides those)")
    enc = CUnit(repo, ENC)
    dec = CUnit(repo, DEC)
    mod = CUnit(repo, MOD, need_python=True)
    rep.extra["c_functions_parsed"] = {ENC: len(enc.functions), DEC: len(dec.functions), MOD: len(mod.functions)}
    rep.extra["shipped_build_defines_NDEBUG"] = enc.ndebug
    rep.assume("the extension is built by setuptools with CPython's CFLAGS (-DNDEBUG) unless setup.py undefines it" + ("" if enc.ndebug else " [setup.py undefines NDEBUG on this tree]"))
    for need in ("mlw_encode", "mlw_reorder_encode", "encode_section", "encode_slice", "reorder", "create_palette", "calc_freq"):
        if need not in enc.functions:
            raise AnalysisError(f"C function {need} not found in {ENC}")

    # ---------------------------------------------------------------- a
    funcs = {}
    for cu in (enc, mod):
        for name, d in cu.functions.items():
            funcs[name] = (cu, d)
    sinks = {}
    for name, (cu, d) in funcs.items():
        for n in cu.walk(d):
            if n.get("kind") == "ArraySubscriptExpr":
                idx = n["inner"][1]
                t = cu.text(idx).replace(" ", "")
                if re.search(r"\+256$", t) and ("inbuf" in t or "buf[" in t or "weights[" in t):
                    sinks.setdefault(name, []).append(cu.text(n))
    rep.check(len(sinks) >= 3, "C07-a", ENC, "table-index sinks `x[value + 256]` found", f"only {sorted(sinks)}")
    needs = {}

    def analyse(name, stack=()):
        if name in needs:
            return needs[name]
        if name in stack or name not in funcs:
            return False
        cu, d = funcs[name]
        body = cu.body(name)
        guards = [cu.offset(s) for s in body.get("inner", []) if _is_range_guard(cu, s)]
        g = min(guards) if guards else None
        events = []
        for n in cu.walk(body):
            if n.get("kind") == "ArraySubscriptExpr":
                t = cu.text(n["inner"][1]).replace(" ", "")
                if re.search(r"\+256$", t) and ("inbuf" in t or "buf[" in t or "weights[" in t):
                    events.append((cu.offset(n), "sink " + cu.text(n)))
        for callee, call in cu.calls(body):
            if callee and callee in funcs and analyse(callee, stack + (name,)):
                events.append((cu.offset(call), "call " + callee))
        unprotected = [e for e in events if g is None or e[0] < g]
        needs[name] = bool(unprotected)
        needs[name + "#why"] = unprotected[:2]
        return needs[name]

    for entry in ("method_encode", "method_reorder_encode"):
        if entry not in mod.functions:
            raise AnalysisError(f"exported entry {entry} not found")
        bad = analyse(entry)
        rep.check(not bad, "C07-a", f"{MOD}:{entry}", f"every path from {entry} to a table index passes a rejecting -255..255 range check (NDEBUG build)",
                  f"unguarded chain: {needs.get(entry + '#why')} -> " + " -> ".join(f"{k}: {needs[k + '#why']}" for k in ("mlw_reorder_encode", "mlw_encode") if needs.get(k)) +
                  "; the only range loop of mlw_encode is inside #ifndef NDEBUG and the extension is built with -DNDEBUG")
    for api in ("mlw_encode", "mlw_reorder_encode"):
        rep.check(not analyse(api), "C07-a", f"{ENC}:{api}", f"the C entry point {api} validates the range itself in the shipped build", f"{needs.get(api + '#why')}")
    rep.floor("C07-a", 5)
    rule_list_range_check(repo, rep, mod)
    rep.clause("C07-o", "the direct (non-palette) code of every in-range weight -255..255 is in the inverse table (create_inverse_palette executed on the clang AST)")
    rule_inverse_palette(repo, rep, enc)
    rep.clause("C07-p", "qsort comparators decide by comparison: no 64-bit difference narrowed to the int result")
    rule_qsort_comparators(repo, rep, [enc, dec, mod])
    rep.clause("C07-q", "the encoder's negative error code reaches the wrapper that turns it into ValueError: mlw_reorder_encode returns mlw_encode's value unchanged")
    rule_error_code_forwarded(repo, rep, enc, mod)
    rule_subkernel_padding(repo, rep, enc)
    rule_zdiv_search_space(repo, rep, enc, dec)
    rep.clause("C07-k", "get_brick_weight: stride arithmetic on the caller's (possibly flipped, negative-stride) view stays signed or pointer-wide")
    rule_brick_index(repo, rep, enc)
    rule_wrapper_strides(repo, rep, mod)
    rep.clause("C07-r", "encode_section merges the weight and the zero-run slice boundaries with two independent cursors: each is advanced under its own test, neither in the else-branch of the other (a boundary shared by both lists advances both)")
    rule_slice_cursors(repo, rep, enc)
    rep.clause("C07-s", "create_palette (executed on the clang AST for four histograms, with and without zero runs): every occurring weight is representable - PALBITS covers the largest code without a palette, palette entries fit PALBITS, direct indices stay within 511")
    rule_create_palette_executed(repo, rep, enc)
    rep.clause("C07-t", "reorder: IFM block depth 32 for 8-bit depth-first, 16 for 16-bit IFMs and for part-kernel-first (initialiser evaluated for the four combinations)")
    rule_reorder_block_depth(repo, rep, enc)
    rep.clause("C07-v", "out-of-range weights are rejected, not wrapped: the entry points hand the caller's volume to the codec without a narrowing conversion (expected count 0, matcher exercised)")
    rule_no_silent_narrowing(repo, rep)
    rep.clause("C07-u", "an encoding is a function of the volume handed in: the weight compressor keeps no process-wide memo besides the reviewed compression cache [rule shared with C14-a]")
    from . import c14 as _c14

    rep.run_borrowed(_c14, {"C14-a": "C07-u"}, repo, only_sites=("weight_compressor",))
    rep.clause("C07-l", "reorder: a source weight is fetched exactly for lanes inside the volume; every other lane is zero padding (guard evaluated on probe lanes)")
    rule_lane_guard(repo, rep, enc)
    rep.clause("C07-m", "typed allocations: sizeof's element type is the pointee type of the table it sizes")
    rule_alloc_element_size(repo, rep, [enc, dec, mod])
    rep.clause("C07-n", "the wrapper's call of mlw_reorder_encode passes parameter-named variables at their parameter's position")
    rule_c_call_argument_names(repo, rep, mod, enc)
    rep.clause("C07-j", "locals of the Python encoder front end that are named after a side (ifm_ublock, ofm_ublock ..) are read from that side")
    from .shared import binding_stem_lint as _bsl7

    # no floor: a refactoring that unpacks the micro-blocks positionally leaves no side-named attribute read to compare
    _bsl7(repo, rep, "C07-j", ["weight_compressor"])

    # ---------------------------------------------------------------- b
    n_assert = 0
    for cu, rel in ((enc, ENC), (dec, DEC)):
        for m in re.finditer(r"\bassert\s*\(([^;]*)\)\s*;", cu.src):
            n_assert += 1
            rep.info("C07-b", rel, f"assert({' '.join(m.group(1).split())[:70]})", "absent in the shipped program (NDEBUG)" if enc.ndebug else "active")
    rep.extra["asserts_in_codec"] = n_assert

    # ---------------------------------------------------------------- c
    t = enc.func_text("mlw_encode")
    wl = [n for n in enc.walk(enc.body("mlw_encode")) if n.get("kind") == "WhileStmt"]
    pad = [w for w in wl if enc.text(w["inner"][0]).replace(" ", "") in ("bb->pos&127", "(bb->pos&127)!=0", "bb->pos%128")]
    rep.check(len(pad) == 1 and "bitbuf_put" in enc.text(pad[0]["inner"][1]), "C07-c", f"{ENC}:mlw_encode", "the stream is padded while (pos & 127) != 0", "padding loop changed")
    tt = t.replace(" ", "")
    rep.check("bitpos=bb->pos;" in tt and re.search(r"intoutbuf_size=bitpos/8;", tt) is not None and tt.index("bitpos=bb->pos;") < tt.index("intoutbuf_size=bitpos/8;"), "C07-c",
              f"{ENC}:mlw_encode", "returned size = bit cursor after padding / 8", "")
    rep.check(re.search(r"return\*outbuf\?outbuf_size:-1;", tt) is not None, "C07-c", f"{ENC}:mlw_encode", "the padded size is what is returned", "")
    rep.check('bitbuf_put(bb,"BYTEALIGN",(8-(bb->pos&7))&7,0xff);' in tt and tt.index('"BYTEALIGN"') < tt.index('"PAD"'), "C07-c", f"{ENC}:mlw_encode", "byte alignment precedes the 128-bit padding", "")
    after = tt[tt.index("intoutbuf_size=bitpos/8;"):]
    rep.check("bitbuf_put" not in after, "C07-c", f"{ENC}:mlw_encode", "nothing is written after the size is taken", "")
    rep.floor("C07-c", 5)

    # ---------------------------------------------------------------- d
    def fields(cu, fn_names, callee):
        out = []
        for fn in fn_names:
            for name, call in cu.calls(cu.body(fn)):
                if name == callee:
                    nm = cu.string_arg(call, 1)
                    w = cu.arg_text(call, 2)
                    out.append((nm, (w or "").replace(" ", "").replace("p->", ""), cu.offset(call)))
        return out

    put = fields(enc, ["encode_slice", "mlw_encode"], "bitbuf_put")
    get = fields(dec, [n for n in dec.functions if n not in ("bitbuf_get", "bitbuf_init")], "bitbuf_get")
    pw = {}
    for nm, w, _ in put:
        pw.setdefault(nm, set()).add(w)
    gw = {}
    for nm, w, _ in get:
        gw.setdefault(nm, set()).add(w)
    for nm in sorted(set(pw) | set(gw)):
        if nm == "PAD":
            continue  # padding bytes are skipped by the decoder's stream end handling
        rep.check(nm in pw and nm in gw and pw[nm] == gw[nm], "C07-d", f"{ENC}/{DEC}", f"field {nm}: encoder width {sorted(pw.get(nm, []))} == decoder width {sorted(gw.get(nm, []))}",
                  "field missing on one side or widths differ")
    hdr = ["ZDIV", "SLICELEN", "WDIV", "WTRUNC", "NEWPAL", "DIROFS", "PALSIZE", "PALBITS", "PALETTE"]
    po = [nm for nm, w, o in sorted((x for x in put if x[0] in hdr and x[2] <= max(o for n_, w_, o in put if n_ == "PALETTE")), key=lambda x: x[2])]
    go_ = []
    for nm, w, o in sorted(get, key=lambda x: x[2]):
        if nm in hdr and nm not in go_:
            go_.append(nm)
    rep.check(po == hdr and go_ == hdr, "C07-d", f"{ENC}/{DEC}", "slice header order ZDIV SLICELEN WDIV WTRUNC NEWPAL DIROFS PALSIZE PALBITS PALETTE on both sides", f"encoder {po}, decoder {go_}")
    et = enc.func_text("encode_slice").replace(" ", "")
    dt = " ".join(dec.func_text(n) for n in dec.functions).replace(" ", "")
    for lbl, e_pat, d_pat in (("SLICELEN", '"SLICELEN",15,nvalues-1', '"SLICELEN",15)+1'), ("PALBITS", '"PALBITS",3,p->palbits-2', '"PALBITS",3)+2'),
                              ("PALSIZE", '"PALSIZE",5,max(0,p->palsize-1)', 'if(palsize>0)palsize++')):
        rep.check(e_pat in et and d_pat in dt, "C07-d", f"{ENC}/{DEC}", f"{lbl}: the decoder undoes the encoder's bias", "bias changed on one side")
    # DIROFS is a 5-bit field: direct_offset must stay <= 31
    cp = enc.body("create_palette")
    loops = [n for n in enc.walk(cp) if n.get("kind") == "ForStmt"]
    dl = None
    ctext = enc.func_text("create_palette").replace(" ", "")
    m = re.search(r"for\(i=0;i<(\d+);i\+\+\)\{if\(\(freq64\[i\]>>16\)!=0\)break;\}p->direct_offset=i;", ctext)
    width = next((int(w) for nm, w, _ in put if nm == "DIROFS" and w.isdigit()), None)
    rep.check(m is not None and width is not None and int(m.group(1)) <= (1 << width) - 1, "C07-d", f"{ENC}:create_palette", f"direct_offset <= 2^{width} - 1 so that it fits the {width}-bit DIROFS field",
              f"loop bound {m.group(1) if m else '?'} lets direct_offset reach 2^{width}: the field wraps to 0 while the indices were already rebased")
    # chunk geometry: how many symbols a chunk holds and when the weight / zero-run streams are enabled is computed
    # independently on both sides; the initialisers must be the same expressions (use_zero_runs naming normalised)
    def decls(cu, fnames, names):
        out = {}
        for fn in fnames:
            for n in cu.walk(cu.body(fn)):
                if n.get("kind") == "VarDecl" and n.get("name") in names and n.get("inner"):
                    out.setdefault(n["name"], []).append((cu, n["inner"][-1]))
        return out

    import itertools

    from ..cast import CEvalError, c_eval, c_free_vars

    geo = ("max_symbols", "z_unary_len", "balance", "z_enable")
    alias = {"use_zero_runs": "use_zero_run"}
    flags = {"w_uncompressed", "use_zero_run"}
    ed = decls(enc, ["encode_slice"], geo)
    dd = decls(dec, list(dec.functions), geo)
    for nm in geo:
        if len(ed.get(nm, ())) != 1 or len(dd.get(nm, ())) != 1:
            raise AnalysisError(f"chunk geometry variable {nm}: expected one declaration per side, got {len(ed.get(nm, ()))} / {len(dd.get(nm, ()))}")
        (ecu, en_), (dcu, dn_) = ed[nm][0], dd[nm][0]
        ev = sorted({alias.get(v, v) for v in c_free_vars(en_)})
        dv = sorted({alias.get(v, v) for v in c_free_vars(dn_)})
        allv = sorted(set(ev) | set(dv))
        diff = None
        cnt = 0
        try:
            for vals in itertools.product(*[(0, 1) if v in flags else range(-2, 10) for v in allv]):
                env = dict(zip(allv, vals))
                env.update({k: env[v] for k, v in alias.items() if v in env})
                cnt += 1
                a_, b_ = c_eval(en_, env), c_eval(dn_, env)
                if a_ != b_:
                    diff = (dict(zip(allv, vals)), a_, b_)
                    break
        except CEvalError as e_:
            raise AnalysisError(f"chunk geometry `{nm}` not evaluable: {e_}")
        rep.check(diff is None, "C07-d", f"{ENC}/{DEC}", f"chunk geometry `{nm}` has the same value in encoder and decoder for every assignment of {allv} ({cnt} points)",
                  (f"encoder `{ecu.text(en_)}` = {diff[1]}, decoder `{dcu.text(dn_)}` = {diff[2]} at {diff[0]}" if diff else "") + ": the two sides cut the chunks differently and the interleaved fields desynchronise")
    rep.floor("C07-d", 20)

    # ---------------------------------------------------------------- e
    es = enc.func_text("encode_section").replace(" ", "")
    m = re.search(r"CHECKED_MALLOC\(zrun_values,([^;]*)\);", es)
    need_plus_one = "zrun_values[n_weights]=zcnt;" in es and "search_grc_params(zrun_values,n_weights+1," in es
    ok = m is not None and m.group(1) in ("(size+1)*sizeof(int)", "sizeof(int)*(size+1)", "(1+size)*sizeof(int)")
    rep.check(ok or not need_plus_one, "C07-e", f"{ENC}:encode_section", "zrun_values holds size + 1 ints (index n_weights <= size is written, n_weights + 1 values are read)",
              f"allocated {m.group(1) if m else '?'}: zrun_values[n_weights] with n_weights == size writes one int past the block (e.g. a one-weight all-zero section)")
    m2 = re.search(r"CHECKED_MALLOC\(weight_values,([^;]*)\);", es)
    rep.check(m2 is not None and m2.group(1) == "size*sizeof(int)", "C07-e", f"{ENC}:encode_section", "weight_values holds size ints (n_weights <= size)", m2.group(1) if m2 else "")
    rt = enc.func_text("reorder").replace(" ", "")
    mg = re.search(r"weight_cnt\+\+;if\(weight_cnt(==|>=|>)length\)\{[^}]*length\*=2;weights=\(int16_t\*\)realloc\(weights,length\*sizeof\(int16_t\)\);", rt)
    rep.check(mg is not None and mg.group(1) in ("==", ">="), "C07-e", f"{ENC}:reorder", "the reorder buffer grows as soon as it is full (weight_cnt == length), before the next store",
              f"growth test is `weight_cnt {mg.group(1) if mg else '?'} length`: one element is stored past the block before it grows")
    rep.check("if(!weights)" in rt, "C07-e", f"{ENC}:reorder", "realloc result is tested", "")
    me = enc.func_text("mlw_encode").replace(" ", "")
    rep.check("*outbuf=malloc(bitbuf_size);if(!*outbuf)" in me, "C07-e", f"{ENC}:mlw_encode", "output buffer allocation is tested", "")
    sg = enc.func_text("search_grc_params").replace(" ", "")
    unchecked = re.findall(r"state\[i\]=malloc\([^;]*\);(?!if\(!state\[i\]\))", sg)
    if unchecked:
        rep.info("C07-e", f"{ENC}:search_grc_params", "state[i] = malloc(...) is used without a NULL test", "robustness observation (allocation failure only)")
    _alloc_vs_constant_stores(rep, enc, ENC)
    _round5(repo, rep, enc)
    rep.floor("C07-e", 6)

    # ---------------------------------------------------------------- f (Python side)
    wc = repo.mod("weight_compressor")
    ew = wc.func("encode_weights")
    rc = RoleChecker(index_conventions={r"^dilation_xy$": {0: "W", 1: "H"}}, name_axes={"decomp_h": "H", "decomp_w": "W"})
    n = 0
    for s in ast.walk(ew):
        if isinstance(s, ast.Assign) and norm(s.targets[0]) in ("decomp_h", "decomp_w"):
            ta = "H" if norm(s.targets[0]) == "decomp_h" else "W"
            leaves = rc.axes(s.value)
            n += 1
            bad = [(a, t_) for a, t_ in leaves if a != ta]
            rep.check(not bad and len(leaves) >= 2, "C07-f", f"{WC}:encode_weights", norm(s), f"{ta}-axis decomposition uses {bad}: with unequal dilation the kernel is split along the wrong axis")
    call = [c for c in calls_in(ew, "mlw_codec.reorder_encode")]
    rep.check(len(call) == 1 and [norm(a) for a in call[0].args[-2:]] == ["decomp_h", "decomp_w"], "C07-f", f"{WC}:encode_weights", "reorder_encode(..., decomp_h, decomp_w)", "")
    f2 = wc.func("encode_weight_and_scale_tensor")
    c2 = calls_in(f2, "encode_weights")
    kw = {k.arg: norm(k.value) for k in c2[0].keywords} if c2 else {}
    rep.check(kw.get("dilation_xy") == "kernel.dilation", "C07-f", f"{WC}:encode_weight_and_scale_tensor", "dilation_xy = kernel.dilation (PointXY: x, y)", str(kw.get("dilation_xy")))
    from .shared import pair_unpack_lint

    pair_unpack_lint(repo, rep, "C07-f", ["weight_compressor", "operation", "architecture_allocator", "high_level_command_to_npu_op", "register_command_stream_util"])
    rep.floor("C07-f", 3)

    # ---------------------------------------------------------------- e': output buffer bound, zero-run cursor
    me = enc.body("mlw_encode")
    bs = [n for n in enc.walk(me) if n.get("kind") == "VarDecl" and n.get("name") == "bitbuf_size" and n.get("inner")]
    if len(bs) != 1:
        raise AnalysisError("mlw_encode: bitbuf_size declaration not found")
    from ..cast import CEvalError, c_eval

    short = None
    try:
        for nvals in (0, 1, 7, 8, 1000, 65536, 1 << 20):
            v = c_eval(bs[0]["inner"][-1], {"inbuf_size": nvals})
            if v < 2 * nvals + 1024 and short is None:
                short = (nvals, v)
    except CEvalError as e_:
        raise AnalysisError(f"bitbuf_size not evaluable: {e_}")
    rep.check(short is None, "C07-e", f"{ENC}:mlw_encode", "the output bit buffer holds at least 2 bytes per weight + 1024 (palette-mode GRC coding of out-of-palette weights needs more than the 9 raw bits)",
              f"`{enc.text(bs[0]['inner'][-1])}` gives {short[1] if short else ''} bytes for {short[0] if short else ''} weights: bitbuf_putbit (its assert is compiled out by NDEBUG) then writes past the allocation")
    # zero runs: the first slice of a section codes len + 1 runs (encode_slice: z_nvalues = nvalues + new_palette), every later slice
    # len runs starting one past its position, so that the runs consumed by consecutive slices are contiguous
    es = enc.body("encode_slice")
    zn = [n for n in enc.walk(es) if n.get("kind") == "VarDecl" and n.get("name") == "z_nvalues" and n.get("inner")]
    sec = enc.body("encode_section")
    zb = [n for n in enc.walk(sec) if n.get("kind") == "VarDecl" and n.get("name") == "zrun_buf" and n.get("inner")]
    if len(zn) != 1 or len(zb) != 1:
        raise AnalysisError("zero-run cursor declarations (z_nvalues / zrun_buf) not found")
    ok = True
    why = ""
    try:
        for newpal in (0, 1):
            cnt = c_eval(zn[0]["inner"][-1], {"nvalues": 10, "new_palette": newpal}) - 10
            txt = enc.text(zb[0]["inner"][-1]).replace(" ", "")
            m_ = re.match(r"p->use_zero_runs\?zrun_values\+(.*):0$", txt)
            if not m_:
                raise AnalysisError(f"zrun_buf initialiser not recognised: {txt}")
            off_txt = m_.group(1)
            # offset relative to pos, evaluated with a tiny expression grammar: pos, (!new_palette), integers, +
            off = 0
            for term in off_txt.split("+"):
                if term == "pos":
                    continue
                elif term in ("(!new_palette)", "!new_palette"):
                    off += 0 if newpal else 1
                elif term in ("new_palette", "(new_palette)"):
                    off += newpal
                elif term.isdigit():
                    off += int(term)
                else:
                    raise AnalysisError(f"zrun_buf offset term not recognised: {term}")
            # contiguity: (offset of a later slice) + (its count) must equal 1 + len, (offset of the first) + (its count) = len + 1
            if off + cnt != 1:
                ok = False
                why = f"with new_palette={newpal} the slice starts {off} past its position and codes len+{cnt} runs"
    except CEvalError as e_:
        raise AnalysisError(f"z_nvalues not evaluable: {e_}")
    rep.check(ok, "C07-d", f"{ENC}:encode_section", "zero runs consumed by consecutive slices of a section are contiguous (first slice len + 1 runs from its position, later slices len runs from one past it)",
              why + ": a later slice re-emits its predecessor's last zero run and drops its own last one")

    # slice boundaries: walking the parameter-search path backwards, a slice ends just before the position where the next configuration starts
    sg_ = enc.body("search_grc_params")
    ep = [n for n in enc.walk(sg_) if n.get("kind") == "BinaryOperator" and n.get("opcode") == "=" and enc.text(n["inner"][0]).strip() == "endpos" and "i" in enc.text(n["inner"][1])]
    if len(ep) != 1:
        raise AnalysisError("search_grc_params: back-tracking assignment of endpos not found")
    try:
        vals = [c_eval(ep[0]["inner"][1], {"i": v_}) - v_ for v_ in (1, 7, 100)]
    except CEvalError as e_:
        raise AnalysisError(f"endpos expression not evaluable: {e_}")
    rep.check(vals == [-1, -1, -1], "C07-d", f"{ENC}:search_grc_params", "a slice ends at i - 1 when position i is the first one coded with the next parameter set",
              f"`{enc.text(ep[0])}`: the value that needs the new parameters is still coded with the old ones (its quotient does not fit; the asserts are compiled out) and the decoder loses sync")

    # ---------------------------------------------------------------- h: conversion flags of the exported entries
    n_conv = 0
    for name, d in mod.functions.items():
        for callee, call in mod.calls(mod.body(name)):
            if callee and callee.startswith("PyArray_From") or (callee or "") in ("PyArray_FROM_OTF", "PyArray_FROM_OF", "PyArray_FROMANY", "PyArray_CheckFromAny"):
                n_conv += 1
                t = mod.text(call).replace(" ", "").replace("\n", "")
                rep.check("FORCECAST" not in t and "NPY_ARRAY_FORCE" not in t, "C07-h", f"{MOD}:{name}", f"{callee}(...) converts with safe casting only",
                          f"{t[:140]}: values outside int16 wrap modulo 2^16 before the range check, so e.g. 65539 is encoded as 3 instead of being rejected")
    if n_conv == 0:
        # macro-expanded form: fall back to the source text of the entry
        for name in ("method_reorder_encode",):
            t = mod.func_text(name).replace(" ", "")
            if "PyArray_FROM_OTF(" not in t:
                raise AnalysisError("array conversion call of method_reorder_encode not found")
            seg = t[t.index("PyArray_FROM_OTF("):]
            seg = seg[:seg.index(";")]
            n_conv += 1
            rep.check("FORCECAST" not in seg, "C07-h", f"{MOD}:{name}", "PyArray_FROM_OTF(...) converts with safe casting only",
                      f"{seg[:140]}: values outside int16 wrap modulo 2^16 before the range check, so e.g. 65539 is encoded as 3 instead of being rejected")
    rep.floor("C07-h", 1)
    from . import c08

    rep.run_borrowed(c08, {"C08-h": "C07-g", "C08-c": "C07-g"}, repo)
    from . import c15

    rep.run_borrowed(c15, {"C15-c": "C07-g"}, repo, only_sites=("architecture_features",))


def _alloc_vs_constant_stores(rep, cu, rel):
    """A block obtained with malloc(count * sizeof(T)) and then written unconditionally at a constant index k must hold at least
    k + 1 elements for every value of the integer parameters the count depends on that can reach the function: the count is
    evaluated (helpers such as round_up_divide inlined) at small parameter values including 0; a value is discarded when an
    early-return guard of the function, or of every caller chain up to an exported function, excludes it."""
    from ..cast import CEvalError, C_SIZEOF, c_eval

    def top(fn):
        b = [x for x in fn.get("inner", []) if x.get("kind") == "CompoundStmt"]
        return b[0].get("inner", []) if b else []

    def int_params(fn):
        return [p_.get("name") for p_ in fn.get("inner", []) if p_.get("kind") == "ParmVarDecl" and (p_.get("type") or {}).get("qualType") in ("int", "int64_t", "unsigned int", "size_t", "long")]

    def returns(st):
        if st.get("kind") == "ReturnStmt":
            return True
        if st.get("kind") == "CompoundStmt":
            inner = st.get("inner", [])
            return bool(inner) and inner[-1].get("kind") == "ReturnStmt"
        return False

    def excluded_by_guard(stmts, env):
        for st in stmts:
            if st.get("kind") == "IfStmt" and len(st.get("inner", [])) >= 2 and returns(st["inner"][1]):
                try:
                    if c_eval(st["inner"][0], env, cu):
                        return True
                except CEvalError:
                    pass
        return False

    def local_env(stmts, env):
        env = dict(env)
        for st in stmts:
            if st.get("kind") == "DeclStmt":
                for d in st.get("inner", []):
                    if d.get("kind") == "VarDecl" and d.get("inner") and d.get("name") not in env:
                        try:
                            env[d["name"]] = c_eval(d["inner"][-1], env, cu)
                        except CEvalError:
                            pass
        return env

    def reaches(fname, pname, value, depth=0):
        """can `fname` be entered with integer parameter `pname` == value? (exported function: yes unless guarded by its own early return)"""
        fn = cu.functions[fname]
        if excluded_by_guard(top(fn), {pname: value}):
            return False
        if fn.get("storageClass") != "static":
            return True
        if depth > 3:
            return False
        params = [p_.get("name") for p_ in fn.get("inner", []) if p_.get("kind") == "ParmVarDecl"]
        k = params.index(pname)
        for gname, g in cu.functions.items():
            for callee, call in cu.calls(g):
                if callee != fname or len(call.get("inner", [])) - 1 <= k:
                    continue
                arg = call["inner"][1 + k]
                while arg.get("kind") in ("ImplicitCastExpr", "ParenExpr"):
                    arg = arg["inner"][0]
                if arg.get("kind") == "DeclRefExpr" and arg.get("referencedDecl", {}).get("kind") == "ParmVarDecl":
                    q = arg["referencedDecl"]["name"]
                    # the call must not sit under a guard of the caller that excludes the value
                    idx = next((i for i, st in enumerate(top(g)) if any(x is call for x in cu.walk(st))), None)
                    if idx is not None and not excluded_by_guard(top(g)[:idx], {q: value}) and reaches(gname, q, value, depth + 1):
                        return True
        return False

    n = 0
    for fname, fn in cu.functions.items():
        stmts = top(fn)
        allocs = {}
        for i, st in enumerate(stmts):
            if st.get("kind") == "BinaryOperator" and st.get("opcode") == "=":
                lhs, rhs = st["inner"]
                mall = [c_ for nm, c_ in cu.calls(rhs) if nm == "malloc"]
                if lhs.get("kind") == "DeclRefExpr" and mall:
                    allocs[lhs["referencedDecl"]["name"]] = (i, mall[0]["inner"][1])
                if lhs.get("kind") == "ArraySubscriptExpr":
                    base, idx = lhs["inner"]
                    while base.get("kind") in ("ImplicitCastExpr", "ParenExpr"):
                        base = base["inner"][0]
                    while idx.get("kind") in ("ImplicitCastExpr", "ParenExpr"):
                        idx = idx["inner"][0]
                    nm = base.get("referencedDecl", {}).get("name") if base.get("kind") == "DeclRefExpr" else None
                    if nm in allocs and idx.get("kind") == "IntegerLiteral":
                        k = int(idx["value"])
                        ai, size_expr = allocs[nm]
                        et = (lhs.get("type") or {}).get("qualType")
                        esz = C_SIZEOF.get(et)
                        if esz is None:
                            continue
                        short = None
                        pts = 0
                        for pname in int_params(fn):
                            for v in (0, 1, 2, 63, 64, 65):
                                env = local_env(stmts[:ai], {pname: v})
                                if excluded_by_guard(stmts[:i], env):
                                    continue
                                try:
                                    nbytes = c_eval(size_expr, env, cu)
                                except CEvalError:
                                    continue
                                pts += 1
                                if nbytes < (k + 1) * esz and short is None and reaches(fname, pname, v):
                                    short = (pname, v, nbytes)
                        if pts == 0:
                            continue
                        n += 1
                        rep.check(short is None, "C07-e", f"{rel}:{fname}", f"`{nm}` (malloc({cu.text(size_expr)})) holds element {k}, which is stored unconditionally, for every reachable value of the size parameters ({pts} points)",
                                  (f"with {short[0]} == {short[1]} the block has {short[2]} bytes but `{cu.text(st)}` writes {esz} bytes at offset {k * esz}: heap overflow "
                                   f"(reachable from an exported function without a guard; e.g. mlw_codec.encode([]))") if short else "")
    if n < 1:
        raise AnalysisError("no malloc'd block with an unconditional constant-index store found (expected search_palette_sections.restart_pos)")


def _round5(repo, rep, enc):
    """(i) the end-of-stream marker is written on every path of mlw_encode (the decoder stops on it and on nothing else); the
    encoding configuration reaches the C encoder unexchanged: the IFM bit depth comes from the IFM operand, positional
    arguments named like the callee's parameters sit at their positions."""
    from .shared import swapped_argument_lint

    rep.clause("C07-i", "mlw_encode emits the end-of-stream marker unconditionally; the IFM bit depth handed to the encoder is the IFM operand's; arguments named like the callee's "
               "parameters are not exchanged on the way from the public API / the compiler to the encoder")
    f = enc.functions["mlw_encode"]
    eos = []
    for nm, call in enc.calls(f):
        if nm == "bitbuf_put" and "ZDIV_EOS" in enc.text(call):  # a macro: visible in the call's source text only
            eos.append(call)
    if len(eos) != 1:
        raise AnalysisError(f"mlw_encode: {len(eos)} end-of-stream emissions found (1 expected)")

    def conditional_ancestors(root, target, acc=()):
        if root is target:
            return list(acc)
        for ch in root.get("inner", []) or []:
            r = conditional_ancestors(ch, target, acc + ((root.get("kind"),) if root.get("kind") in ("IfStmt", "ForStmt", "WhileStmt", "DoStmt", "SwitchStmt", "ConditionalOperator") else ()))
            if r is not None:
                return r
        return None

    anc = conditional_ancestors(f, eos[0])
    if anc is None:
        raise AnalysisError("mlw_encode: end-of-stream emission not located in the function body")
    rep.check(not anc, "C07-i", f"{ENC}:mlw_encode", "the end-of-stream marker (ZDIV_EOS) is written unconditionally",
              f"the emission sits under {anc}: a stream for which the condition is false (e.g. one that already ends on a 128-bit boundary) has no terminator and the decoder reads past its end")
    wc = repo.mod("weight_compressor")
    ew = wc.func("encode_weight_and_scale_tensor")
    ib = [st for st in ast.walk(ew) if isinstance(st, ast.Assign) and str(norm(st.targets[0])) == "ifm_bitdepth"]
    if len(ib) != 1:
        raise AnalysisError("encode_weight_and_scale_tensor: ifm_bitdepth definition not found")
    src = str(norm(ib[0].value))
    rep.check(src.startswith("op.inputs[0].") or src.startswith("op.ifm."), "C07-i", "ethosu/vela/weight_compressor.py:encode_weight_and_scale_tensor", "ifm_bitdepth is the element width of the IFM operand (inputs[0])",
              f"`{src}`: the traversal (IFM block depth 32 vs 16, kernel padding 4 vs 2) is chosen from another operand's element width, so int16-IFM operators get the 8-bit weight layout")
    n = swapped_argument_lint(repo, rep, "C07-i", ["api", "weight_compressor", "scheduler", "npu_performance"])
    if n < 20:
        raise AnalysisError(f"argument / parameter name agreement: only {n} sites")
    rep.floor("C07-i", 20)


def rule_list_range_check(repo, rep, mod_cu):
    """(h') the list interface of method_encode narrows every element to int16_t. The range test that precedes the narrowing, evaluated as a C
    expression on `long` probe values (integral conversions and abs() modelled), rejects exactly the values outside -255..255 - also those
    that only look small after truncation to 32 bits."""
    from ..cast import CEvalError, c_eval

    site = f"{MOD}:method_encode"
    body = mod_cu.body("method_encode")
    casts = [n for n in mod_cu.walk(body) if n.get("kind") == "CStyleCastExpr" and ((n.get("type") or {}).get("qualType") == "int16_t")]
    ifs = [n for n in mod_cu.walk(body) if n.get("kind") == "IfStmt" and "255" in mod_cu.text(n["inner"][0]) and any(x.get("kind") == "ReturnStmt" for x in mod_cu.walk(n["inner"][1]))]
    if not casts or len(ifs) != 1:
        raise AnalysisError(f"method_encode: narrowing cast to int16_t ({len(casts)}) / rejecting range test ({len(ifs)}) not found")
    names = {x.get("referencedDecl", {}).get("name") for x in mod_cu.walk(ifs[0]["inner"][0]) if x.get("kind") == "DeclRefExpr" and x.get("referencedDecl", {}).get("kind") == "VarDecl"}
    if len(names) != 1:
        raise AnalysisError(f"method_encode: the range test reads {sorted(names)}")
    var = names.pop()
    probes = [-(1 << 32) - 3, -(1 << 32) + 3, -(1 << 31), -(1 << 31) + 1, -70000, -256, -255, -1, 0, 255, 256, 65791, (1 << 31) - 1, 1 << 31, (1 << 32), (1 << 32) + 5, (1 << 32) + 300]
    wrong = []
    for v in probes:
        try:
            got = bool(c_eval(ifs[0]["inner"][0], {var: v}, mod_cu))
        except CEvalError as ex:
            raise AnalysisError(f"method_encode: range test `{mod_cu.text(ifs[0]['inner'][0])}` not evaluable: {ex}")
        if got != (v < -255 or v > 255):
            wrong.append(v)
    rep.check(not wrong, "C07-h", site, f"the range test before `(int16_t){var}` rejects exactly the values outside -255..255 ({len(probes)} long probes up to 2^32 + 300)",
              f"`{mod_cu.text(ifs[0]['inner'][0])}` accepts {wrong[:4]}: the value is narrowed inside the test (e.g. abs() takes an int), passes, and the cast to int16_t then encodes a different, legal weight")


def rule_subkernel_padding(repo, rep, enc):
    """(f') reorder() pads the number of elements of a sub-kernel to what the traversal fetches per step: part-kernel-first works in groups
    of 2 (16-bit IFM) or 4 (8-bit IFM) kernel elements, depthwise in groups of 4 whatever the IFM precision, depth-first not at all. The
    if / else-if statement that does the padding is executed (c_exec) for every traversal, both precisions and 1..12 elements."""
    from ..cast import CEvalError, c_exec

    site = f"{ENC}:reorder"
    body = enc.body("reorder")
    cands = [n for n in enc.walk(body) if n.get("kind") == "IfStmt" and "is_partkernel" in enc.text(n["inner"][0]) and "subkernel_elements" in enc.text(n) and "round_up" in enc.text(n)]
    # the outermost such statement
    cands = [n for n in cands if not any(n is not o and any(x is n for x in enc.walk(o)) for o in cands)]
    if len(cands) != 1:
        raise AnalysisError(f"reorder: the statement that pads subkernel_elements was not found ({len(cands)} candidates)")
    wrong = None
    pts = 0
    for pk, dw in ((1, 0), (0, 1), (0, 0)):
        for bits in (8, 16):
            for n in range(1, 13):
                env = {"is_partkernel": pk, "is_depthwise": dw, "ifm_bitdepth": bits, "subkernel_elements": n}
                try:
                    c_exec(cands[0], env, enc)
                except CEvalError as ex:
                    raise AnalysisError(f"reorder: padding statement not executable: {ex}")
                m = (2 if bits == 16 else 4) if pk else (4 if dw else 1)
                want = -(-n // m) * m
                pts += 1
                if env["subkernel_elements"] != want and wrong is None:
                    wrong = (pk, dw, bits, n, env["subkernel_elements"], want)
    rep.check(wrong is None, "C07-f", site, f"sub-kernel elements are padded to 2 / 4 (part-kernel, 16- / 8-bit IFM), 4 (depthwise), 1 (depth-first) on {pts} points",
              (f"is_partkernel={wrong[0]} is_depthwise={wrong[1]} ifm_bitdepth={wrong[2]}: {wrong[3]} elements become {wrong[4]}, the traversal fetches {wrong[5]}: every later weight of the stream sits at "
               "the wrong position in hardware order") if wrong else "")



def rule_brick_index(repo, rep, enc):
    """(k) get_brick_weight addresses the source volume through the strides of the caller's array view. Vela hands over flipped views
    (transpose convolution: np.flip over H and W), whose strides are negative and whose base points at the last row / column: the
    offset arithmetic must stay signed (pointer steps, int, ptrdiff_t) or pointer-wide. A 32-bit or narrower unsigned variable that
    takes a stride product wraps to ~2^32 and indexes far outside the volume."""
    site = f"{ENC}:get_brick_weight"
    body = enc.body("get_brick_weight")
    narrow_unsigned = ("uint32_t", "unsigned int", "unsigned", "uint16_t", "uint8_t", "unsigned short", "unsigned char", "const uint32_t", "const unsigned int")
    n = 0
    bad = []
    for d in enc.walk(body):
        if d.get("kind") == "VarDecl":
            n += 1
            qt = (d.get("type") or {}).get("qualType", "")
            if qt.strip() in narrow_unsigned and "strides" in enc.text(d):
                bad.append(f"`{enc.text(d).strip()[:90]}` ({qt})")
        if d.get("kind") in ("CStyleCastExpr",) and ((d.get("type") or {}).get("qualType", "").strip() in narrow_unsigned) and "strides" in enc.text(d):
            bad.append(f"cast `{enc.text(d).strip()[:60]}`")
    uses = [x for x in enc.walk(body) if x.get("kind") == "MemberExpr" and x.get("name") == "strides"]
    if not uses:
        raise AnalysisError("get_brick_weight: no use of the view's strides found")
    rep.check(not bad, "C07-k", site, f"stride arithmetic stays signed or pointer-wide ({len(uses)} stride reads, {n} locals)",
              "; ".join(bad) + ": a negative stride (flipped transpose-convolution view) wraps to about 2^32 elements: out-of-bounds read of the weight volume")


def rule_slice_cursors(repo, rep, enc):
    """(r) encode_section walks two sorted boundary lists (w_slice_pos, z_slice_pos) and cuts a slice at the smaller next boundary. When the
    next boundaries coincide both cursors must move on, otherwise the next slice is empty (SLICELEN -1 in the stream). Structural form: every
    `i_<x>_slice++` sits in the then-branch of an if that is not inside the else-branch of an if advancing the other cursor."""
    site = f"{ENC}:encode_section"
    body = enc.body("encode_section")

    def incs(node):
        return {enc.text(d).replace("+", "").strip() for d in enc.walk(node) if d.get("kind") == "UnaryOperator" and d.get("opcode") == "++" and "_slice" in enc.text(d)}

    ifs = [d for d in enc.walk(body) if d.get("kind") == "IfStmt" and "slice_pos" in enc.text(d["inner"][0]) and "endpos" in enc.text(d["inner"][0])]
    if len(ifs) < 2:
        raise AnalysisError(f"encode_section: {len(ifs)} boundary tests found")
    cursors = set()
    for d in ifs:
        then_inc = incs(d["inner"][1])
        cursors |= then_inc
        else_inc = incs(d["inner"][2]) if len(d["inner"]) > 2 else set()
        other = else_inc - then_inc
        rep.check(not other, "C07-r", site, f"`if ({enc.text(d['inner'][0]).strip()[:60]})` advances {sorted(then_inc)} and has no other cursor in its else-branch",
                  f"{sorted(other)} is advanced only when {sorted(then_inc)} is not: when both lists have a boundary at the same position one cursor stays behind and the next slice is empty "
                  "(SLICELEN -1: the decoder underruns)")
    if len(cursors) < 2:
        raise AnalysisError(f"encode_section: cursors {sorted(cursors)}")


def rule_wrapper_strides(repo, rep, mod):
    """(k, wrapper side) method_reorder_encode turns the byte strides of the caller's view into element strides. The quotient / remainder is
    computed in the type clang gives the operator: int, a signed type, or a pointer-wide unsigned type (size_t: the low 32 bits of the wrapped
    quotient are the signed result for a divisor of 2). A 32-bit unsigned operator type turns -6 into 2147483645."""
    site = f"{MOD}:method_reorder_encode"
    body = mod.body("method_reorder_encode")
    narrow_unsigned = ("uint32_t", "unsigned int", "unsigned", "uint16_t", "uint8_t", "unsigned short", "unsigned char")
    ops = [d for d in mod.walk(body) if d.get("kind") == "BinaryOperator" and d.get("opcode") in ("/", "%") and "stride" in mod.text(d)]
    if len(ops) < 2:
        raise AnalysisError(f"method_reorder_encode: {len(ops)} stride divisions found")
    for d in ops:
        qt = (d.get("type") or {}).get("qualType", "").strip()
        rep.check(qt not in narrow_unsigned, "C07-k", site, f"`{mod.text(d).strip()[:60]}` is computed in a signed or pointer-wide type ({qt})",
                  f"the operator's type is {qt}: a negative byte stride (np.flip view of a transpose-convolution kernel) becomes an element stride of about 2^31 - out-of-bounds read in get_brick_weight")


def rule_lane_guard(repo, rep, enc):
    """(l) reorder() writes a source weight into a lane of the hardware-ordered stream only if the lane lies inside the volume
    (ifm_z < ifm_depth, ofm_z < ofm_depth, ky < sub_height); all other lanes are zero padding. The guard of the statement that calls
    get_brick_weight is evaluated (c_eval) on probe lanes inside and outside the volume - in particular OFM lanes beyond the depth but
    inside the (unclipped) OFM block."""
    from ..cast import CEvalError, c_eval

    site = f"{ENC}:reorder"
    body = enc.body("reorder")
    ifs = [n for n in enc.walk(body) if n.get("kind") == "IfStmt" and len(n.get("inner", [])) >= 2 and "get_brick_weight" in enc.text(n["inner"][1]) and "get_brick_weight" not in enc.text(n["inner"][0])]
    ifs = [n for n in ifs if not any(n is not o and any(x is n for x in enc.walk(o["inner"][1])) for o in ifs)] or ifs
    inner = [n for n in ifs if not any(o is not n and any(x is o for x in enc.walk(n["inner"][1])) for o in ifs)]
    if len(inner) != 1:
        raise AnalysisError(f"reorder: the guard of the get_brick_weight call was not found ({len(inner)} candidates)")
    cond = inner[0]["inner"][0]
    wrong = []
    pts = 0
    for ifm_z, ifm_depth in ((0, 3), (2, 3), (3, 3), (7, 3)):
        for ofm_z, ofm_depth, ofm_block_z, ofm_block_depth in ((0, 3, 0, 8), (2, 3, 0, 8), (3, 3, 0, 8), (7, 3, 0, 8), (9, 10, 8, 8), (10, 10, 8, 8), (15, 10, 8, 8)):
            for ky, sub_height in ((0, 2), (1, 2), (2, 2)):
                env = {"ifm_z": ifm_z, "ifm_depth": ifm_depth, "ofm_z": ofm_z, "ofm_depth": ofm_depth, "ofm_block_z": ofm_block_z, "ofm_block_depth": ofm_block_depth,
                       "clipped_ofm_block_depth": min(ofm_block_depth, ofm_depth - ofm_block_z), "clipped_ifm_block_depth": 16, "ifm_block_depth": 16, "ifm_block_z": 0,
                       "ky": ky, "sub_height": sub_height, "kx": 0, "sub_width": 1}
                try:
                    got = bool(c_eval(cond, env, enc))
                except CEvalError as ex:
                    raise AnalysisError(f"reorder: lane guard `{enc.text(cond)}` not evaluable: {ex}")
                want = ifm_z < ifm_depth and ofm_z < ofm_depth and ky < sub_height
                pts += 1
                if got != want:
                    wrong.append((env, got))
    rep.check(not wrong, "C07-l", site, f"a source weight is fetched exactly for lanes inside the volume (ifm_z < ifm_depth, ofm_z < ofm_depth, ky < sub_height) on {pts} probe lanes",
              (f"`{enc.text(cond)}` is {wrong[0][1]} for ifm_z={wrong[0][0]['ifm_z']}/{wrong[0][0]['ifm_depth']}, ofm_z={wrong[0][0]['ofm_z']}/{wrong[0][0]['ofm_depth']}, ky={wrong[0][0]['ky']}/{wrong[0][0]['sub_height']}: "
               "a lane outside the volume is read from the neighbouring weights or beyond the buffer instead of being zero padding") if wrong else "")



def rule_alloc_element_size(repo, rep, cus):
    """(m) `(T*)malloc / realloc(.., n * sizeof(U))`: the element type inside sizeof is the pointee type of the cast (or `sizeof(*p)`).
    A table of `int` grown with sizeof(int16_t) is half as large as the code that indexes it assumes: heap overflow once the table grows."""
    n = 0
    for cu in cus:
        for fname in cu.functions:
            try:
                body = cu.body(fname)
            except StopIteration:
                continue
            for c in cu.walk(body):
                if c.get("kind") != "CStyleCastExpr":
                    continue
                qt = ((c.get("type") or {}).get("qualType") or "").strip()
                if not qt.endswith("*"):
                    continue
                calls = [cn for cn, node in cu.calls(c) if cn in ("malloc", "realloc", "calloc")]
                if not calls:
                    continue
                pointee = qt[:-1].strip()
                sizes = [x for x in cu.walk(c) if x.get("kind") == "UnaryExprOrTypeTraitExpr" and x.get("name") == "sizeof"]
                for sz in sizes:
                    at = ((sz.get("argType") or {}).get("qualType") or "").strip()
                    if not at:
                        continue  # sizeof(expression)
                    n += 1
                    norm_t = lambda t: t.replace("const ", "").replace("struct ", "").strip()  # noqa: E731
                    size_of = lambda t: 8 if norm_t(t).endswith("*") else {"char": 1, "int8_t": 1, "uint8_t": 1, "unsigned char": 1, "short": 2, "int16_t": 2, "uint16_t": 2, "int": 4, "unsigned int": 4,  # noqa: E731
                                                                         "int32_t": 4, "uint32_t": 4, "float": 4, "long": 8, "int64_t": 8, "uint64_t": 8, "double": 8, "size_t": 8}.get(norm_t(t))
                    if norm_t(at) != norm_t(pointee) and size_of(at) is not None and size_of(pointee) is not None and size_of(at) >= size_of(pointee):
                        rep.ok("C07-m", f"ethosu/mlw_codec/{cu.rel.split('/')[-1]}:{fname}", f"`{cu.text(c).strip()[:70]}`", f"sizeof({at}) is not smaller than the {pointee} elements (over-allocation)")
                        continue
                    rep.check(norm_t(at) == norm_t(pointee), "C07-m", f"ethosu/mlw_codec/{cu.rel.split('/')[-1]}:{fname}", f"`{cu.text(c).strip()[:70]}`: sizeof({at}) for a {pointee} table",
                              f"the block is sized with sizeof({at}) but holds {pointee} elements: after the first growth the table is smaller than its index range (heap-buffer-overflow for streams with more than one forced palette restart per 64 weights)")
    if n < 6:
        raise AnalysisError(f"mlw_codec: {n} typed allocations found")


def rule_c_call_argument_names(repo, rep, mod_cu, enc):
    """(n) the C call of mlw_reorder_encode from the Python wrapper passes, for every argument that is a plain variable named like one of
    the callee's parameters, that variable at that parameter's position (kernel_height / kernel_width are two ints every type check
    accepts)."""
    decl = enc.functions.get("mlw_reorder_encode")
    if decl is None:
        raise AnalysisError("mlw_encode.c: mlw_reorder_encode not found")
    params = [x.get("name") for x in decl.get("inner", []) if x.get("kind") == "ParmVarDecl"]
    n = 0
    for fname in mod_cu.functions:
        try:
            body = mod_cu.body(fname)
        except StopIteration:
            continue
        for cn, call in mod_cu.calls(body):
            if cn != "mlw_reorder_encode":
                continue
            args = call["inner"][1:]
            for i, a in enumerate(args):
                names = [x.get("referencedDecl", {}).get("name") for x in mod_cu.walk(a) if x.get("kind") == "DeclRefExpr"]
                if len(names) == 1 and names[0] in params and i < len(params):
                    n += 1
                    rep.check(params[i] == names[0], "C07-n", f"{MOD}:{fname}", f"argument {i} `{names[0]}` is passed as parameter `{params[i]}` of mlw_reorder_encode",
                              f"`{names[0]}` sits at the position of `{params[i]}`: for non-square kernels the traversal walks the wrong axes and reads rows beyond the kernel height")
    if n < 4:
        raise AnalysisError(f"method_reorder_encode: {n} parameter-named arguments")


def rule_zdiv_search_space(repo, rep, enc, dec):
    """(d') the zero-run divisors the encoder's parameter search may select are legal in the stream: the search uses the first NZCFG entries of
    z_grc_params (NZCFG read from the expanded `zrun_mode ? NZCFG : NWCFG`), the decoder accepts z_grc_div < 4 (its assertion, read from the
    source: it is compiled out of the shipped build, which is why an illegal value round-trips through the project's own decoder)."""
    from ..cast import CEvalError, c_eval

    tab = None
    for d in enc.ast.get("inner", []):
        if d.get("kind") == "VarDecl" and d.get("name") == "z_grc_params":
            lits = [x for x in enc.walk(d) if x.get("kind") == "IntegerLiteral"]
            tab = [int(x["value"]) for x in lits if "value" in x]
            # the first literal may be the array bound
            init = [x for x in enc.walk(d) if x.get("kind") == "InitListExpr"]
            if init:
                tab = [int(x["value"]) for x in enc.walk(init[0]) if x.get("kind") == "IntegerLiteral"]
    if not tab:
        raise AnalysisError("z_grc_params not found")
    n_cfg = None
    for fname, fd in enc.functions.items():
        for n in enc.walk(fd):
            if n.get("kind") == "VarDecl" and n.get("name") == "n_cfg":
                try:
                    n_cfg = c_eval(n["inner"][-1], {"zrun_mode": 1}, enc)
                except CEvalError as ex:
                    raise AnalysisError(f"n_cfg initialiser not evaluable: {ex}")
    if n_cfg is None:
        raise AnalysisError("the search width `n_cfg = zrun_mode ? NZCFG : NWCFG` was not found")
    m = re.search(r"assert\(\s*z_grc_div\s*<\s*(\d+)", dec.src)
    if not m:
        raise AnalysisError("the decoder's bound on z_grc_div was not found")
    bound = int(m.group(1))
    sel = tab[:n_cfg]
    ok = n_cfg <= len(tab) and all((v & 15) < bound for v in sel)
    rep.check(ok, "C07-d", f"{ENC}:search_grc_params", f"the {n_cfg} zero-run configurations searched select ZDIV values below {bound}, the ones the format defines",
              f"searched entries {sel} of z_grc_params {tab}: ZDIV {[v & 15 for v in sel if (v & 15) >= bound]} is reserved (legal: 0..{bound - 1}, 6 = disabled, 7 = end of stream); "
              "emitted for streams with more than about 96 % zeros; the NDEBUG decoder round-trips it, a strict one rejects the slice header")


def rule_inverse_palette(repo, rep, enc):
    """(o) create_inverse_palette is executed (c_exec over the clang AST: loops, locals, array stores) for an empty palette and for a palette
    of three entries: afterwards inv_lut[w + 256] is the direct code `2|w| + (w < 0) + palsize - direct_offset` for every weight -255..255
    that is not in the palette, and the palette position for those that are (judged by what the index decodes to: 0 has two codes)."""
    from ..cast import CEvalError, c_exec

    site = f"{ENC}:create_inverse_palette"
    if "create_inverse_palette" not in enc.functions:
        raise AnalysisError("mlw_encode.c: create_inverse_palette not found")
    body = enc.body("create_inverse_palette")
    wrong = None
    pts = 0
    for palsize, lut, direct_offset in ((0, [], 0), (3, [0, 10, 511], 0), (2, [1, 2], 1)):
        env = {"palsize": palsize, "direct_offset": direct_offset, "inv_lut": [-1] * 512, "lut": lut + [0] * (32 - len(lut))}
        try:
            c_exec(body, env, enc)
        except CEvalError as ex:
            raise AnalysisError(f"create_inverse_palette not executable: {ex}")
        for w in range(-255, 256):
            # what the decoder makes of the stored index: a palette position, or a direct code (sign in bit 0, magnitude above)
            idx = env["inv_lut"][w + 256]
            code = (lut[idx] if 0 <= idx < palsize else idx - palsize + direct_offset) if isinstance(idx, int) else None
            back = None if code is None or code < 0 else (-(code >> 1) if code & 1 else code >> 1)
            in_pal = [i for i in range(palsize) if (-(lut[i] >> 1) if lut[i] & 1 else lut[i] >> 1) == w]
            pts += 1
            if (back != w or (in_pal and idx not in in_pal)) and wrong is None:
                wrong = (palsize, w, idx, in_pal[0] if in_pal else f"an index that decodes to {w}")
    rep.check(wrong is None, "C07-o", site, f"inv_lut[w + 256] holds the stream index of every weight -255..255 ({pts} points, three palettes)",
              (f"palette of {wrong[0]}: weight {wrong[1]} maps to index {wrong[2]}, the stream format wants {wrong[3]}: a directly coded {wrong[1]} is written as another weight") if wrong else "")


def rule_qsort_comparators(repo, rep, cus):
    """(p) a function handed to qsort returns the sign of a comparison. `return (int)(b - a)` on 64-bit keys keeps the low 32 bits of the
    difference: once two keys differ by 2^31 or more (palette frequencies are count << 16 | value: counts 32768 apart) the order is wrong."""
    wide = ("long", "unsigned long", "uint64_t", "int64_t", "long long", "unsigned long long", "size_t", "ptrdiff_t")
    n = 0
    for cu in cus:
        comps = set()
        for fname in cu.functions:
            try:
                body = cu.body(fname)
            except StopIteration:
                continue
            for cn, call in cu.calls(body):
                if cn == "qsort" and len(call.get("inner", [])) == 5:
                    for x in cu.walk(call["inner"][4]):
                        if x.get("kind") == "DeclRefExpr" and x.get("referencedDecl", {}).get("kind") == "FunctionDecl":
                            comps.add(x["referencedDecl"]["name"])
        for c in sorted(comps):
            if c not in cu.functions:
                continue
            n += 1
            bad = []
            for r in cu.walk(cu.body(c)):
                if r.get("kind") != "ReturnStmt":
                    continue
                for x in cu.walk(r):
                    if x.get("kind") == "BinaryOperator" and x.get("opcode") in ("-", "+") and ((x.get("type") or {}).get("qualType") or "").replace("const ", "").strip() in wide:
                        bad.append(cu.text(r).strip())
            rep.check(not bad, "C07-p", f"ethosu/mlw_codec/{cu.rel.split('/')[-1]}:{c}", f"comparator `{c}` returns comparison results",
                      f"`{bad[0] if bad else ''}`: a 64-bit difference is narrowed to int: keys 2^31 apart (a weight value occurring 32768 times more often than another) sort the wrong way, "
                      "the most frequent value drops out of the palette while only_palette stays set")
    if n < 1:
        raise AnalysisError("mlw_codec: no qsort comparator found")


def rule_error_code_forwarded(repo, rep, enc, mod):
    """(q) error discipline: mlw_encode returns -1 for a weight outside -255..255; method_reorder_encode raises ValueError for a negative
    length. In between, mlw_reorder_encode must return the variable that took mlw_encode's result as it is (no clamp, no abs, no max)."""
    site = f"{ENC}:mlw_reorder_encode"
    body = enc.body("mlw_reorder_encode")
    took = set()
    for x in enc.walk(body):
        if x.get("kind") == "BinaryOperator" and x.get("opcode") == "=" and x["inner"][0].get("kind") == "DeclRefExpr" and any(cn == "mlw_encode" for cn, _ in enc.calls(x["inner"][1])):
            took.add(x["inner"][0]["referencedDecl"]["name"])
        if x.get("kind") == "VarDecl" and any(cn == "mlw_encode" for cn, _ in enc.calls(x)):
            took.add(x.get("name"))
    if not took:
        raise AnalysisError("mlw_reorder_encode: no variable takes the result of mlw_encode")
    rets = [r for r in enc.walk(body) if r.get("kind") == "ReturnStmt" and r.get("inner")]
    n = 0
    for r in rets:
        e = r["inner"][0]
        names = [y.get("referencedDecl", {}).get("name") for y in enc.walk(e) if y.get("kind") == "DeclRefExpr"]
        if not any(nm in took for nm in names):
            continue
        n += 1
        core = e
        while core.get("kind") in ("ImplicitCastExpr", "ParenExpr"):
            core = core["inner"][-1]
        rep.check(core.get("kind") == "DeclRefExpr", "C07-q", site, f"`{enc.text(r).strip()}` returns the encoder's result unchanged",
                  f"`{enc.text(r).strip()}`: the error value -1 of mlw_encode (a weight outside -255..255) no longer reaches `if (output_length < 0)` in the wrapper: an empty stream instead of ValueError")
    wrapper = [x for x in mod.walk(mod.body("method_reorder_encode")) if x.get("kind") == "IfStmt" and "output_length" in mod.text(x["inner"][0]) and "<" in mod.text(x["inner"][0])]
    rep.check(bool(wrapper), "C07-q", f"{MOD}:method_reorder_encode", "the wrapper tests the returned length for a negative value", "no `output_length < 0` test in the wrapper")
    if n < 1:
        raise AnalysisError("mlw_reorder_encode: no return statement carries the encoder's result")


def rule_create_palette_executed(repo, rep, enc, rule="C07-s"):
    """(s) create_palette is executed on the clang AST (c_exec: loops, qsort through the unit's comparator, compound assignments) for four
    weight histograms. Afterwards every weight that occurs can be written: without a palette (palsize 0) its sign-magnitude code
    2|w| + (w < 0) fits PALBITS bits - the uncompressed mode writes PALBITS bits per weight; with a palette every entry fits PALBITS bits
    and every weight outside the palette has a direct index palsize + code - direct_offset of at most 511."""
    from ..cast import CEvalError, c_exec

    site = f"{ENC}:create_palette"
    body = enc.body("create_palette")

    def hist(pairs):
        f = [0] * 512
        for w, c in pairs:
            f[w + 256] = c
        return f

    cases = {
        "flat -63..63 and one 200": hist([(w, 10) for w in range(-63, 64)] + [(200, 1)]),
        "int8 flat with -128": hist([(w, 5) for w in range(-128, 128)]),
        "peaked around 3 with rare 255": hist([(3, 1000), (2, 500), (4, 400), (-1, 300), (255, 2), (-255, 1), (40, 3)]),
        "only five values": hist([(0, 50), (1, 40), (-1, 30), (7, 20), (-9, 10)]),
        "flat -40..40 and one +64 (largest code 128 = 2^7)": hist([(w, 10) for w in range(-40, 41)] + [(64, 1)]),
        "palette with +4 (code 8 = 2^3) as its largest entry": hist([(0, 50), (1, 40), (-1, 30), (4, 20), (2, 10)]),
        "magnitudes 16..80, two peaks": hist([(w, 3) for w in range(16, 81)] + [(-w, 3) for w in range(16, 81)] + [(40, 400), (-40, 300)]),
    }
    n = 0
    for name, freq in cases.items():
        for zr in (0, 1):
            env = {"freq": list(freq), "use_zero_runs": zr, "lut": [0] * 32, "palsize": -1, "palbits": -1, "direct_offset": -1, "only_zeros": -1, "only_palette": -1}
            try:
                c_exec(body, env, enc)
            except CEvalError as ex:
                raise AnalysisError(f"create_palette not executable: {ex}")
            n += 1
            palsize, palbits, doff, lut = env["palsize"], env["palbits"], env["direct_offset"], env["lut"]
            codes = [((abs(w) << 1) | (w < 0)) for w in range(-255, 256) if freq[w + 256] > 0 and not (w == 0 and zr)]
            bad = None
            if not 2 <= palbits <= 9:
                bad = f"PALBITS {palbits} outside 2..9"
            elif not 0 <= doff <= 31:
                bad = f"direct offset {doff} does not fit its 5-bit header field (0..31): every directly coded weight decodes with its index shifted"
            elif palsize == 0:
                over = [c for c in codes if c >= (1 << palbits)]
                if over:
                    bad = f"no palette, PALBITS {palbits}: the code {max(over)} of weight {-(max(over) >> 1) if max(over) & 1 else max(over) >> 1} needs more bits - uncompressed mode truncates it"
            else:
                if any(lut[i] >= (1 << palbits) for i in range(palsize)):
                    bad = f"palette entry {max(lut[:palsize])} does not fit PALBITS {palbits}"
                direct = [palsize + c - doff for c in codes if c not in lut[:palsize]]
                if direct and (max(direct) > 511 or min(direct) < palsize):
                    bad = f"direct index range {min(direct)}..{max(direct)} outside {palsize}..511"
            rep.check(bad is None, rule, site, f"histogram '{name}', zero runs {zr}: every occurring weight is representable (palsize {palsize}, PALBITS {palbits})", bad or "")
    if n < 14:
        raise AnalysisError("create_palette: cases not executed")


def rule_reorder_block_depth(repo, rep, enc):
    """(t) reorder lays depth-first weights out in IFM blocks of 32 channels for 8-bit IFMs and 16 for 16-bit IFMs, part-kernel-first always
    in 16 (the initialiser of ifm_block_depth is evaluated for the four combinations; the Python side computes its depth utilisation with
    the same pair of constants)."""
    from ..cast import c_eval, CEvalError

    site = f"{ENC}:reorder"
    body = enc.body("reorder")
    decl = [d for d in enc.walk(body) if d.get("kind") == "VarDecl" and d.get("name") == "ifm_block_depth"]
    if len(decl) != 1:
        raise AnalysisError("reorder: ifm_block_depth not found")
    init = [x for x in decl[0].get("inner", []) if x.get("kind") not in ("FullComment",)]
    want = {(0, 8): 32, (0, 16): 16, (1, 8): 16, (1, 16): 16}
    for (pk, bits), w in want.items():
        try:
            got = c_eval(init[0], {"is_partkernel": pk, "ifm_bitdepth": bits}, enc)
        except CEvalError as ex:
            raise AnalysisError(f"reorder: ifm_block_depth initialiser not evaluable: {ex}")
        rep.check(got == w, "C07-t", site, f"ifm_block_depth(part kernel {pk}, {bits}-bit IFM) = {w}", f"evaluates to {got}: the depth-first stream of a 16-bit IFM is laid out in blocks of {got} channels, the hardware reads blocks of 16")

    # the last IFM block of a depth-first stream is padded to the full block depth (the hardware reads whole blocks); only part-kernel-first
    # clips it to the channels that are left
    asg = [d for d in enc.walk(body) if d.get("kind") == "BinaryOperator" and d.get("opcode") == "=" and enc.text(d["inner"][0]).strip() == "clipped_ifm_block_depth"]
    if len(asg) < 2:
        raise AnalysisError(f"reorder: {len(asg)} assignments of clipped_ifm_block_depth")
    rhs = asg[-1]["inner"][1]
    for pk, w in ((0, 32), (1, 8)):
        try:
            got = c_eval(rhs, {"is_partkernel": pk, "ifm_block_depth": 32, "ifm_depth": 40, "ifm_block_z": 32}, enc)
        except CEvalError as ex:
            raise AnalysisError(f"reorder: clipped_ifm_block_depth not evaluable: {ex}")
        rep.check(got == w, "C07-t", site, f"last IFM block of 8 remaining channels, part kernel {pk}: block depth {w}",
                  f"evaluates to {got}: a depth-first stream loses the zero padding of its last IFM block - shorter than and shifted against the hardware order")

def rule_no_silent_narrowing(repo, rep):
    """(v) 'out-of-range weights are rejected, not wrapped': between the public entry point and the codec nothing converts the caller's
    weight volume to a narrower integer type (`astype(int16)` turns 65541 into 5, which the range check of the encoder then accepts). The
    parameters that carry the volume in api.npu_encode_weights and weight_compressor.encode_weights are never the receiver of astype /
    a narrowing numpy constructor (expected count 0; the matcher is exercised on a positive example)."""
    def narrowing(tree, names):
        out = []
        for c in ast.walk(tree):
            if isinstance(c, ast.Call) and isinstance(c.func, ast.Attribute) and c.func.attr == "astype" and isinstance(c.func.value, ast.Name) and c.func.value.id in names:
                out.append(c)
            if isinstance(c, ast.Call) and (call_name(c) or "").split(".")[-1] in ("int16", "int8", "uint8", "uint16") and c.args and isinstance(c.args[0], ast.Name) and c.args[0].id in names:
                out.append(c)
        return out

    if len(narrowing(ast.parse("v = weights_volume.astype(numpy.int16)"), {"weights_volume"})) != 1:
        raise AnalysisError("narrowing matcher does not match its positive example")
    n = 0
    for mn, q in (("api", "npu_encode_weights"), ("weight_compressor", "encode_weights")):
        m = repo.mod(mn)
        fn = m.func(q)
        names = {a.arg for a in fn.args.args if "weight" in a.arg or "volume" in a.arg}
        if not names:
            raise AnalysisError(f"{q}: weight volume parameter not found")
        n += 1
        hits = narrowing(fn, names)
        rep.check(not hits, "C07-v", f"{m.rel}:{q}", f"the weight volume {sorted(names)} reaches the codec in the caller's type",
                  f"`{str(norm(hits[0]))[:70]}` narrows it first: an out-of-range weight wraps into the legal range (65541 is encoded as 5) instead of being rejected" if hits else "")
    if n < 2:
        raise AnalysisError("weight entry points not found")

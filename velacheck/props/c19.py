"""C19 Lookup tables and compile-time fixed-point maths match their references (structural clauses)."""
import ast
import math
import re

from ..astutil import calls_in, call_name, dotted, norm, try_fold, walk_no_nested
from ..cfg import cfg_of
from ..core import AnalysisError

GO = "ethosu/vela/tflite_graph_optimiser.py"
LU = "ethosu/vela/lut.py"
FP = "ethosu/vela/fp_math.py"
WIDEN = ("int", "np.int64", "np.int32", "numpy.int64", "numpy.int32", "float", "np.double")

# gemmlowp fixedpoint.h, exp_on_negative_values: GEMMLOWP_EXP_BARREL_SHIFTER(exponent, multiplier) (frozen external reference)
GEMMLOWP_BARREL = [(-2, 1672461947), (-1, 1302514674), (0, 790015084), (1, 290630308), (2, 39332535), (3, 720401), (4, 242)]
GEMMLOWP_EXP_CONSTANTS = {"constant_term": 1895147668, "constant_1_over_3": 715827883}


def _cdiv(a, b):
    q = abs(a) // abs(b)
    return q if (a >= 0) == (b >= 0) else -q


def _ref_high_mul(bits, rounding):
    lo, hi = -(1 << (bits - 1)), (1 << (bits - 1)) - 1

    def ref(a, b):
        if a == b == lo:
            return hi
        ab = a * b
        nudge = 0 if not rounding else ((1 << (bits - 2)) if ab >= 0 else 1 - (1 << (bits - 2)))
        return _cdiv(ab + nudge, 1 << (bits - 1))
    return ref


def _ref_rdbp(x, e):
    mask = (1 << e) - 1
    return (x >> e) + (1 if (x & mask) > (mask >> 1) + (1 if x < 0 else 0) else 0)


def _fp_probes(repo, rep, fp):
    from ..absint import AObj, Interp, Unknown

    def wrap(bits):
        def ext(interp, args, kwargs, node):
            if len(args) == 1 and isinstance(args[0], int) and not isinstance(args[0], bool):
                v = args[0] & ((1 << bits) - 1)
                return v - (1 << bits) if v >> (bits - 1) else v
            return Unknown(f"int{bits}(?)")
        return ext

    def iinfo(interp, args, kwargs, node):
        a = args[0] if args else None
        if isinstance(a, tuple) and a and a[0] == "extfunc" and a[1].rsplit(".", 1)[-1] in ("int8", "int16", "int32", "int64"):
            b = int(a[1].rsplit("int", 1)[-1])
            return AObj("iinfo", {"min": -(1 << (b - 1)), "max": (1 << (b - 1)) - 1, "bits": b})
        return Unknown("iinfo(?)")

    ex = {}
    for pre in ("np.", "numpy."):
        for b in (8, 16, 32, 64):
            ex[f"{pre}int{b}"] = wrap(b)
        ex[pre + "iinfo"] = iinfo
    it = Interp(repo, fp, externs=ex)

    def grid(bits):
        top = 1 << (bits - 1)
        half = 1 << (bits - 2)
        vs = {0, 1, 2, 3, 5, 7, 12345, half - 1, half, half + 1, top - 3, top - 1, (1 << (bits // 2)), (1 << (bits // 2)) + 1, 3 << (bits - 4), (top // 3) | 1}
        return sorted({v for v in vs if v < top} | {-v for v in vs if v <= top} | {-top})

    jobs = [("saturating_rounding_mul32", _ref_high_mul(32, True), [(a, b) for a in grid(32) for b in grid(32)], "gemmlowp SaturatingRoundingDoublingHighMul<int32>"),
            ("saturating_rounding_mul16", _ref_high_mul(16, True), [(a, b) for a in grid(16) for b in grid(16)], "gemmlowp SaturatingRoundingDoublingHighMul<int16>"),
            ("saturating_mul16", _ref_high_mul(16, False), [(a, b) for a in grid(16) for b in grid(16)], "TFLM SaturatingDoublingHighMul (truncating)")]
    rd = []
    for e in (0, 1, 2, 3, 7, 15, 30):
        for k in (-3, -2, -1, 0, 1, 2, 1000):
            base = k << e
            for d in {0, 1, -1, (1 << e) >> 1, ((1 << e) >> 1) + 1, ((1 << e) >> 1) - 1}:
                x = base + d
                if -(1 << 31) <= x < (1 << 31):
                    rd.append((x, e))
    jobs.append(("rounding_divide_by_pot", _ref_rdbp, sorted(set(rd)), "gemmlowp RoundingDivideByPOT"))

    def sat(bits):
        lo, hi = -(1 << (bits - 1)), (1 << (bits - 1)) - 1
        return lambda v: max(lo, min(hi, v))

    def ref_shl(bits):
        return lambda a, k: sat(bits)(a << k)

    def ref_srmbp(x, e):
        thr = (1 << (31 - e)) - 1
        return (1 << 31) - 1 if x > thr else (-(1 << 31) if x < -thr else sat(32)(x << e))

    def ref_down(a):
        return 32767 if a >= (1 << 31) - 1 - (1 << 15) else (a + (1 << 15)) >> 16

    def ref_mbqm(x, scale, shift):
        sh = 31 - shift
        left, right = (sh, 0) if sh > 0 else (0, -sh)
        return _ref_rdbp(_ref_high_mul(32, True)(x * (1 << left), scale), right)

    g32, g16 = grid(32), grid(16)
    jobs.append(("shift_left32", ref_shl(32), [(a, k) for a in g32 for k in (0, 1, 2, 5, 15, 30, 31)], "gemmlowp ShiftLeft<int32> (saturating)"))
    jobs.append(("shift_left16", ref_shl(16), [(a, k) for a in g16 for k in (0, 1, 2, 7, 14, 15)], "gemmlowp ShiftLeft<int16> (saturating)"))
    jobs.append(("saturating_rounding_multiply_by_pot", ref_srmbp, [(a, k) for a in g32 for k in (0, 1, 2, 5, 15, 30)], "gemmlowp SaturatingRoundingMultiplyByPOT (positive exponent)"))
    jobs.append(("downscale_multiplier_int32_to_int16", ref_down, [(a,) for a in g32 + [(1 << 31) - 1 - (1 << 15) - 1, (1 << 31) - 1 - (1 << 15), (1 << 31) - (1 << 15), 65535, 65536, 98303, 98304, -32768, -32769, 0x28000, 0x48000, 0x27FFF, 0x28001, -0x18000, -0x28000, 0x7FFE8000, 0x12348000, 0x12358000]],
                 "TFLite DownScaleInt32ToInt16Multiplier"))
    jobs.append(("multiply_by_quantized_multiplier", ref_mbqm, [(x, sc_, sh_) for x in (0, 1, -1, 5, -5, 127, -128, 255, 32767, -32768, 100000, -100000) for sc_ in (1 << 30, (1 << 30) + 12345, (1 << 31) - 1, 1518500250)
                                                                  for sh_ in (29, 30, 31, 32, 33, 38, 45)], "TFLite MultiplyByQuantizedMultiplier (shift = 31 - Vela shift)"))
    hm = _ref_high_mul(32, True)

    def ref_exp_interval(a):
        # gemmlowp exp_on_interval_between_negative_one_quarter_and_0_excl (Q0.31): 4th-order Taylor around -1/8; x^4 is x2 * x2
        x = a + (1 << 28)
        x2 = hm(x, x)
        x3 = hm(x2, x)
        x4 = hm(x2, x2)
        t = _ref_rdbp(hm(_ref_rdbp(x4, 2) + x3, 715827883) + x2, 1)
        return 1895147668 + hm(1895147668, x + t)

    # probes include arguments on which the roundings of (x2 * x2) and (x3 * x), or of a re-associated sum, differ by one unit
    jobs.append(("exp_on_interval_between_negative_one_quarter_and_0_excl", ref_exp_interval,
                 [(a,) for a in (-1, -2, -12345, -(1 << 27), -(1 << 28), -(1 << 29), -(1 << 29) + 1, -34050191, -22616740, -144015519, -48255378, -130797905, -525504358, -403273034, -13078251,
                                 -484961891, -163848456, -481377436, -348693374, -3586550, -100000000, -268435455, -268435457)],
                 "gemmlowp exp_on_interval_between_negative_one_quarter_and_0_excl"))
    for fn, ref, probes, what in jobs:
        wrong = []
        for args in probes:
            ps = list(it.run(fn, lambda: (list(args), {})))
            if len(ps) != 1 or ps[0].kind != "return" or not isinstance(ps[0].value, int) or isinstance(ps[0].value, bool):
                raise AnalysisError(f"{fn}{args} not evaluable: {[(p_.kind, p_.value, p_.decisions) for p_ in ps][:2]}")
            if ps[0].value != ref(*args):
                wrong.append((args, ps[0].value, ref(*args)))
        rep.check(not wrong, "C19-c", f"{FP}:{fn}", f"equals {what} on {len(probes)} probes (both product signs, zero / non-zero / half remainders, saturation corner)",
                  "; ".join(f"{fn}{a} = {g}, reference {w}" for a, g, w in wrong[:3]) + (f" (+{len(wrong) - 3} more)" if len(wrong) > 3 else ""))


LUT_CREATORS = ("convert_to_lut8", "create_lut_8bit_op", "create_lut_int16_op")
REAL_FN = {
    "Sigmoid": ("logistic", lambda x: 1.0 / (1.0 + math.exp(-x)) if x > -700 else 0.0, ()),
    "Tanh": ("tanh", math.tanh, ("math.tanh", "np.tanh", "numpy.tanh")),
    "Exp": ("exp", math.exp, ("math.exp", "np.exp", "numpy.exp")),
    "Sqrt": ("sqrt", math.sqrt, ("math.sqrt", "np.sqrt", "numpy.sqrt")),
}
LUT_PROBES = [0.0, 0.1, 0.5, 1.0, 2.0, 3.9, 4.0, 4.1, 6.0, 7.9, 8.0, 8.1, 10.0, 16.0, 20.0, 30.0]


def _lut_functions(repo, rep):
    from ..absint import Interp, Unknown

    go = repo.mod("tflite_graph_optimiser")

    def lift(fn):
        def ext(interp, args, kwargs, node):
            if len(args) == 1 and isinstance(args[0], (int, float)) and not isinstance(args[0], bool) and not kwargs:
                try:
                    return float(fn(args[0]))
                except (OverflowError, ValueError):
                    return Unknown("math-error")
            return Unknown("math(?)")
        return ext

    ex = {}
    for nm in ("exp", "tanh", "sqrt", "log", "erf", "fabs", "expm1", "sinh", "cosh"):
        ex["math." + nm] = lift(getattr(math, nm))
        if nm not in ("erf", "fabs"):
            ex["np." + nm] = ex["numpy." + nm] = lift(getattr(math, nm))
    pairs = []
    for fn in go.functions.values():
        for node in ast.walk(fn):
            if not (isinstance(node, ast.If) and isinstance(node.test, ast.Compare) and norm(node.test.left) == "op.type" and len(node.test.ops) == 1
                    and isinstance(node.test.ops[0], ast.Eq) and norm(node.test.comparators[0]).startswith("Op.")):
                continue
            opn = norm(node.test.comparators[0])[3:]
            for st in node.body:
                for c in calls_in(st):
                    if call_name(c) in LUT_CREATORS and len(c.args) >= 2:
                        pairs.append((fn, opn, c.args[1]))
                if isinstance(st, ast.Assign) and norm(st.targets[0]) == "func":
                    pairs.append((fn, opn, st.value))
    n = 0
    for fn, opn, f in pairs:
        site = f"{GO}:{fn.name}"
        if opn not in REAL_FN:
            rep.info("C19-e", site, f"{opn} table generated from `{norm(f)}`", "not decided (no reference entered for this operator / closure over the operator)")
            continue
        title, ref, libnames = REAL_FN[opn]
        n += 1
        txt = norm(f)
        if txt in libnames:
            rep.ok("C19-e", site, f"{opn} table is generated from the library function {title}", txt)
            continue
        target = None
        if isinstance(f, ast.Name):
            for m in (go, repo.mod("numeric_util")):
                if f.id in m.functions:
                    target = (m, f.id)
            # a helper defined inside the rewrite itself (def sqrt(value): ...)
            if target is None and f"{fn.name}.{f.id}" in go.functions:
                target = (go, f"{fn.name}.{f.id}")
        if target is None:
            rep.bad("C19-e", site, f"{opn} table is generated from the real function {title}", f"generated from `{txt}`, which is neither the library {title} nor a Vela helper the analysis can interpret")
            continue
        it = Interp(repo, target[0], externs=ex)
        worst = None
        for x in [sg * v for v in LUT_PROBES for sg in (1.0, -1.0)]:
            if opn == "Sqrt" and x < 0:
                continue
            ps = list(it.run(target[1], lambda: ([x], {})))
            if len(ps) != 1 or ps[0].kind != "return" or not isinstance(ps[0].value, (int, float)):
                raise AnalysisError(f"{target[1]}({x}) not evaluable: {[(p_.kind, p_.value) for p_ in ps][:2]}")
            err = abs(float(ps[0].value) - ref(x))
            if worst is None or err > worst[0]:
                worst = (err, x, ps[0].value)
        rep.check(worst[0] <= 1e-9, "C19-e", site, f"{opn} table is generated from `{txt}`, which equals the real {title} on {2 * len(LUT_PROBES)} probe arguments (|error| <= 1e-9)",
                  f"{txt}({worst[1]}) = {worst[2]!r} but {title}({worst[1]}) = {ref(worst[1])!r} (error {worst[0]:.3g}): entries for such inputs are not the correctly rounded value when the output step is fine enough")
    rep.check(n >= 4, "C19-e", GO, "table function sites found for sigmoid, tanh, exp, sqrt", f"{n} sites")


REVIEWED_ADDITIONS = {
    ("downscale_multiplier_int32_to_int16", "a", "+"): "reached only below int32 max - rounding_offset (the saturating branch returns first)",
    ("exp_on_interval_between_negative_one_quarter_and_0_excl", "a", "+"): "a lies in (-1/4, 0] in Q0.31: the sum stays below 2^29",
    ("exp_on_negative_values", "a", "-"): "difference of two values in [-2^31, 0]: magnitude below 2^31, formed from results of & and - on Python / 64-bit intermediates",
}


def run(repo, rep):
    rep.clause("C19-a", "every 8-bit table has one entry per input code: range(256) for uint8 else range(-128, 128), exactly one append per iteration")
    rep.clause("C19-b", "every entry is rounded explicitly and clamped to the quantised range of the same loop before it is stored")
    rep.clause("C19-c", "fixed-point helpers do not depend on the width of the caller's integer type: growing multiplications are applied to widened operands (never inside the widening call); the exponential applies the seven gemmlowp barrel stages")
    rep.clause("C19-i", "table bytes reach the output file: no truth test on a tensor address (a table at offset 0 is still copied into the flash image)")
    rep.clause("C19-j", "the reader keeps zero points as the numpy integers of the file (constant folding relies on their promotion)")
    rule_round7(repo, rep)
    rep.undecided("that table values equal the correctly rounded real function; bit-exact equality of the helpers with gemmlowp over their whole domain")
    go = repo.mod("tflite_graph_optimiser")
    lu = repo.mod("lut")
    gens = [(go, "convert_to_lut8", GO), (go, "convert_lrelu_to_lut", GO), (go, "convert_hardswish_to_lut", GO), (lu, "create_lut_8bit_op", LU)]
    for m, fn, path in gens:
        f = m.func(fn)
        site = f"{path}:{fn}"
        # the index range is whatever local is bound to `range(256) if .. else range(-128, 128)` (names are not fixed)
        ix = [s for s in ast.walk(f) if isinstance(s, ast.Assign) and isinstance(s.targets[0], ast.Name) and isinstance(s.value, ast.IfExp) and norm(s.value.body).startswith("range(")]
        ixn = ix[0].targets[0].id if len(ix) == 1 else "ix"
        ok = len(ix) == 1 and isinstance(ix[0].value, ast.IfExp) and norm(ix[0].value.body) == "range(256)" and norm(ix[0].value.orelse) == "range(-128, 128)" and "DataType.uint8" in norm(ix[0].value.test) \
            and "==" in norm(ix[0].value.test)
        rep.check(ok, "C19-a", site, "index range is range(256) for uint8 inputs, range(-128, 128) otherwise", norm(ix[0].value) if ix else "missing")
        loops = [l for l in ast.walk(f) if isinstance(l, ast.For) and norm(l.iter) == ixn]
        if len(loops) != 1:
            rep.bad("C19-a", site, "table loop `for x in ix`", f"{len(loops)} loops")
            continue
        L = loops[0]
        c = cfg_of(f)
        lists_ = {s_.targets[0].id for s_ in ast.walk(f) if isinstance(s_, ast.Assign) and isinstance(s_.targets[0], ast.Name) and norm(s_.value) == "[]"}
        app = [x for x in ast.walk(L) if isinstance(x, ast.Call) and isinstance(x.func, ast.Attribute) and x.func.attr == "append" and isinstance(x.func.value, ast.Name) and x.func.value.id in lists_]
        head = c.node_of(L)
        ok = len(app) == 1 and not any(isinstance(s, (ast.Continue, ast.Break)) for s in ast.walk(L))
        if ok:
            an = c.node_of(app[0])
            # every path through the loop body passes the append exactly once
            ok = all(not c.path_avoiding(b, head, [an]) for b, lab in c.succ[head] if lab is True)
        rep.check(ok, "C19-a", site, "exactly one values.append per input code (no skipped or duplicated code)", "append missing on a path, or break / continue in the table loop")
        # b: clamp and rounding
        # names are taken from the structure: the stored value is what is appended, the bounds are the locals bound to min / max of the index range
        vname = norm(app[0].args[0]) if app and app[0].args and isinstance(app[0].args[0], ast.Name) else "lut_result"
        bounds = {norm(s_.value).split("(")[0]: norm(s_.targets[0]) for s_ in ast.walk(f) if isinstance(s_, ast.Assign) and isinstance(s_.targets[0], ast.Name) and norm(s_.value) in (f"min({ixn})", f"max({ixn})")}
        qmin, qmax = bounds.get("min", "quantized_min"), bounds.get("max", "quantized_max")
        clamp = [s for s in L.body if isinstance(s, ast.Assign) and norm(s.targets[0]) == vname and call_name(s.value) == "min"]
        okc = False
        if clamp:
            v = norm(clamp[-1].value)
            okc = v in (f"min({qmax}, max({qmin}, {vname}))", f"min(max({vname}, {qmin}), {qmax})", f"min(max({qmin}, {vname}), {qmax})")
            okc = okc and c.dominates(c.node_of(clamp[-1]), c.node_of(app[0])) and norm(app[0].args[0]) == vname
            later = [s for s in L.body if isinstance(s, ast.Assign) and norm(s.targets[0]) == vname and s.lineno > clamp[-1].lineno]
            okc = okc and not later
        rep.check(okc, "C19-b", site, "the stored value is min(quantized_max, max(quantized_min, .)) and nothing modifies it afterwards", norm(clamp[-1].value) if clamp else "no clamp")
        qm = {norm(s.targets[0]): norm(s.value) for s in ast.walk(f) if isinstance(s, ast.Assign) and norm(s.targets[0]) in (qmin, qmax)}
        rep.check(qm == {qmin: f"min({ixn})", qmax: f"max({ixn})"}, "C19-b", site, "clamp bounds are the ends of the same index range", str(qm))
        # rounding: the float result goes through round_away_zero, or the computation is integer fixed point (fp_math)
        defs = [s for s in L.body if isinstance(s, ast.Assign) and norm(s.targets[0]) == vname] + [s for s in ast.walk(L) if isinstance(s, ast.Assign) and norm(s.targets[0]) == vname]
        first = sorted(set(defs), key=lambda s: s.lineno)
        srcs = [s for s in first if s not in clamp]
        okr = bool(srcs) and all(any(call_name(x) in ("round_away_zero",) or (call_name(x) or "").startswith("fp_math.") for x in calls_in(s.value)) for s in srcs)
        rep.check(okr, "C19-b", site, "the value is produced by round_away_zero(...) or by the integer fixed-point helpers (no implicit truncation)", "; ".join(norm(s.value)[:60] for s in srcs))
    # rsqrt table and create_lut_tensor size check
    clt = lu.func("create_lut_tensor")
    asserts = [norm(s.test) for s in clt.body if isinstance(s, ast.Assert)]
    rep.check(any("256" in a and "512" in a for a in asserts) or any("in (256, 512)" in a for a in asserts), "C19-a", f"{LU}:create_lut_tensor", "a table has 256 or 512 entries", str(asserts))
    rs = lu.func("create_lut_rsqrt_int8_op")
    loops = [l for l in ast.walk(rs) if isinstance(l, ast.For)]
    rep.check(len(loops) >= 1, "C19-a", f"{LU}:create_lut_rsqrt_int8_op", "rsqrt table loop present", "")
    # convert_to_lut requires same in/out type (values generated for the input type are stored with the output type)
    ctl = lu.func("convert_to_lut")
    rep.check(any(isinstance(s, ast.Assert) and norm(s.test) == "ifm.dtype == ofm.dtype" for s in ctl.body), "C19-b", f"{LU}:convert_to_lut", "input and output types must agree for table ops", "")
    rep.floor("C19-a", 9)
    from .shared import round_half_away

    round_half_away(repo, rep, "C19-b")
    rep.floor("C19-b", 13)

    # ---------------------------------------------------------------- c
    fp = repo.mod("fp_math")
    n = 0
    float_domain = {"from_float": "operand is a real number (float to fixed conversion)", "to_float": "result is a real number"}

    def has_raw(e, tainted):
        """does e contain a caller-typed name that is not under a widening call?"""
        if isinstance(e, ast.Call) and call_name(e) in WIDEN:
            return False
        if isinstance(e, ast.Name):
            return e.id in tainted
        return any(has_raw(c_, tainted) for c_ in ast.iter_child_nodes(e))

    for q, fn in fp.functions.items():
        if "." in q or q in float_domain:
            continue
        params = {a.arg for a in fn.args.args}
        tainted = set(params)
        # locals that are plain copies / arithmetic of params stay "caller typed"; widened values are clean
        for s in sorted((x for x in walk_no_nested(fn) if isinstance(x, ast.Assign) and len(x.targets) == 1 and isinstance(x.targets[0], ast.Name)), key=lambda x: x.lineno):
            v = s.value
            if isinstance(v, ast.Call) and call_name(v) in WIDEN:
                tainted.discard(s.targets[0].id)
            elif isinstance(v, ast.Call) and (call_name(v) or "").split(".")[-1] in fp.functions:
                tainted.discard(s.targets[0].id)  # results of the helpers are at least int32 / Python ints
            elif has_raw(v, tainted) and not isinstance(v, ast.Call):
                tainted.add(s.targets[0].id)
            elif not has_raw(v, tainted):
                tainted.discard(s.targets[0].id)
        # value operands (not bit counts / shift amounts, which are small by construction) and locals copied from them
        small = re.compile(r"bits|shift|exponent|offset")
        value_tainted = {p_ for p_ in params if not small.search(p_)}
        for s in sorted((x for x in walk_no_nested(fn) if isinstance(x, ast.Assign) and len(x.targets) == 1 and isinstance(x.targets[0], ast.Name)), key=lambda x: x.lineno):
            if isinstance(s.value, ast.Name) and s.value.id in value_tainted:
                value_tainted.add(s.targets[0].id)
        for node in walk_no_nested(fn):
            if isinstance(node, ast.BinOp) and isinstance(node.op, (ast.Mult, ast.LShift)):
                ops_ = [node.left, node.right]
                raw = [o for o in ops_ if isinstance(o, ast.Name) and o.id in tainted]
                if not raw:
                    continue
                # constant-only other operand of a shift amount is fine: `1 << offset` has a Python int base
                if isinstance(node.op, ast.LShift) and not (isinstance(node.left, ast.Name) and node.left.id in tainted):
                    continue
                par = fp.parents.get(node)
                inside_widen = isinstance(par, ast.Call) and call_name(par) in WIDEN and par.args and par.args[0] is node
                n += 1
                site = f"{FP}:{q}"
                if inside_widen:
                    rep.bad("C19-c", site, norm(par)[:80], f"the product of caller-typed operands {[o.id for o in raw]} is formed first and widened afterwards: with NumPy fixed-width operands it wraps before the widening")
                else:
                    rep.bad("C19-c", site, norm(node)[:80], f"growing operation on the caller-typed operand {[o.id for o in raw]} without widening (int() / np.int64()): NumPy fixed-width scalars wrap or raise where the reference saturates")
            elif (isinstance(node, ast.BinOp) and isinstance(node.op, (ast.Add, ast.Sub)) and any(isinstance(o, ast.Name) and o.id in value_tainted for o in (node.left, node.right))) or (
                    isinstance(node, ast.UnaryOp) and isinstance(node.op, ast.USub) and isinstance(node.operand, ast.Name) and node.operand.id in value_tainted):
                # additions / negations of a caller-typed operand overflow only at the ends of its type: the existing ones are reviewed (each is
                # guarded by a range test or works on a bounded domain); a new one is reported
                opnd = node.operand.id if isinstance(node, ast.UnaryOp) else next(o.id for o in (node.left, node.right) if isinstance(o, ast.Name) and o.id in value_tainted)
                key = (q, opnd, "neg" if isinstance(node, ast.UnaryOp) else ("+" if isinstance(node.op, ast.Add) else "-"))
                n += 1
                if key in REVIEWED_ADDITIONS:
                    rep.ok("C19-c", f"{FP}:{q}", str(norm(node))[:80], "reviewed: " + REVIEWED_ADDITIONS[key])
                else:
                    rep.bad("C19-c", f"{FP}:{q}", str(norm(node))[:80], "addition / negation of the caller-typed operand in its own type: a NumPy fixed-width value near the end of its range wraps "
                            "(rounding_divide_by_pot(np.int32(2147483647), 1) = -1073741824) - widen with int() first or keep to &, >> and comparisons")
        # positive instances: widened products
        for node in walk_no_nested(fn):
            if isinstance(node, ast.BinOp) and isinstance(node.op, ast.Mult) and all(isinstance(o, ast.Call) and call_name(o) in WIDEN for o in (node.left, node.right)):
                n += 1
                rep.ok("C19-c", f"{FP}:{q}", norm(node)[:80], "both operands widened before the multiply")
            if isinstance(node, ast.BinOp) and isinstance(node.op, ast.Mult) and isinstance(node.left, ast.Call) and call_name(node.left) in WIDEN and not (isinstance(node.right, ast.Call)):
                n += 1
                rep.ok("C19-c", f"{FP}:{q}", norm(node)[:80], "caller-typed operand widened before the multiply")
    # exponential: barrel shifter stages vs gemmlowp
    ex = fp.func("exp_on_negative_values")
    stages = []
    for c_ in sorted(calls_in(ex, "exp_barrel_shifter", nested=False), key=lambda x: x.lineno):
        e, mlt = try_fold(c_.args[0]), try_fold(c_.args[1])
        stages.append((e, mlt))
    for l in [x for x in walk_no_nested(ex) if isinstance(x, ast.For)]:
        it = l.iter
        if isinstance(it, ast.Call) and call_name(it) == "zip" and len(it.args) == 2:
            a, b = try_fold(it.args[0]) if not isinstance(it.args[0], ast.Name) else None, None
            seqs = []
            for arg in it.args:
                v = try_fold(arg)
                if v is None and isinstance(arg, ast.Name):
                    d = [s for s in walk_no_nested(ex) if isinstance(s, ast.Assign) and norm(s.targets[0]) == arg.id]
                    v = try_fold(d[0].value) if d else None
                if v is None and isinstance(arg, ast.Call) and call_name(arg) == "range":
                    r = [try_fold(x) for x in arg.args]
                    v = list(range(*r)) if all(isinstance(x, int) for x in r) else None
                seqs.append(list(v) if v is not None else None)
            if all(sq is not None for sq in seqs):
                stages = list(zip(*seqs))
    rep.check(stages == GEMMLOWP_BARREL, "C19-c", f"{FP}:exp_on_negative_values", "the exponential applies the seven gemmlowp barrel-shifter stages (exponents -2..4 with their multipliers)",
              f"stages are {stages}: arguments below -2^(missing exponent) lose a factor")
    inner = fp.func("exp_on_interval_between_negative_one_quarter_and_0_excl")
    consts = {norm(s.targets[0]): try_fold(s.value) for s in inner.body if isinstance(s, ast.Assign) and norm(s.targets[0]) in GEMMLOWP_EXP_CONSTANTS}
    rep.check(consts == GEMMLOWP_EXP_CONSTANTS, "C19-c", f"{FP}:exp_on_interval_between_negative_one_quarter_and_0_excl", "Taylor constants equal gemmlowp's (exp(-1/8), 1/3 in Q0.31)", str(consts))
    sh = fp.func("exp_on_negative_values.exp_barrel_shifter")
    d = {norm(s.targets[0]): norm(s.value) for s in sh.body if isinstance(s, ast.Assign)}
    rep.check(d.get("shift") == "fractional_bits + exponent if integer_bits > exponent else 0" and d.get("fractional_bits") == "26" and d.get("integer_bits") == "5", "C19-c",
              f"{FP}:exp_on_negative_values.exp_barrel_shifter", "stage k tests bit (26 + exponent) of the remainder (Q5.26)", str(d))
    # the integer helpers that mirror gemmlowp / TFLM C routines: interpreted (own interpreter, NumPy fixed-width
    # constructors modelled as wrapping casts) on a probe grid covering both signs of the product, zero / non-zero /
    # exactly-half remainders and the saturating corner, and compared with the C definitions (C division truncates)
    _fp_probes(repo, rep, fp)
    rep.floor("C19-c", 10)
    rep.clause("C19-e", "the function a table is generated from is the real function its operator names (sigmoid, tanh, exp, sqrt): library function by name, "
               "or a Vela helper interpreted on probe arguments against the real function (absolute error <= 1e-9, far below half an output step)")
    _lut_functions(repo, rep)
    _boundaries(repo, rep)
    _folding(repo, rep)
    _round5(repo, rep)
    _zero_constants(repo, rep)
    rep.clause("C19-f", "tables share storage only when they are equal: the equivalence id of a LUT tensor is keyed by the complete value sequence (an injective key, no hash / digest / aggregate)")
    lu = repo.mod("lut")
    ct = lu.func("create_lut_tensor")
    keys = [c for c in calls_in(ct) if call_name(c) == "create_equivalence_id"]
    made = [c for c in calls_in(ct) if call_name(c) == "create_const_tensor"]
    if len(keys) != 1 or len(made) != 1 or len(made[0].args) < 4:
        raise AnalysisError("create_lut_tensor: equivalence id / tensor construction not recognised")
    vals = norm(made[0].args[3])
    k = keys[0].args[0] if keys[0].args else None
    injective = k is not None and norm(k) in (f"tuple({vals})", f"bytes({vals})", f"{vals}.tobytes()", f"tuple({vals}), dtype", f"(tuple({vals}), dtype)", f"(dtype, tuple({vals}))")
    rep.check(injective, "C19-f", f"{LU}:create_lut_tensor", f"equivalence id key is the whole value sequence `{vals}`",
              f"key is `{norm(k) if k is not None else ''}`: two different tables can get the same id, hence one flash address, and one operator then runs with the other's table")
    eq = repo.mod("tensor").func("create_equivalence_id")
    rep.check(any("lru_cache" in norm(d) for d in eq.decorator_list) and norm(eq.body[-1]) == "return uuid.uuid4()", "C19-f", "ethosu/vela/tensor.py:create_equivalence_id",
              "ids are fresh uuids memoised by key (equal key <=> equal id)", norm(eq.body[-1]))
    rep.clause("C19-g", "a quantised code enters the table arithmetic only as (code - zero point): the LeakyReLU / PReLU generators' multiplicands expand to terms in which every occurrence of the code is paired "
               "with the zero point; a range guard on a shift and the shift it protects are the same variable")
    from ..exprnorm import offset_paired

    gox = repo.mod("tflite_graph_optimiser")
    lr_ = gox.func("convert_lrelu_to_lut")
    n_g = 0
    for c in calls_in(lr_):
        if (call_name(c) or "").endswith("multiply_by_quantized_multiplier") and c.args:
            r_ = offset_paired(c.args[0], "x", "zp_in")
            if r_ is None:
                continue
            n_g += 1
            rep.check(r_, "C19-g", f"{GO}:convert_lrelu_to_lut", f"`{str(norm(c.args[0]))[:60]}` depends on the input code only through (x - zp_in)",
                      "a term multiplies the raw code while the zero point is subtracted unscaled: every entry below the input zero point is computed from the wrong real value whenever the factor is not 1")
    pr_ = gox.func("convert_prelu")
    for st in ast.walk(pr_):
        exprs = []
        if isinstance(st, ast.Assign) and str(norm(st.targets[0])) in ("alpha_min", "alpha_max"):
            exprs.append(st.value)
        if isinstance(st, ast.Assign) and str(norm(st.targets[0])) == "op.attrs['alpha_scaling']" and isinstance(st.value, ast.Tuple):
            exprs.append(st.value.elts[0])
        for e_ in exprs:
            for code in ("alpha.values.min()", "alpha.values.max()"):
                r_ = offset_paired(e_, code, "alpha_zp")
                if r_ is None:
                    continue
                n_g += 1
                rep.check(r_, "C19-g", f"{GO}:convert_prelu", f"`{str(norm(e_))[:60]}` uses the alpha code only as ({code} - alpha_zp)",
                          "the alpha tensor's zero point is not removed: the table is generated for alpha = scale * code instead of scale * (code - zero point)")
    hs_ = gox.func("convert_hardswish_to_lut")
    for node in ast.walk(hs_):
        if isinstance(node, ast.If) and isinstance(node.test, ast.Compare) and len(node.test.ops) == 1 and isinstance(node.test.left, ast.Name) and node.test.left.id.endswith("_shift") \
                and isinstance(node.test.comparators[0], ast.Constant):
            g_var, g_k = node.test.left.id, node.test.comparators[0].value
            for b in ast.walk(ast.Module(body=node.body, type_ignores=[])):
                if isinstance(b, ast.BinOp) and isinstance(b.op, ast.Sub) and isinstance(b.right, ast.Constant) and b.right.value == g_k and isinstance(b.left, ast.Name) and b.left.id.endswith("_shift"):
                    n_g += 1
                    rep.check(b.left.id == g_var, "C19-g", f"{GO}:convert_hardswish_to_lut", f"under `{str(norm(node.test))}` the shift that is reduced by {g_k} is {g_var}",
                              f"`{str(norm(b))}` uses another shift than the guarded one: the value is divided by the wrong power of two whenever this branch is taken")
    rep.check(n_g >= 5, "C19-g", GO, "zero-point / shift-guard sites found", str(n_g))
    rep.clause("C19-d", "constant folding and table generation divide float32 scales only after widening them to double (reference precision) [rule shared with C09-b]")
    from . import c09

    rep.run_borrowed(c09, {"C09-b": "C19-d", "C09-a": "C19-d"}, repo)
    rep.clause("C19-k", "a table generator does not edit the quantisation record of the tensor it reads (a zeroed input zero point shifts every later table built from that tensor) [rule shared with C11-i]; constant buffers are viewed through the numpy type of their tensor type (QUANTIZE folding reads them) [rule shared with C11-b]")
    from . import c11 as _c11

    rep.run_borrowed(_c11, {"C11-i": "C19-k"}, repo, only_sites=("lut.py", "tflite_graph_optimiser"))
    rep.run_borrowed(_c11, {"C11-s": "C19-k"}, repo)
    rep.clause("C19-l", "the scale helpers behind the tables are evaluated on every call: no memo decorator makes the float width of the first caller decide later results [rule shared with C09-g]")
    rep.clause("C19-m", "tables and constants reach the memory image as their bytes: the modules that build the image reinterpret multi-byte values (tobytes / frombuffer / view), they never convert values to a byte type")
    rule_byte_image(repo, rep)
    rep.run_borrowed(c09, {"C09-g": "C19-l"}, repo, only_sites=("scaling.py",))
    rule_table_generators_in_double(repo, rep)
    rep.clause("C19-n", "the int16 table generator uses the reference's constants: 512 intervals, outputs scaled by 65536 / output range, mid-point at half a step, int16 clamp, word = slope << 16 + base (folded from the source)")
    rule_round10(repo, rep)
    rep.clause("C19-p", "a rewrite that decides on a quantised constant decides on its real value, (code - zero point) * scale: no raw code is compared with a numeric literal or stored as a real-valued alpha")
    rule_raw_code_comparisons(repo, rep)
    rep.clause("C19-q", "the table generators evaluate the real function at the real input: finite_lut_value passes its argument unchanged and replaces only an OverflowError")
    rep.clause("C19-r", "the softmax exp table's input scaling is saturated at 2^31 - 1 before it is quantised (reference clamp)")
    rule_round11(repo, rep)
    rep.clause("C19-t", "a table entry is round(f(x) / output scale) + output zero point: the zero point is outside the rounding in every 8-bit table generator (sibling agreement with the reference)")
    rule_round_then_zero_point(repo, rep)
    rep.clause("C19-s", "a constant folded through QUANTIZE is round(value / scale) like the reference kernel [rule shared with C09-z]")
    from . import c09 as _c09s

    rep.run_borrowed(_c09s, {"C09-z": "C19-s"}, repo)
    rep.clause("C19-o", "a table is a function of the operator it is built for: the table modules keep no process-wide memo of generated tables [rule shared with C14-a]")
    from . import c14 as _c14

    rep.run_borrowed(_c14, {"C14-a": "C19-o"}, repo, only_sites=("softmax", "lut", "fp_math", "scaling", "numeric_util"))


def _boundaries(repo, rep):
    """(e) the two places where a table generator replaces the real function by a constant: softmax's exp table below diff_min
    (the reference keeps the entry at diff_min itself), and log(0) (the reference result is -inf, i.e. the lowest output code for
    every output quantisation: the stand-in must be the smallest positive double, whose log saturates whatever the scale)."""
    import sys as _sys

    from ..exprnorm import comparison

    sm = repo.mod("softmax").func("SoftMax.generate_exp_table")
    site = "ethosu/vela/softmax.py:SoftMax.generate_exp_table"
    tests = [i_ for i_ in ast.walk(sm) if isinstance(i_, ast.If) and "diff_min" in str(norm(i_.test))]
    if len(tests) != 1:
        raise AnalysisError("generate_exp_table: diff_min test not found")
    t = tests[0]
    exp_in_body = any(isinstance(c_, ast.Call) and (call_name(c_) or "").endswith("exp_on_negative_values") for st in t.body for c_ in ast.walk(st))
    want = comparison(ast.parse("input_diff >= diff_min" if exp_in_body else "input_diff < diff_min", mode="eval").body)
    rep.check(comparison(t.test) == want, "C19-e", site, "the exp entry is computed for every input_diff >= diff_min (boundary included, as in the reference kernel); only smaller differences give 0",
              f"test is `{norm(t.test)}`: the entry at input_diff == diff_min is forced to 0 where the reference exp is non-zero")
    go = repo.mod("tflite_graph_optimiser")
    cl = go.func("convert_ops_to_lut")
    logs = [f_ for f_ in ast.walk(cl) if isinstance(f_, ast.FunctionDef) and f_.name == "log"]
    if len(logs) != 1:
        raise AnalysisError("convert_ops_to_lut: inner log() not found")
    known = {"sys.float_info.min": _sys.float_info.min, "sys.float_info.epsilon": _sys.float_info.epsilon, "np.finfo(float).tiny": _sys.float_info.min, "np.finfo(np.float64).tiny": _sys.float_info.min,
             "np.finfo(float).eps": _sys.float_info.epsilon, "np.finfo(np.float64).eps": _sys.float_info.epsilon, "np.finfo(np.float32).tiny": 1.1754943508222875e-38, "np.finfo(np.float32).eps": 1.1920928955078125e-07}
    zs = [i_ for i_ in ast.walk(logs[0]) if isinstance(i_, ast.If) and str(norm(i_.test)).replace("(", "").replace(")", "") in ("value == 0", "0 == value", "value == 0.0", "value <= 0", "value <= 0.0")]
    site2 = "ethosu/vela/tflite_graph_optimiser.py:convert_ops_to_lut.log"
    if len(zs) != 1:
        raise AnalysisError("convert_ops_to_lut.log: zero test not found")
    b0 = zs[0].body[0]
    if isinstance(b0, ast.Return):
        txt = str(norm(b0.value))
        rep.check(txt in ("-math.inf", "float('-inf')", "-np.inf", "-numpy.inf"), "C19-e", site2, "log(0) is -inf (saturates to the lowest output code)", f"returns `{txt}`")
    else:
        if not (isinstance(b0, ast.Assign) and str(norm(b0.targets[0])) == "value"):
            raise AnalysisError("convert_ops_to_lut.log: zero branch not recognised")
        txt = str(norm(b0.value))
        val = known.get(txt, b0.value.value if isinstance(b0.value, ast.Constant) and isinstance(b0.value.value, float) else None)
        if val is None:
            raise AnalysisError(f"convert_ops_to_lut.log: stand-in `{txt}` for log(0) is not a constant this check can evaluate")
        rep.check(0 < val <= _sys.float_info.min, "C19-e", site2, "the stand-in for log(0) is the smallest positive (normal) double: log = -708 saturates for every output quantisation",
                  f"stand-in `{txt}` = {val!r}: log = {math.log(val):.1f} does not reach the lowest output code when the output scale is coarse (e.g. -36/0.5 + 90), where the reference gives -128")


def _folding(repo, rep):
    """(b) constant folding of QUANTIZE: whatever is stored into the folded constant's integer array was produced by the integer
    fixed-point helpers or passed through round_away_zero (the reference kernel's rounding); a float quotient that reaches the
    integer cast unrounded is truncated toward zero."""
    go = repo.mod("tflite_graph_optimiser")
    f = go.func("optimise_quantize")
    site = "ethosu/vela/tflite_graph_optimiser.py:optimise_quantize"
    stores = [st for st in ast.walk(f) if isinstance(st, ast.Assign) and str(norm(st.targets[0])) == "ofm.values" and isinstance(st.value, ast.Call) and call_name(st.value) in ("np.array", "numpy.array")
              and len(st.value.args) >= 2 and "as_numpy_type" in str(norm(st.value.args[1]))]
    if len(stores) < 2:
        raise AnalysisError("optimise_quantize: folded value stores not found")
    assigns = {}
    for st in ast.walk(f):
        if isinstance(st, ast.Assign) and len(st.targets) == 1 and isinstance(st.targets[0], ast.Name):
            assigns.setdefault(st.targets[0].id, []).append(st)

    def unrounded_division(e, at, depth=0):
        """a true division whose result reaches `e` without passing a rounding call"""
        if depth > 6:
            return None
        if isinstance(e, ast.Call):
            cn = call_name(e) or ""
            if cn.split(".")[-1] in ("round_away_zero",) or cn.startswith("fp_math."):
                return None
            for a_ in list(e.args) + [k.value for k in e.keywords]:
                r = unrounded_division(a_, at, depth + 1)
                if r:
                    return r
            return None
        if isinstance(e, ast.BinOp):
            if isinstance(e.op, ast.Div):
                return str(norm(e))
            return unrounded_division(e.left, at, depth + 1) or unrounded_division(e.right, at, depth + 1)
        if isinstance(e, ast.Name) and e.id in assigns:
            prior = sorted((s_ for s_ in assigns[e.id] if s_.lineno < at), key=lambda s_: s_.lineno)
            if prior:
                return unrounded_division(prior[-1].value, prior[-1].lineno, depth + 1)
        return None

    for st in stores:
        lst = st.value.args[0]
        if not isinstance(lst, ast.Name):
            continue
        apps = [c for c in ast.walk(f) if isinstance(c, ast.Call) and str(norm(c.func)) == f"{lst.id}.append" and c.lineno < st.lineno]
        apps = [c for c in apps if not any(s2.lineno > c.lineno and s2.lineno < st.lineno and s2 is not st for s2 in stores)]
        for c in apps:
            bad = unrounded_division(c.args[0], c.lineno)
            rep.check(bad is None, "C19-b", site, f"values appended to `{lst.id}` (cast to the output's integer type) are integers or rounded with round_away_zero",
                      f"`{bad}` reaches the integer cast unrounded: np.array(..., int8) truncates toward zero, the reference kernel rounds (folding 2.7 at scale 1 gives 2, reference 3)")


def _round5(repo, rep):
    """(g) the argument a table function is evaluated at is the dequantised input, nothing else: x_real = ifm_scale * (x - zp_in) as a
    polynomial (no clamp, no other offset); the rsqrt index is max(0, x - zp_in); the LeakyReLU rescale saved by the MUL + MAXIMUM
    fusion combines the activation's scale with the constant's scale."""
    from ..exprnorm import poly

    want = {tuple(sorted(("ifm_scale", "x"))): 1, tuple(sorted(("ifm_scale", "zp_in"))): -1}
    n = 0
    for mname, fname in (("lut", "create_lut_8bit_op"), ("tflite_graph_optimiser", "convert_to_lut8")):
        f = repo.mod(mname).func(fname)
        xs = [st for st in ast.walk(f) if isinstance(st, ast.Assign) and str(norm(st.targets[0])) == "x_real"]
        if len(xs) != 1:
            raise AnalysisError(f"{fname}: x_real definition not found")
        try:
            got = poly(xs[0].value)
        except Exception:
            got = None
        n += 1
        rep.check(got == want, "C19-g", f"ethosu/vela/{mname}.py:{fname}", "the table function is evaluated at the dequantised input ifm_scale * (x - zp_in)",
                  f"x_real = `{str(norm(xs[0].value))}`: inputs are clamped / shifted before the real function is applied, so entries for such codes are not the function's value (e.g. SQRT, LOG, GELU above a cap meant for EXP)")
    rs = repo.mod("lut").func("create_lut_rsqrt_int8_op")
    xs = [st for st in ast.walk(rs) if isinstance(st, ast.Assign) and str(norm(st.targets[0])) == "x_real"]
    if len(xs) != 1:
        raise AnalysisError("create_lut_rsqrt_int8_op: table index not found")
    v = xs[0].value
    inner = None
    if isinstance(v, ast.Call) and call_name(v) == "max" and len(v.args) == 2:
        inner = next((a for a in v.args if str(norm(a)) != "0"), None)
    try:
        ok = inner is not None and poly(inner) == {("x",): 1, ("zp_in",): -1}
    except Exception:
        ok = False
    n += 1
    rep.check(ok, "C19-g", "ethosu/vela/lut.py:create_lut_rsqrt_int8_op", "the reference table is indexed with max(0, x - zp_in): the input code relative to its zero point",
              f"index = `{str(norm(v))}`: for an input zero point other than -128 every entry holds 1/sqrt of the wrong real input")
    go = repo.mod("tflite_graph_optimiser")
    cm = go.func("convert_mul_max_to_abs_or_lrelu")
    calls = [c for c in ast.walk(cm) if isinstance(c, ast.Call) and (call_name(c) or "").endswith("elementwise_mul_scale") and len(c.args) == 3]
    if len(calls) != 1:
        raise AnalysisError("convert_mul_max_to_abs_or_lrelu: elementwise_mul_scale call not found")
    sa = {str(norm(s_.targets[0])): s_.value for s_ in ast.walk(cm) if isinstance(s_, ast.Assign) and len(s_.targets) == 1 and isinstance(s_.targets[0], ast.Name)}

    def root(e):
        while isinstance(e, ast.Call) and e.args:
            e = e.args[0]
        if isinstance(e, ast.Name) and e.id in sa:
            return root(sa[e.id])
        t = str(norm(e))
        return t.split(".quantization")[0] if ".quantization" in t else t

    roots = [root(a) for a in calls[0].args]
    n += 1
    rep.check(roots[0] in ("ifm", "shared_in") and roots[1] == "const_tens" and roots[2] == "mul_ofm", "C19-g", "ethosu/vela/tflite_graph_optimiser.py:convert_mul_max_to_abs_or_lrelu",
              "the saved LeakyReLU rescale is (activation scale x constant scale) / MUL output scale", f"scales are taken from {roots}: with the constant as the first MUL operand the multiplier becomes c_scale^2 / ofm_scale")
    if n < 4:
        raise AnalysisError("C19-g round 5: sites missing")


def _zero_constants(repo, rep):
    """(g) a constant that stands for the real value 0 stores its zero point: when the code 0 is stored, the quantisation attached to
    it has zero point 0 (a fresh / cloned record with zero_point = 0), never the record of a tensor with an arbitrary zero point."""
    n = 0
    for mname in ("tflite_graph_optimiser", "graph_optimiser_util", "operation_util", "softmax", "lstm"):
        m = repo.mod(mname)
        for q, fn in m.functions.items():
            zp0 = {str(norm(s_.targets[0].value)) for s_ in ast.walk(fn) if isinstance(s_, ast.Assign) and len(s_.targets) == 1 and isinstance(s_.targets[0], ast.Attribute)
                   and s_.targets[0].attr == "zero_point" and str(norm(s_.value)) in ("0", "0.0")}
            for c in walk_no_nested(fn):
                if not (isinstance(c, ast.Call) and (call_name(c) or "").endswith("create_const_tensor") and len(c.args) >= 4):
                    continue
                v = c.args[3]
                if not (isinstance(v, ast.List) and len(v.elts) == 1 and isinstance(v.elts[0], ast.Constant) and v.elts[0].value == 0):
                    continue
                qk = next((k.value for k in c.keywords if k.arg == "quantization"), c.args[5] if len(c.args) > 5 else None)
                if qk is None:
                    continue
                n += 1
                qt = str(norm(qk))
                ok = qt in zp0
                rep.check(ok, "C19-g", f"ethosu/vela/{mname}.py:{q}", f"`{str(norm(c))[:70]}`: the code 0 is stored under a quantisation whose zero point was set to 0",
                          f"quantisation is `{qt}`: under a non-zero zero point the code 0 is the real value -zero_point * scale, so adding this 'zero' shifts the result by zero_point codes "
                          "(demonstrated: a folded QUANTIZE that is a subgraph output comes out 20 codes too high for zero point -20)")
    if n < 3:
        raise AnalysisError(f"zero constants: only {n} found")


def rule_table_generators_in_double(repo, rep):
    """(d') the generators of the sigmoid / tanh / leaky-ReLU / hard-swish tables compute the real value and its quantisation in double: every
    `.scale_f32` they read is widened (np.double / float) before it enters arithmetic. A float32 scale dividing a Python float gives a
    float32 quotient under NumPy >= 2 (NEP 50), about 8e-6 output steps of error before rounding: entries that are near a tie (structural
    for power-of-two input scales: sigmoid(k/128) * 256 is 2.5e-6 from a tie at k = +-1) get the neighbouring code."""
    rep.clause("C19-d'", "the 8-bit table generators of the graph optimiser read quantisation scales only through a widening call (np.double / float): no float32 value takes part in the per-entry arithmetic")
    go = repo.mod("tflite_graph_optimiser")
    wide = ("np.double", "np.float64", "numpy.double", "numpy.float64", "float")
    n = 0
    for fname in ("convert_to_lut8", "convert_lrelu_to_lut", "convert_hardswish_to_lut"):
        fn = go.func(fname)
        par = go.parents
        for x in ast.walk(fn):
            if isinstance(x, ast.Attribute) and x.attr == "scale_f32" and isinstance(x.ctx, ast.Load):
                n += 1
                p_ = par.get(x)
                widened = isinstance(p_, ast.Call) and call_name(p_) in wide and len(p_.args) == 1 and p_.args[0] is x
                # a scale that is only handed to a helper (which widens itself) or compared is no arithmetic operand
                passed_on = isinstance(p_, ast.Call) and not widened and call_name(p_) not in wide
                rep.check(widened or passed_on or isinstance(p_, (ast.Compare, ast.keyword)), "C19-d'", f"ethosu/vela/tflite_graph_optimiser.py:{fname}", f"`{str(norm(x))}` is widened where it is read",
                          f"read as `{str(norm(p_))[:70]}`: the float32 scale enters the table arithmetic (Python float / np.float32 is a float32 under NumPy >= 2): near-tie entries of SIGMOID / TANH tables "
                          "come out one code off (about 1 table in 200 with random scales; codes +-1 around the zero point for power-of-two input scales)")
    if n < 5:
        raise AnalysisError(f"table generators: only {n} scale reads found")
    rep.floor("C19-d'", 5)


def rule_round7(repo, rep):
    """(i) the table bytes reach the output file: the copy of a lookup table into the flash image is not conditional on the table's
    address being non-zero (address truth lint over the serialisation and allocation modules). (j) the reader keeps the zero points of
    the file as numpy integers: constant folding (optimise_quantize) subtracts them from int8 / int16 values and relies on the
    promotion to int64 - with a Python int the subtraction stays in the narrow type (NumPy >= 2) and wraps."""
    from .shared import address_truth_lint

    mods = ["npu_serialisation", "tensor_allocation", "live_range", "high_level_command_stream_generator", "high_level_command_to_npu_op", "tensor", "scheduler", "tflite_writer", "lut",
            "register_command_stream_generator", "register_command_stream_util", "weight_compressor", "cascade_builder", "greedy_allocation", "hillclimb_allocation", "compiler_driver"]
    n, _ = address_truth_lint(repo, rep, "C19-i", mods)
    if n < 30:
        raise AnalysisError(f"address reads: {n}")
    tr = repo.mod("tflite_reader")
    f = tr.func("TFLiteSubgraph.parse_tensor")
    zs = [a for a in ast.walk(f) if isinstance(a, ast.Assign) and any(str(norm(t)).endswith("quantization.zero_point") for t in a.targets)]
    if not zs:
        raise AnalysisError("parse_tensor: zero point assignment not found")
    for a in zs:
        narrowed = [c for c in ast.walk(a.value) if isinstance(c, ast.Call) and call_name(c) in ("int", "float", "bool") or (isinstance(c, ast.Call) and isinstance(c.func, ast.Attribute) and c.func.attr in ("item", "tolist"))]
        rep.check(not narrowed, "C19-j", "ethosu/vela/tflite_reader.py:TFLiteSubgraph.parse_tensor", f"`{str(norm(a))[:80]}` keeps the file's numpy integer",
                  "the zero point becomes a Python int: `np.int8(value) - zero_point` in optimise_quantize stays int8 under NumPy >= 2 and wraps for |value - zp| > 127: folded QUANTIZE constants are wrong")


def rule_byte_image(repo, rep):
    """(m) npu_serialisation / tflite_writer copy `Tensor.values` into uint8 memory images. For a 256 x 32-bit LUT the image is the 1024
    bytes of the values; `values.astype(np.uint8)` is a *value* conversion (256 truncated low bytes). Rule with expected count zero: no
    `.astype(<8-bit type>)` in these modules; the matcher is exercised on a positive example on every run."""
    byte_types = {"uint8", "int8", "ubyte", "byte", "bool_"}

    def hits(tree):
        out = []
        for c in ast.walk(tree):
            if isinstance(c, ast.Call) and isinstance(c.func, ast.Attribute) and c.func.attr == "astype" and c.args:
                a = c.args[0]
                nm = a.attr if isinstance(a, ast.Attribute) else (a.id if isinstance(a, ast.Name) else (a.value if isinstance(a, ast.Constant) and isinstance(a.value, str) else None))
                if nm in byte_types or nm in ("B", "b", "u1", "i1"):
                    out.append(c)
        return out

    if len(hits(ast.parse("v = v.astype(np.uint8)\nw = w.astype('uint8')\nx = x.astype(np.int32)"))) != 2:
        raise AnalysisError("C19-m: the matcher does not find its positive examples")
    n = 0
    for mname in ("npu_serialisation", "tflite_writer"):
        m = repo.mod(mname)
        for q, fn in m.functions.items():
            n += 1
            for c in hits(fn):
                rep.bad("C19-m", f"ethosu/vela/{mname}.py:{q}", "values are reinterpreted as bytes, not converted",
                        f"`{norm(c)}`: a value conversion to a byte type: a 256-entry 32-bit table (softmax exp LUT) or an int16 constant is written to flash as truncated low bytes followed by stale data")
    rep.ok("C19-m", "ethosu/vela/npu_serialisation.py, tflite_writer.py", f"{n} functions scanned", "no value conversion to an 8-bit type (matcher checked on positive examples)")


def rule_round10(repo, rep):
    """(n) the int16 table generator follows the reference LUTPopulate<int16_t>: 512 intervals over the int16 input range, outputs scaled by
    65536 / (output range) [the number of int16 codes, (max - min + 1)], mid-point at half a step, table words slope << 16 + base. The
    constants are folded from the source with np.iinfo(np.int16) substituted.
    (o) a table is a function of the operator it is built for: the table modules keep no process-wide memo [rule shared with C14-a]."""
    lm = repo.mod("lut")
    fn = lm.func("create_lut_int16_op")
    site = "ethosu/vela/lut.py:create_lut_int16_op"

    class Sub(ast.NodeTransformer):
        def visit_Attribute(self, node):
            t = str(norm(node))
            if t in ("np.iinfo(np.int16).max", "numpy.iinfo(numpy.int16).max"):
                return ast.copy_location(ast.Constant(32767), node)
            if t in ("np.iinfo(np.int16).min", "numpy.iinfo(numpy.int16).min"):
                return ast.copy_location(ast.UnaryOp(ast.USub(), ast.Constant(32768)), node)
            return self.generic_visit(node)

    import copy as _copy

    defs = {}
    for st in ast.walk(fn):
        if isinstance(st, ast.Assign) and isinstance(st.targets[0], ast.Name):
            defs.setdefault(st.targets[0].id, []).append(st.value)

    def folded(name, part=None):
        vs = defs.get(name) or []
        if len(vs) != 1:
            raise AnalysisError(f"create_lut_int16_op: `{name}` has {len(vs)} definitions")
        e = vs[0]
        if part == "numerator":
            if not (isinstance(e, ast.BinOp) and isinstance(e.op, ast.Div)):
                raise AnalysisError(f"create_lut_int16_op: `{name}` is not a quotient")
            e = e.left
        e = Sub().visit(_copy.deepcopy(e))
        ast.fix_missing_locations(e)
        return try_fold(e, default=None), str(norm(vs[0]))

    for name, part, want, why in (
        ("nbr_steps", None, 512, "the hardware table has 512 base / slope words"),
        ("output_scaling_inv", "numerator", 65536, "the reference scales by the number of int16 codes, 65536 / (output_max - output_min): with 65535 base and slope words differ from LUTPopulate<int16_t> by one LSB"),
        ("table_min", None, -32768, "int16 clamp"),
        ("table_max", None, 32767, "int16 clamp"),
    ):
        got, txt = folded(name, part)
        rep.check(got == want, "C19-n", site, f"`{name} = {txt[:80]}`" + (" (numerator)" if part else "") + f" folds to {want}", f"folds to {got!r}: {why}")
    hs = defs.get("half_step") or []
    rep.check(len(hs) == 1 and str(norm(hs[0])) in ("step / 2", "step / 2.0", "0.5 * step", "step * 0.5"), "C19-n", site, "`half_step` is half a step", f"`{str(norm(hs[0])) if hs else None}`")
    words = [st for st in ast.walk(fn) if isinstance(st, ast.Assign) and str(norm(st.targets[0])) == "lut[i]"]
    slopes = defs.get("slope") or []
    rep.check(len(words) == 1 and str(norm(words[0].value)) in ("slope + base", "base + slope") and len(slopes) == 1 and str(norm(slopes[0])).endswith("<< 16"), "C19-n", site,
              "table word = (difference to the next sample) << 16 + base", f"`{str(norm(words[0].value)) if words else None}` / `{str(norm(slopes[0])) if slopes else None}`")
    rep.floor("C19-n", 6)


def rule_raw_code_comparisons(repo, rep):
    """(p) the value of a quantised constant is (code - zero point) * scale. A rewrite that decides on such a constant (Maximum(x, Mul(x, c))
    -> Abs for c = -1, LeakyRelu for 0 <= c <= 1) compares the *real* value: a local bound to `<tensor>.values` of a tensor whose
    quantisation record the same function reads is never compared with a numeric literal as it is, and is stored as a real-valued attribute
    (`attrs["alpha"]`) only after the zero point has been removed and the scale applied."""
    n = 0
    for mn in ("tflite_graph_optimiser", "graph_optimiser_util"):
        m = repo.mod(mn)
        for q, fn in m.functions.items():
            src = " ".join(str(norm(s)) for s in fn.body)
            raw = {}
            for st in ast.walk(fn):
                if isinstance(st, ast.Assign) and isinstance(st.targets[0], ast.Name) and str(norm(st.value)).endswith(".values") and ".quantization." in src:
                    raw[st.targets[0].id] = str(norm(st.value))
            for c in (ast.walk(fn) if raw else ()):
                if isinstance(c, ast.Compare) and len(c.ops) == 1 and not isinstance(c.ops[0], (ast.Is, ast.IsNot)):
                    l, r = c.left, c.comparators[0]
                    for a, b in ((l, r), (r, l)):
                        lit = isinstance(b, ast.Constant) and isinstance(b.value, (int, float)) and not isinstance(b.value, bool) or (isinstance(b, ast.UnaryOp) and isinstance(b.operand, ast.Constant))
                        if isinstance(a, ast.Name) and a.id in raw and lit:
                            n += 1
                            rep.bad("C19-p", f"{m.rel}:{q}", f"`{str(norm(c))}` compares the real value of the constant", f"`{a.id}` is the raw code `{raw[a.id]}`: with a non-zero zero point or a scale other than 1 the decision is taken on the wrong number "
                                    "(code 0, zero point -128, scale 1/256 is alpha 0.5 and was lowered to a plain ReLU; code 2 is alpha 2 and became LeakyRelu(2), which is not max(x, 2x))")
            for st in ast.walk(fn):
                if isinstance(st, ast.Assign) and isinstance(st.targets[0], ast.Subscript) and str(norm(st.targets[0])).replace('"', "'").endswith(".attrs['alpha']"):
                    n += 1
                    v = st.value
                    rep.check(not (isinstance(v, ast.Name) and v.id in raw), "C19-p", f"{m.rel}:{q}", f"`{str(norm(st))[:70]}` stores a real-valued alpha", "the raw code of the constant is stored as alpha")
    if n < 2:
        raise AnalysisError(f"alpha stores / raw constant comparisons in the graph optimiser: {n} found")


def rule_round11(repo, rep):
    """(q) finite_lut_value evaluates the table function at the given argument (the call takes the parameter unchanged: clamping the argument
    flattens Sqrt / Log / Gelu tables above the clamp) and only replaces an OverflowError by infinity.
    (r) the 8-bit softmax exp table quantises beta * input_scale * 2^26 saturated at 2^31 - 1 (the reference's clamp): quantise_scale gives
    the invalid encoding (0, 16) beyond it and every table entry would become 0x7fffffff."""
    lm = repo.mod("lut")
    fn = lm.func("finite_lut_value")
    site = "ethosu/vela/lut.py:finite_lut_value"
    params = [a.arg for a in fn.args.args]
    calls = [c for c in ast.walk(fn) if isinstance(c, ast.Call) and isinstance(c.func, ast.Name) and c.func.id == params[0]]
    rep.check(len(calls) == 1 and len(calls[0].args) == 1 and isinstance(calls[0].args[0], ast.Name) and calls[0].args[0].id == params[1], "C19-q", site,
              f"the table function is evaluated at the given argument `{params[1]}`", f"called as `{str(norm(calls[0])) if calls else None}`: the argument is altered - a Sqrt / Log / Gelu table is flat beyond the clamp")
    handlers = [h for t in ast.walk(fn) if isinstance(t, ast.Try) for h in t.handlers]
    rep.check(any(str(norm(h.type)) == "OverflowError" for h in handlers if h.type is not None), "C19-q", site, "only an OverflowError of the table function is replaced (by infinity, then clamped)", "no OverflowError handler")
    sm = repo.mod("softmax").func("SoftMax.generate_exp_table")
    ssite = "ethosu/vela/softmax.py:SoftMax.generate_exp_table"
    qs = [c for c in ast.walk(sm) if isinstance(c, ast.Call) and (call_name(c) or "").endswith("quantise_scale")]
    if len(qs) != 1 or not isinstance(qs[0].args[0], ast.Name):
        raise AnalysisError("generate_exp_table: quantise_scale call not found")
    arg = qs[0].args[0].id
    defs = [st.value for st in ast.walk(sm) if isinstance(st, ast.Assign) and str(norm(st.targets[0])) == arg]
    ok = False
    if len(defs) == 1 and isinstance(defs[0], ast.Call) and call_name(defs[0]) == "min" and len(defs[0].args) == 2:
        bounds = []
        for a in defs[0].args:
            e = a.args[0] if isinstance(a, ast.Call) and (call_name(a) or "").split(".")[-1] in ("double", "float64", "float") and a.args else a
            v = try_fold(e, default=None)
            if isinstance(v, (int, float)):
                bounds.append(v)
        ok = any(abs(b - (2 ** 31 - 1)) < 1 for b in bounds)
    rep.check(ok, "C19-r", ssite, f"`{arg}` is saturated at 2^31 - 1 before quantise_scale", f"`{str(norm(defs[0]))[:90] if defs else None}`: no saturation - for beta * input_scale >= 32 quantise_scale returns (0, 16) and all 256 exp entries become 0x7fffffff")


def rule_round_then_zero_point(repo, rep):
    """(t) a table entry is round(f(x) / output scale) + output zero point, as in the reference's LUTPopulate: the zero point is added after
    the rounding. Rounding (zero point + quotient) rounds half away from zero around the wrong origin - with a negative zero point an exact
    tie goes down instead of up. In every 8-bit table generator the argument of round_away_zero does not contain the output zero point."""
    n = 0
    for mn, q in (("tflite_graph_optimiser", "convert_to_lut8"), ("lut", "create_lut_8bit_op")):
        m = repo.mod(mn)
        fn = m.func(q)
        zps = {str(norm(st.targets[0])) for st in ast.walk(fn) if isinstance(st, ast.Assign) and str(norm(st.value)).endswith("ofm.quantization.zero_point")} | {"ofm.quantization.zero_point", "op.ofm.quantization.zero_point"}
        for c in ast.walk(fn):
            if isinstance(c, ast.Call) and (call_name(c) or "") == "round_away_zero" and c.args:
                n += 1
                inside = [str(norm(x)) for x in ast.walk(c.args[0]) if str(norm(x)) in zps]
                rep.check(not inside, "C19-t", f"{m.rel}:{q}", f"`{str(norm(c))[:70]}` rounds the scaled value before the zero point is added",
                          f"the output zero point `{inside[0] if inside else ''}` is inside the rounding: an exact tie with a negative zero point is rounded the wrong way (int8 sigmoid, output scale 1.0, zero point -128, x = 0: -128 where the reference has -127)")
    if n < 2:
        raise AnalysisError(f"8-bit table generators: {n} roundings found")

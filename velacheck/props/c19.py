"""C19 Lookup tables and compile-time fixed-point maths match their references (structural clauses)."""
import ast

from ..astutil import calls_in, call_name, dotted, norm, try_fold, walk_no_nested
from ..cfg import cfg_of
from ..core import AnalysisError

GO = "ethosu/vela/tflite_graph_optimiser.py"
LU = "ethosu/vela/lut.py"
FP = "ethosu/vela/fp_math.py"
WIDEN = ("int", "np.int64", "np.int32", "numpy.int64", "numpy.int32", "float", "np.double")

# gemmlowp fixedpoint.h, exp_on_negative_values: GEMMLOWP_EXP_BARREL_SHIFTER(exponent, multiplier) (frozen external reference)
GEMMLOWP_BARREL = [(-2, 1672461947), (-1, 1302514674), (0, 790015084), (1, 290630308), (2, 39332535), (3, 720401), (4, 242)]
GEMMLOWP_EXP_CONSTANTS = {"constant_term": 1895147668, "constant_1_over_3": 715827883}


def run(repo, rep):
    rep.clause("C19-a", "every 8-bit table has one entry per input code: range(256) for uint8 else range(-128, 128), exactly one append per iteration")
    rep.clause("C19-b", "every entry is rounded explicitly and clamped to the quantised range of the same loop before it is stored")
    rep.clause("C19-c", "fixed-point helpers do not depend on the width of the caller's integer type: growing multiplications are applied to widened operands (never inside the widening call); the exponential applies the seven gemmlowp barrel stages")
    rep.undecided("that table values equal the correctly rounded real function; bit-exact equality of the helpers with gemmlowp over their whole domain")
    go = repo.mod("tflite_graph_optimiser")
    lu = repo.mod("lut")
    gens = [(go, "convert_to_lut8", GO), (go, "convert_lrelu_to_lut", GO), (go, "convert_hardswish_to_lut", GO), (lu, "create_lut_8bit_op", LU)]
    for m, fn, path in gens:
        f = m.func(fn)
        site = f"{path}:{fn}"
        ix = [s for s in ast.walk(f) if isinstance(s, ast.Assign) and norm(s.targets[0]) == "ix"]
        ok = len(ix) == 1 and isinstance(ix[0].value, ast.IfExp) and norm(ix[0].value.body) == "range(256)" and norm(ix[0].value.orelse) == "range(-128, 128)" and "DataType.uint8" in norm(ix[0].value.test) \
            and "==" in norm(ix[0].value.test)
        rep.check(ok, "C19-a", site, "index range is range(256) for uint8 inputs, range(-128, 128) otherwise", norm(ix[0].value) if ix else "missing")
        loops = [l for l in ast.walk(f) if isinstance(l, ast.For) and norm(l.iter) == "ix"]
        if len(loops) != 1:
            rep.bad("C19-a", site, "table loop `for x in ix`", f"{len(loops)} loops")
            continue
        L = loops[0]
        c = cfg_of(f)
        app = [x for x in calls_in(L, "values.append")]
        head = c.node_of(L)
        ok = len(app) == 1 and not any(isinstance(s, (ast.Continue, ast.Break)) for s in ast.walk(L))
        if ok:
            an = c.node_of(app[0])
            # every path through the loop body passes the append exactly once
            ok = all(not c.path_avoiding(b, head, [an]) for b, lab in c.succ[head] if lab is True)
        rep.check(ok, "C19-a", site, "exactly one values.append per input code (no skipped or duplicated code)", "append missing on a path, or break / continue in the table loop")
        # b: clamp and rounding
        clamp = [s for s in L.body if isinstance(s, ast.Assign) and norm(s.targets[0]) == "lut_result" and call_name(s.value) == "min"]
        okc = False
        if clamp:
            v = norm(clamp[-1].value)
            okc = v in ("min(quantized_max, max(quantized_min, lut_result))", "min(max(lut_result, quantized_min), quantized_max)", "min(max(quantized_min, lut_result), quantized_max)")
            okc = okc and c.dominates(c.node_of(clamp[-1]), c.node_of(app[0])) and norm(app[0].args[0]) == "lut_result"
            later = [s for s in L.body if isinstance(s, ast.Assign) and norm(s.targets[0]) == "lut_result" and s.lineno > clamp[-1].lineno]
            okc = okc and not later
        rep.check(okc, "C19-b", site, "the stored value is min(quantized_max, max(quantized_min, .)) and nothing modifies it afterwards", norm(clamp[-1].value) if clamp else "no clamp")
        qm = {norm(s.targets[0]): norm(s.value) for s in ast.walk(f) if isinstance(s, ast.Assign) and norm(s.targets[0]) in ("quantized_min", "quantized_max")}
        rep.check(qm == {"quantized_min": "min(ix)", "quantized_max": "max(ix)"}, "C19-b", site, "clamp bounds are the ends of the same index range", str(qm))
        # rounding: the float result goes through round_away_zero, or the computation is integer fixed point (fp_math)
        defs = [s for s in L.body if isinstance(s, ast.Assign) and norm(s.targets[0]) == "lut_result"] + [s for s in ast.walk(L) if isinstance(s, ast.Assign) and norm(s.targets[0]) == "lut_result"]
        first = sorted(set(defs), key=lambda s: s.lineno)
        srcs = [s for s in first if s not in clamp]
        okr = bool(srcs) and all(any(call_name(x) in ("round_away_zero",) or (call_name(x) or "").startswith("fp_math.") for x in calls_in(s.value)) for s in srcs)
        rep.check(okr, "C19-b", site, "the value is produced by round_away_zero(...) or by the integer fixed-point helpers (no implicit truncation)", "; ".join(norm(s.value)[:60] for s in srcs))
    # rsqrt table and create_lut_tensor size check
    clt = lu.func("create_lut_tensor")
    asserts = [norm(s.test) for s in clt.body if isinstance(s, ast.Assert)]
    rep.check(any("256" in a and "512" in a for a in asserts) or any("in (256, 512)" in a for a in asserts), "C19-a", f"{LU}:create_lut_tensor", "a table has 256 or 512 entries", str(asserts))
    rs = lu.func("create_lut_rsqrt_int8_op")
    loops = [l for l in ast.walk(rs) if isinstance(l, ast.For)]
    rep.check(len(loops) >= 1, "C19-a", f"{LU}:create_lut_rsqrt_int8_op", "rsqrt table loop present", "")
    # convert_to_lut requires same in/out type (values generated for the input type are stored with the output type)
    ctl = lu.func("convert_to_lut")
    rep.check(any(isinstance(s, ast.Assert) and norm(s.test) == "ifm.dtype == ofm.dtype" for s in ctl.body), "C19-b", f"{LU}:convert_to_lut", "input and output types must agree for table ops", "")
    rep.floor("C19-a", 9)
    rep.floor("C19-b", 12)

    # ---------------------------------------------------------------- c
    fp = repo.mod("fp_math")
    n = 0
    float_domain = {"from_float": "operand is a real number (float to fixed conversion)", "to_float": "result is a real number"}

    def has_raw(e, tainted):
        """does e contain a caller-typed name that is not under a widening call?"""
        if isinstance(e, ast.Call) and call_name(e) in WIDEN:
            return False
        if isinstance(e, ast.Name):
            return e.id in tainted
        return any(has_raw(c_, tainted) for c_ in ast.iter_child_nodes(e))

    for q, fn in fp.functions.items():
        if "." in q or q in float_domain:
            continue
        params = {a.arg for a in fn.args.args}
        tainted = set(params)
        # locals that are plain copies / arithmetic of params stay "caller typed"; widened values are clean
        for s in sorted((x for x in walk_no_nested(fn) if isinstance(x, ast.Assign) and len(x.targets) == 1 and isinstance(x.targets[0], ast.Name)), key=lambda x: x.lineno):
            v = s.value
            if isinstance(v, ast.Call) and call_name(v) in WIDEN:
                tainted.discard(s.targets[0].id)
            elif isinstance(v, ast.Call) and (call_name(v) or "").split(".")[-1] in fp.functions:
                tainted.discard(s.targets[0].id)  # results of the helpers are at least int32 / Python ints
            elif has_raw(v, tainted) and not isinstance(v, ast.Call):
                tainted.add(s.targets[0].id)
            elif not has_raw(v, tainted):
                tainted.discard(s.targets[0].id)
        for node in walk_no_nested(fn):
            if isinstance(node, ast.BinOp) and isinstance(node.op, (ast.Mult, ast.LShift)):
                ops_ = [node.left, node.right]
                raw = [o for o in ops_ if isinstance(o, ast.Name) and o.id in tainted]
                if not raw:
                    continue
                # constant-only other operand of a shift amount is fine: `1 << offset` has a Python int base
                if isinstance(node.op, ast.LShift) and not (isinstance(node.left, ast.Name) and node.left.id in tainted):
                    continue
                par = fp.parents.get(node)
                inside_widen = isinstance(par, ast.Call) and call_name(par) in WIDEN and par.args and par.args[0] is node
                n += 1
                site = f"{FP}:{q}"
                if inside_widen:
                    rep.bad("C19-c", site, norm(par)[:80], f"the product of caller-typed operands {[o.id for o in raw]} is formed first and widened afterwards: with NumPy fixed-width operands it wraps before the widening")
                else:
                    rep.bad("C19-c", site, norm(node)[:80], f"growing operation on the caller-typed operand {[o.id for o in raw]} without widening (int() / np.int64()): NumPy fixed-width scalars wrap or raise where the reference saturates")
            elif isinstance(node, ast.BinOp) and isinstance(node.op, ast.Mult):
                pass
        # positive instances: widened products
        for node in walk_no_nested(fn):
            if isinstance(node, ast.BinOp) and isinstance(node.op, ast.Mult) and all(isinstance(o, ast.Call) and call_name(o) in WIDEN for o in (node.left, node.right)):
                n += 1
                rep.ok("C19-c", f"{FP}:{q}", norm(node)[:80], "both operands widened before the multiply")
            if isinstance(node, ast.BinOp) and isinstance(node.op, ast.Mult) and isinstance(node.left, ast.Call) and call_name(node.left) in WIDEN and not (isinstance(node.right, ast.Call)):
                n += 1
                rep.ok("C19-c", f"{FP}:{q}", norm(node)[:80], "caller-typed operand widened before the multiply")
    # exponential: barrel shifter stages vs gemmlowp
    ex = fp.func("exp_on_negative_values")
    stages = []
    for c_ in sorted(calls_in(ex, "exp_barrel_shifter", nested=False), key=lambda x: x.lineno):
        e, mlt = try_fold(c_.args[0]), try_fold(c_.args[1])
        stages.append((e, mlt))
    for l in [x for x in walk_no_nested(ex) if isinstance(x, ast.For)]:
        it = l.iter
        if isinstance(it, ast.Call) and call_name(it) == "zip" and len(it.args) == 2:
            a, b = try_fold(it.args[0]) if not isinstance(it.args[0], ast.Name) else None, None
            seqs = []
            for arg in it.args:
                v = try_fold(arg)
                if v is None and isinstance(arg, ast.Name):
                    d = [s for s in walk_no_nested(ex) if isinstance(s, ast.Assign) and norm(s.targets[0]) == arg.id]
                    v = try_fold(d[0].value) if d else None
                if v is None and isinstance(arg, ast.Call) and call_name(arg) == "range":
                    r = [try_fold(x) for x in arg.args]
                    v = list(range(*r)) if all(isinstance(x, int) for x in r) else None
                seqs.append(list(v) if v is not None else None)
            if all(sq is not None for sq in seqs):
                stages = list(zip(*seqs))
    rep.check(stages == GEMMLOWP_BARREL, "C19-c", f"{FP}:exp_on_negative_values", "the exponential applies the seven gemmlowp barrel-shifter stages (exponents -2..4 with their multipliers)",
              f"stages are {stages}: arguments below -2^(missing exponent) lose a factor")
    inner = fp.func("exp_on_interval_between_negative_one_quarter_and_0_excl")
    consts = {norm(s.targets[0]): try_fold(s.value) for s in inner.body if isinstance(s, ast.Assign) and norm(s.targets[0]) in GEMMLOWP_EXP_CONSTANTS}
    rep.check(consts == GEMMLOWP_EXP_CONSTANTS, "C19-c", f"{FP}:exp_on_interval_between_negative_one_quarter_and_0_excl", "Taylor constants equal gemmlowp's (exp(-1/8), 1/3 in Q0.31)", str(consts))
    sh = fp.func("exp_on_negative_values.exp_barrel_shifter")
    d = {norm(s.targets[0]): norm(s.value) for s in sh.body if isinstance(s, ast.Assign)}
    rep.check(d.get("shift") == "fractional_bits + exponent if integer_bits > exponent else 0" and d.get("fractional_bits") == "26" and d.get("integer_bits") == "5", "C19-c",
              f"{FP}:exp_on_negative_values.exp_barrel_shifter", "stage k tests bit (26 + exponent) of the remainder (Q5.26)", str(d))
    # rounding_divide_by_pot: gemmlowp RoundingDivideByPOT shape
    rd = fp.func("rounding_divide_by_pot")
    d = {norm(s.targets[0]): norm(s.value) for s in rd.body if isinstance(s, ast.Assign)}
    rep.check(d.get("mask") == "(1 << exponent) - 1" and d.get("remainder") == "x & mask" and d.get("threshold") == "mask >> 1" and d.get("result") == "x >> exponent", "C19-c", f"{FP}:rounding_divide_by_pot",
              "mask / remainder / threshold / arithmetic shift as in gemmlowp RoundingDivideByPOT", str(d))
    neg = [n_ for n_ in rd.body if isinstance(n_, ast.If) and norm(n_.test) == "x < 0" and [norm(s) for s in n_.body] == ["threshold += 1"]]
    up = [n_ for n_ in rd.body if isinstance(n_, ast.If) and norm(n_.test) == "remainder > threshold" and [norm(s) for s in n_.body] == ["result += 1"]]
    rep.check(len(neg) == 1 and len(up) == 1, "C19-c", f"{FP}:rounding_divide_by_pot", "threshold + 1 for negative x; round up when remainder > threshold", "")
    for fn, bits, wide in (("saturating_rounding_mul32", 31, "np.int64"), ("saturating_rounding_mul16", 15, "np.int32")):
        f = fp.func(fn)
        d = {norm(s.targets[0]): norm(s.value) for s in ast.walk(f) if isinstance(s, ast.Assign)}
        rep.check(d.get("divider") == f"1 << {bits}" and d.get("ab") == f"{wide}(a) * {wide}(b)", "C19-c", f"{FP}:{fn}", f"doubling high multiply: {wide} product, divider 2^{bits}", str({k: d.get(k) for k in ('divider', 'ab')}))
        nud = sorted(norm(s.value) for s in ast.walk(f) if isinstance(s, ast.Assign) and norm(s.targets[0]) == "nudge")
        rep.check(nud == sorted([f"1 << {bits - 1}", f"1 - (1 << {bits - 1})"]), "C19-c", f"{FP}:{fn}", f"nudge = 2^{bits - 1} for non-negative products, 1 - 2^{bits - 1} otherwise", str(nud))
        sat = [n_ for n_ in f.body if isinstance(n_, ast.If) and "a == b" in norm(n_.test) and ".min" in norm(n_.test)]
        rep.check(len(sat) == 1 and ".max" in norm(sat[0].body[0]), "C19-c", f"{FP}:{fn}", "min * min saturates to max", "")
    rep.floor("C19-c", 14)
    rep.clause("C19-d", "constant folding and table generation divide float32 scales only after widening them to double (reference precision) [rule shared with C09-b]")
    from . import c09

    with rep.borrow({"C09-b": "C19-d"}):
        c09.run(repo, rep)

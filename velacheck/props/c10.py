"""C10 Splitting an operator into stripes does not change what it computes (structural clauses)."""
import ast
import re

from ..astutil import calls_in, call_name, inline, norm, walk_no_nested
from ..core import AnalysisError
from ..exprnorm import comparison, linear, conjuncts
from ..roles import RoleChecker

HG = "ethosu/vela/high_level_command_stream_generator.py"
HS = "ethosu/vela/high_level_command_stream.py"
HN = "ethosu/vela/high_level_command_to_npu_op.py"
AA = "ethosu/vela/architecture_allocator.py"


def run(repo, rep):
    rep.clause("C10-r", "Box.wrap keeps the coordinates of a broadcast operand inside it (interpreted on probes: a % b, a == b wraps to 0); the padding helpers that feed the stripe boxes bind top / bottom from height and left / right from width quantities")
    rule_box_wrap(repo, rep)
    rep.clause("C10-s", "the (width, height) getters of Operation are unpacked width first wherever their parts are named (package-wide)")
    rule_wh_getters(repo, rep)
    rep.clause("C10-a", "output stripes partition the output: every spatial loop is `for s in range(lo, hi, step): e = min(s + step, hi)` with the same bounds; depth uses consecutive slice entries clamped by the same bounds; the OFM box is built from exactly these")
    rep.clause("C10-b", "first / last stripe flags are derived from the same bounds; create_padding overrides top/bottom exactly for partial stripes and clips left/right at the IFM edges")
    rep.clause("C10-c", "stripe geometry is axis- and side-consistent (strides[1]/skirt[0,2]/coord[-3] = H, strides[2]/skirt[1,3]/coord[-2] = W); bottom padding = last kernel row minus IFM height")
    rep.clause("C10-d", "the receptive-field formula is the same where it is duplicated")
    rep.clause("C10-e", "stripe heights handed up a cascade stay even whenever any operator of that cascade resamples nearest-neighbour: the decision scans every scheduler op, filtered only by cascade identity and resampling mode")
    rep.undecided("that input box and pads equal the receptive field for all shapes; rolling-buffer sufficiency; every stripe height the scheduler proposes")
    from .shared import duplicate_branch_lint

    duplicate_branch_lint(repo, rep, "C10-a", ['high_level_command_stream', 'high_level_command_stream_generator', 'cascade_builder'])
    rep.assume("stripe steps are positive and the depth-slice list is ascending")
    from .shared import mirror_families, module_axis_lint

    module_axis_lint(repo, rep, "C10-c", ['high_level_command_stream', 'high_level_command_stream_generator', 'cascade_builder', 'scheduler'])

    mirror_families(repo, rep, "C10-c", {('cascade_builder', '', 'sched_op.parent_op'): 'operand roles', ('high_level_command_stream_generator', '', 'sched_op'): 'operand roles', ('scheduler', '', 'self.parent_op'): 'operand roles', ('scheduler', 'self', 'ps.primary_op'): 'scheduler op fields'})
    hg = repo.mod("high_level_command_stream_generator")
    f = hg.func("generate_high_level_commands_for_sched_op")
    site = f"{HG}:generate_high_level_commands_for_sched_op"
    # ---------------------------------------------------------------- a
    loops = [l for l in ast.walk(f) if isinstance(l, ast.For) and call_name(l.iter) == "range" and len(l.iter.args) == 3]
    found = {}
    for l in loops:
        s = norm(l.target)
        lo, hi, step = (norm(a) for a in l.iter.args)
        ends = [st for st in l.body if isinstance(st, ast.Assign) and call_name(st.value) == "min"]
        ok = False
        detail = "no `end = min(start + step, hi)` at the top of the loop body"
        if ends:
            args = ends[0].value.args
            forms = [linear(a) for a in args]
            want_sum = {s: 1, step: 1}
            ok = len(args) == 2 and any(fm == want_sum for fm in forms) and any(norm(a) == hi for a in args)
            detail = f"end = {norm(ends[0].value)}; loop is range({lo}, {hi}, {step})"
            found[s] = (lo, hi, step, norm(ends[0].targets[0]))
        rep.check(ok, "C10-a", site, f"stripe loop over {s}: end = min({s} + {step}, {hi}) with the loop's own upper bound and step", detail)
    want_axes = {"start_height": ("ofm_start.height", "ofm_end.height", "ofm_step.height"), "start_width": ("ofm_start.width", "ofm_end.width", "ofm_step.width")}
    for s, w in want_axes.items():
        rep.check(s in found and found[s][:3] == w, "C10-a", site, f"{s} ranges over [{w[0]}, {w[1]}) in steps of {w[2]}", str(found.get(s)))
    # depth slices
    dl = [l for l in ast.walk(f) if isinstance(l, ast.For) and norm(l.iter) == "enumerate(ofm_depth_slices[:-1])"]
    ok = len(dl) == 1
    if ok:
        d = {norm(s.targets[0]): norm(s.value) for s in dl[0].body if isinstance(s, ast.Assign)}
        ok = d.get("start_channel") in ("max(start_channel, ofm_start.depth)", "max(ofm_start.depth, start_channel)") and \
            d.get("end_channel") in ("min(ofm_depth_slices[depth_idx + 1], ofm_end.depth)", "min(ofm_end.depth, ofm_depth_slices[depth_idx + 1])")
        rep.check(ok, "C10-a", site, "depth slice k is [slices[k], slices[k+1]) clamped to [ofm_start.depth, ofm_end.depth]", str(d))
        bs = {norm(s.targets[0]): norm(s.value) for s in dl[0].body if isinstance(s, ast.Assign) and norm(s.targets[0]) in ("ofm_box_start", "ofm_box_end", "ofm_box")}
        rep.check(bs.get("ofm_box_start") == "Shape4D(ofm_start.batch, start_height, start_width, start_channel)" and bs.get("ofm_box_end") == "Shape4D(ofm_end.batch, end_height, end_width, end_channel)"
                  and bs.get("ofm_box") == "Box(ofm_box_start.as_list(), ofm_box_end.as_list())", "C10-a", site,
                  "the OFM box is (batch, height, width, channel) of exactly the loop's start / end values", str(bs))
    else:
        rep.bad("C10-a", site, "depth slice loop", "not recognised")
    # ofm_start / ofm_end definitions
    defs = [(norm(s.targets[0]), norm(s.value)) for s in walk_no_nested(f) if isinstance(s, ast.Assign) and norm(s.targets[0]) in ("ofm_start", "ofm_end")]
    want = {("ofm_start", "Shape4D(0, 0, 0, op_info.ofm_depth_slices[0])"), ("ofm_end", "ofm_shape"), ("ofm_start", "write_offset"), ("ofm_end", "parent_op.write_offset + parent_op.write_shape")}
    rep.check(set(defs) == want, "C10-a", site, "bounds are the whole OFM, or [write_offset, write_offset + write_shape) for a concat slice", str(defs))
    st = [s for s in walk_no_nested(f) if isinstance(s, ast.Assign) and norm(s.targets[0]) == "ofm_step"]
    rep.check(len(st) == 1 and norm(st[0].value) == "op_info.stripe", "C10-a", site, "the step is the scheduled stripe", "")
    rep.floor("C10-a", 7)

    # ---------------------------------------------------------------- b
    d = {norm(s.targets[0]): s.value for s in ast.walk(f) if isinstance(s, ast.Assign) and norm(s.targets[0]) in ("is_first_h_stripe", "is_last_h_stripe")}
    rep.check(norm(d.get("is_first_h_stripe")) in ("ofm_box_start.height == ofm_start.height", "ofm_start.height == ofm_box_start.height"), "C10-b", site, "first stripe <=> box starts at the lower bound", norm(d.get("is_first_h_stripe")))
    cm = comparison(d["is_last_h_stripe"]) if "is_last_h_stripe" in d else None
    want = comparison(ast.parse("ofm_box_end.height >= ofm_end.height", mode="eval").body)
    rep.check(bool(cm) and cm[0] == want[0] and cm[1] == want[1], "C10-b", site, "last stripe <=> box ends at (or beyond) the upper bound", norm(d.get("is_last_h_stripe")))
    ns = [c for c in calls_in(f, "NpuStripe")]
    rep.check(len(ns) == 1 and [norm(a) for a in ns[0].args[2:4]] == ["is_first_h_stripe", "is_last_h_stripe"] and
              {k.arg: norm(k.value) for k in ns[0].keywords}.get("pad_top") == "pad_top" and {k.arg: norm(k.value) for k in ns[0].keywords}.get("pad_bottom") == "pad_bottom", "C10-b", site,
              "the stripe command carries the flags and the pads computed for this box", "")
    hn = repo.mod("high_level_command_to_npu_op")
    cp = hn.func("create_padding")
    ov = [n for n in ast.walk(cp) if isinstance(n, ast.If) and norm(n.test) == "not (cmd.is_first_h_stripe and cmd.is_last_h_stripe)"]
    rep.check(len(ov) == 1 and {norm(s) for s in ov[0].body} == {"top = cmd.pad_top", "bottom = cmd.pad_bottom"}, "C10-b", f"{HN}:create_padding",
              "top/bottom come from the stripe exactly when the stripe is not the whole height", "")
    ex = [s for s in cp.body if isinstance(s, ast.Assign) and norm(s.targets[0]) == "(top, left, bottom, right)"]
    rep.check(len(ex) == 1 and norm(ex[0].value) == "primary_op.attrs['explicit_padding']", "C10-b", f"{HN}:create_padding", "(top, left, bottom, right) = explicit_padding", "")
    lft = [n for n in ast.walk(cp) if isinstance(n, ast.If) and [norm(s) for s in n.body] == ["left = 0"]]
    rgt = [n for n in ast.walk(cp) if isinstance(n, ast.If) and [norm(s) for s in n.body] == ["right = 0"]]
    rep.check(len(lft) == 1 and "cmd.ifm_box.start_coord[-2] > box_start_coord_min" in norm(lft[0].test), "C10-b", f"{HN}:create_padding", "left pad dropped when the box does not start at the IFM's left edge", "")
    rep.check(len(rgt) == 1 and "cmd.ifm_box.end_coord[-2] < box_end_coord_max" in norm(rgt[0].test), "C10-b", f"{HN}:create_padding", "right pad dropped when the box does not reach the IFM's right edge", "")
    ret = [s for s in cp.body if isinstance(s, ast.Return)]
    rep.check(ret and norm(ret[-1].value) == "NpuPadding(top=top, left=left, bottom=bottom, right=right)", "C10-b", f"{HN}:create_padding", "NpuPadding(top=top, left=left, bottom=bottom, right=right)", "")
    rep.floor("C10-b", 8)

    # ---------------------------------------------------------------- c
    hs = repo.mod("high_level_command_stream")
    tf = hs.func("Box.transform_with_strides_and_skirt")
    conv = {-3: "H", -2: "W", -1: "C"}
    rc = RoleChecker(index_conventions={r"coord$": conv, r"^strides$": {1: "H", 2: "W"}, r"^skirt$": {0: "H", 1: "W", 2: "H", 3: "W"}, r"^split_offset$|^split_shape$": conv})
    n = 0

    def block_axis(stmts, env):
        """Walk a statement list in order; `stride = strides[k]` binds the local's axis for the rest of the block."""
        nonlocal n
        for st in stmts:
            if isinstance(st, ast.Assign) and isinstance(st.targets[0], ast.Name) and isinstance(st.value, ast.Subscript):
                a = rc.leaf_axis(st.value)
                if a:
                    env = dict(env)
                    env[st.targets[0].id] = a
            if isinstance(st, ast.If):
                block_axis(st.body, env)
                block_axis(st.orelse, env)
                continue
            if isinstance(st, (ast.For, ast.While)):
                block_axis(st.body, env)
                continue
            rc.name_axes = env
            if isinstance(st, (ast.Assign, ast.AugAssign)):
                t = st.targets[0] if isinstance(st, ast.Assign) else st.target
                ta = rc.leaf_axis(t)
                leaves = rc.axes(st.value)
                if ta is None and leaves and isinstance(t, ast.Name) and t.id in ("pad_top", "pad_bottom", "total_stride", "k_start", "skirt_top_remainder"):
                    ta = "H"
                if ta and leaves:
                    n += 1
                    bad = [(a, s) for a, s in leaves if a != ta]
                    (rep.bad if bad else rep.ok)("C10-c", f"{HS}:Box.transform_with_strides_and_skirt", norm(st)[:110], f"{ta}-axis target uses {bad}" if bad else "")

    block_axis(tf.body, {})
    # bottom padding formula (frozen, compared as a linear form after alias inlining)
    pb = [s for s in ast.walk(tf) if isinstance(s, ast.Assign) and norm(s.targets[0]) == "pad_bottom" and call_name(s.value) == "max"]
    ok = len(pb) == 1
    if ok:
        arg = [a for a in pb[0].value.args if not (isinstance(a, ast.Constant) and a.value == 0)]
        lf = linear(arg[0]) if len(arg) == 1 else {}
        # the height is the IFM's or, with a fused slice, the slice window's: any `<shape>.height * upscaling_factor`
        hk = [k for k in lf if re.fullmatch(r"\w+[.]height \* upscaling_factor|upscaling_factor \* \w+[.]height", str(k))]
        ok = len(arg) == 1 and len(hk) == 1 and {("H*up" if k == hk[0] else k): v for k, v in lf.items()} == {"k_start": 1, "total_stride": 1, "k_dilated_height": 1, "H*up": -1}
    rep.check(ok, "C10-c", f"{HS}:Box.transform_with_strides_and_skirt", "pad_bottom = max(0, k_start + total_stride + k_dilated_height - ifm_height * upscaling)",
              norm(pb[0].value) if pb else "bottom padding is no longer derived from the position of the last kernel row")
    ts = [s for s in ast.walk(tf) if isinstance(s, ast.Assign) and norm(s.targets[0]) == "total_stride"]
    # rows = <OFM end row of the box> - <its start row>; the end row is the box's (clamped to the upscaled IFM height or not - the values are
    # decided by the interpretations C10-c slice window / C10-j), possibly through a local that selects between the two
    def _end_row_ok(e_):
        if norm(e_) in ("new_end_coord[-3]", "original_end_coord[-3]"):
            return True
        if isinstance(e_, ast.IfExp):
            return _end_row_ok(e_.body) and _end_row_ok(e_.orelse)
        if isinstance(e_, ast.Name):
            defs = [a_ for a_ in ast.walk(tf) if isinstance(a_, ast.Assign) and len(a_.targets) == 1 and norm(a_.targets[0]) == e_.id]
            return bool(defs) and all(_end_row_ok(a_.value) for a_ in defs)
        return False

    ts_ok = False
    if len(ts) == 1 and isinstance(ts[0].value, ast.BinOp) and isinstance(ts[0].value.op, ast.Mult):
        l_, r_ = ts[0].value.left, ts[0].value.right
        if norm(r_) == "stride":
            l_, r_ = r_, l_
        if norm(l_) == "stride" and isinstance(r_, ast.BinOp) and isinstance(r_.op, ast.Sub) and norm(r_.right) == "1" and isinstance(r_.left, ast.BinOp) and isinstance(r_.left.op, ast.Sub) \
                and norm(r_.left.right) == "new_start_coord[-3]":
            ts_ok = _end_row_ok(r_.left.left)
    rep.check(ts_ok, "C10-c", f"{HS}:Box.transform_with_strides_and_skirt", "total_stride = stride * (rows - 1)", norm(ts[0].value) if ts else "")
    pt = [s for s in ast.walk(tf) if isinstance(s, ast.Assign) and norm(s.targets[0]) == "pad_top" and not isinstance(s.value, ast.Constant)]
    rep.check(len(pt) == 1 and norm(pt[0].value) == "max(0, 0 - new_start_coord[-3]) + skirt_top_remainder", "C10-c", f"{HS}:Box.transform_with_strides_and_skirt",
              "pad_top = rows of the receptive field above row 0", norm(pt[0].value) if pt else "")
    # call site: strides / skirt argument order
    cs = calls_in(f, "ofm_box.transform_with_strides_and_skirt")
    for i, c_ in enumerate(cs):
        a = [norm(x) for x in c_.args]
        want = ["strides", "skirt", "ifm.shape" if i == 0 else "ifm2.shape", "npu_block_type", "write_offset.as_list()", "k_dilated_height", f"read_offsets[{i}]", f"read_shapes[{i}]", "upscaling", "sched_op.op_type"]
        rep.check(a == want, "C10-c", site, f"transform call for ifm{'' if i == 0 else '2'}: {', '.join(want)}", str(a))
    sd = [s for s in walk_no_nested(f) if isinstance(s, ast.Assign) and norm(s.targets[0]) == "strides"]
    rep.check(len(sd) == 1 and norm(sd[0].value) == "[1, kernel_stride.y, kernel_stride.x, 1]", "C10-c", site, "strides = [1, stride.y, stride.x, 1] (index 1 = H, 2 = W)", norm(sd[0].value) if sd else "")
    kd = [s for s in walk_no_nested(f) if isinstance(s, ast.Assign) and norm(s.targets[0]) == "k_dilated_height"]
    rep.check(len(kd) == 1 and linear(kd[0].value) == linear(ast.parse("k_height_dilation * (k_height - 1) + 1", mode="eval").body), "C10-c", site,
              "dilated kernel height = dilation * (k - 1) + 1", norm(kd[0].value) if kd else "")
    # skirt convention at its producer
    ou = repo.mod("operation")
    aa = repo.mod("architecture_allocator")
    for fn in ("get_ifm_area_required", "_get_ifm_blocksize"):
        g = aa.func(fn)
        for call in calls_in(g, "_required_size"):
            axes = []
            for x in call.args[:3]:
                axes += [a for a, _ in RoleChecker().axes(x)]
            n += 1
            rep.check(len(set(axes)) == 1 and len(axes) >= 3, "C10-c", f"{AA}:{fn}", norm(call)[:100], f"mixed axes {axes}")
    # create_padding: the left / right clipping compares width-axis quantities only (coordinates indexed from the end:
    # [-3] = H, [-2] = W, [-1] = C); locals without an axis in their name take the axis of what is assigned to them
    from ..roles import infer_local_axes

    cp_ = hn.func("create_padding")
    rc2 = RoleChecker(index_conventions={r"(start_coord|end_coord|read_offset|read_shape)$": {-3: "H", -2: "W", -1: "C"}})
    inferred = infer_local_axes(cp_, rc2)
    for nm, kinds in sorted(inferred.items()):
        rep.check(len(kinds) == 1, "C10-c", f"{HN}:create_padding", f"local `{nm}` holds quantities of one axis ({'/'.join(sorted(kinds))})", f"assigned from {sorted(kinds)} axes")
    rc2.name_axes = {nm: next(iter(k)) for nm, k in inferred.items() if len(k) == 1}
    for kind, txt, detail in rc2.check_function(cp_):
        (rep.bad if kind == "bad" else rep.ok)("C10-c", f"{HN}:create_padding", txt[:110], detail)
    # call sites: a parameter named after an axis receives a quantity of that axis (with_hw(h, w), Kernel(w, h, ...))
    from .shared import call_axis_agreement

    call_axis_agreement(repo, rep, "C10-c")
    # end row of the IFM box under upscaling, as a function: the statements that assign new_end_coord[-3] after the padding has
    # been computed are composed and evaluated on a grid against the confirmed formula (any refactoring that keeps the value passes)
    import copy as _copy
    import itertools as _it

    from ..astutil import try_fold as _tf

    class _Sub(ast.NodeTransformer):
        def visit_Subscript(self, node):
            return ast.copy_location(ast.Name(id="S_" + re.sub(r"[^A-Za-z0-9]", "_", str(norm(node))), ctx=ast.Load()), node)

        def visit_Attribute(self, node):
            return ast.copy_location(ast.Name(id="S_" + re.sub(r"[^A-Za-z0-9]", "_", str(norm(node))), ctx=ast.Load()), node)

    ends = sorted((st for st in ast.walk(tf) if isinstance(st, ast.Assign) and str(norm(st.targets[0])) == "new_end_coord[-3]"), key=lambda st: st.lineno)
    marker = [st for st in ast.walk(tf) if isinstance(st, ast.Assign) and str(norm(st.targets[0])) == "new_start_coord[-3]" and "// upscaling_factor" in str(norm(st.value))]
    if not ends or len(marker) != 1:
        raise AnalysisError("transform_with_strides_and_skirt: end-row statements under upscaling not found")
    ups = [st for st in ends if st.lineno > marker[0].lineno]
    if not ups:
        raise AnalysisError("transform_with_strides_and_skirt: no end-row assignment after the upscaling adjustment")
    key = "S_new_end_coord__3_"
    wrong = None
    npts = 0
    for E, stride_, s2, u, H in _it.product(range(1, 7), (1, 2, 3), (0, 1, 2, 3), (1, 2), (3, 50)):
        env = {"stride": stride_, "upscaling_factor": u, key: E, "S_skirt_2_": s2, "S_ifm_shape_height": H}
        val = E
        ok_eval = True
        for st in ups:
            e2 = _Sub().visit(_copy.deepcopy(st.value))
            env[key] = val
            for nm_ in ast.walk(e2):
                # the clamp is against the height of the IFM or, with a fused slice, of the slice window
                if isinstance(nm_, ast.Name) and re.fullmatch(r"S_\w+_height", nm_.id):
                    env[nm_.id] = H
            val = _tf(e2, env, default=None)
            if not isinstance(val, int):
                ok_eval = False
                break
        if not ok_eval:
            raise AnalysisError(f"transform_with_strides_and_skirt: end-row statements not evaluable ({[str(norm(st.value))[:60] for st in ups]})")
        want = max(min((E * stride_ + s2 + (s2 % u)) // u, H), 1)
        npts += 1
        if val != want and wrong is None:
            wrong = (E, stride_, s2, u, H, val, want)
    rep.check(wrong is None, "C10-c", f"{HS}:Box.transform_with_strides_and_skirt", f"IFM end row under upscaling = (end * stride + skirt_bottom + skirt_bottom % upscale) // upscale, clamped to [1, height] ({npts} points)",
              (f"at end={wrong[0]}, stride={wrong[1]}, skirt_bottom={wrong[2]}, upscale={wrong[3]}, height={wrong[4]} the statements give {wrong[5]}, expected {wrong[6]}: "
               "every non-last stripe of an operator reading an upscaled IFM gets one IFM row too few") if wrong else "")
    rule_slice_window(repo, rep)
    rep.clause("C10-j", "explicit (fused PAD) padding: per-stripe pad_bottom is the receptive field of the stripe's last OFM row, also when the OFM is taller than the IFM (even kernels)")
    rule_explicit_pad_bottom(repo, rep)
    rep.clause("C10-k", "needed_total_padding is the reference's total SAME padding for every extent, stride and filter size (function interpreted on a grid)")
    rep.clause("C10-l", "axis-named locals of the stripe generator (k_height_dilation ..) take values of their own axis")
    rule_round7(repo, rep)
    rep.clause("C10-n", "read windows of chained slice reads are not overwritten: a slice read is folded only into consumers without a window of their own")
    rule_slice_chain(repo, rep)
    rep.clause("C10-m", "cascade bookkeeping: all operators of a cascade share one time slot [C12-k]; the rolling buffer keeps the memory type of the storage it is placed in [C02-d]")
    from . import c02 as _c02m
    from . import c12 as _c12m

    rep.run_borrowed(_c12m, {"C12-k": "C10-m"}, repo)
    rep.run_borrowed(_c02m, {"C02-d": "C10-m"}, repo, only_sites=("apply_schedule",))
    rep.clause("C10-o", "a depth slice is computed with its own weights: every core's padded sub-stream is inside the weight DMA [C08-f]; the no-buffering fallback restores the full-depth slices together with the full weights [C08-i]; the channel offset of a slice addresses brick c // 16 whatever the element size [C02-v]")
    from . import c08 as _c08o

    rep.run_borrowed(_c08o, {"C08-f": "C10-o", "C08-i": "C10-o"}, repo, only_sites=("create_dma_op", "propose_weight_buffering"))
    rep.run_borrowed(_c02m, {"C02-v": "C10-o"}, repo, only_sites=("get_augmented_coord",))
    rep.clause("C10-q", "the upscaling factor of a transpose convolution / nearest-neighbour resize relates the OFM rows to the rows the operator reads: the read window of a fused slice if there is one, not the whole tensor")
    rule_upscaling_extent(repo, rep)
    rep.clause("C10-p", "the un-cascaded MAX schedule is returned early only when nothing can be evicted from fast storage afterwards: the early exit of optimize_schedule is guarded by `not is_spilling_enabled()` as well as by the SRAM limit (otherwise a tried MIN schedule leaves rolling-buffer shapes on tensors that are then used as whole feature maps)")
    rule_early_exit_guard(repo, rep)
    rule_rolling_buffer_addressing(repo, rep)
    rule_tensor_effect_order(repo, rep)
    rule_tile_base_offset_side(repo, rep)
    rep.floor("C10-c", 18)

    # ---------------------------------------------------------------- d
    rs = aa.func("_required_size")
    rep.check(norm(rs.body[-1]) == "return int(math.ceil(((value - 1) * stride + border + nearest) / upscale))", "C10-d", f"{AA}:_required_size",
              "IFM extent for an OFM extent = ceil(((n - 1) * stride + border + nearest) / upscale)", norm(rs.body[-1]))
    af = repo.mod("architecture_features")
    gb = af.func("ArchitectureFeatures.get_ifm_block_size")
    nd = 0
    for kind, txt, detail in RoleChecker().check_function(gb):
        nd += 1
        (rep.bad if kind == "bad" else rep.ok)("C10-d", "ethosu/vela/architecture_features.py:ArchitectureFeatures.get_ifm_block_size", txt[:110], detail)
    for ax, st in (("height", "y"), ("width", "x")):
        dd = [x for x in ast.walk(gb) if isinstance(x, ast.Assign) and norm(x.targets[0]) == f"ifm_block_{ax}" and call_name(x.value) == "round_up_to_int"]
        ok = len(dd) == 1 and f"(ofm_block.{ax} - 1) * kernel.stride.{st} + min(subkernel.{ax}, dilated_kernel_{ax})" in norm(dd[0].value)
        rep.check(ok, "C10-d", "ethosu/vela/architecture_features.py:ArchitectureFeatures.get_ifm_block_size", f"duplicate formula for {ax}: (ofm - 1) * stride.{st} + min(subkernel, dilated kernel)",
                  norm(dd[0].value) if dd else "missing")
    rep.floor("C10-d", 4)
    rep.clause("C10-f", "rolling buffers between cascaded operators: height round_up(producer + consumer stripe, consumer stripe), full producer width, rebuilt for every stripe proposal [rule shared with C03-e]")
    from . import c03

    rep.run_borrowed(c03, {"C03-e": "C10-f"}, repo)

    # ---------------------------------------------------------------- e: even stripe heights under nearest-neighbour upscaling
    sch = repo.mod("scheduler")
    ps = sch.func("Scheduler.propose_schedule_striping")
    SITE_E = "ethosu/vela/scheduler.py:Scheduler.propose_schedule_striping"
    loops = [l for l in ast.walk(ps) if isinstance(l, ast.For) and any(isinstance(x, ast.Assign) and norm(x) == "force_even_stripe_heights = True" for x in ast.walk(l))
             and not any(isinstance(x, ast.For) and x is not l and any(norm(y) == "force_even_stripe_heights = True" for y in ast.walk(x)) for x in ast.walk(l))]
    if len(loops) != 1:
        raise AnalysisError("propose_schedule_striping: the loop deciding force_even_stripe_heights was not found")
    lp = loops[0]
    rep.check(norm(lp.iter) in ("self.sched_ops", "reversed(self.sched_ops)", "list(self.sched_ops)"), "C10-e", SITE_E, "the scan ranges over all scheduler ops",
              f"scan ranges over `{norm(lp.iter)}`: operators outside it (e.g. a nearest-neighbour resize upstream of the current op) no longer force even stripes, and the hardware upscales an odd stripe from the wrong row")
    conds = [n_ for n_ in lp.body if isinstance(n_, ast.If)]
    ok = len(conds) == 1 and isinstance(conds[0].test, ast.BoolOp) and isinstance(conds[0].test.op, ast.And)
    if ok:
        cj = [norm(v) for v in conds[0].test.values]
        tgt = norm(lp.target)
        ok = any(c in (f"ref_cost[{tgt}].cascade == ref_cost[sched_op].cascade", f"ref_cost[sched_op].cascade == ref_cost[{tgt}].cascade") for c in cj) and f"is_nearest({tgt}.resampling_mode)" in cj and \
            all(c.startswith("ref_cost.get(") or "cascade" in c or "is_nearest" in c for c in cj)
    rep.check(ok, "C10-e", SITE_E, "an op counts iff it is in the same cascade and resamples nearest-neighbour", norm(conds[0].test) if conds else "")
    hs = [s_ for s_ in ast.walk(ps) if isinstance(s_, ast.Assign) and norm(s_.targets[0]) == "height"]
    rep.check(len(hs) == 1 and norm(hs[0].value) == "stripe.height + (stripe.height % 2 if force_even_stripe_heights else upscaling_remainder)", "C10-e", SITE_E,
              "forced-even height = stripe.height rounded up to even", norm(hs[0].value) if hs else "")
    # minimal schedule: the stripe being chosen is the loop's own op's OFM stripe; whether it must be even is a property of
    # that op's IFM resampling (its OFM rows are produced in pairs), not of its neighbour
    pm = sch.func("Scheduler.propose_minimal_schedule")
    SITE_M = "ethosu/vela/scheduler.py:Scheduler.propose_minimal_schedule"
    mloops = [l for l in ast.walk(pm) if isinstance(l, ast.For)]
    if len(mloops) != 1:
        raise AnalysisError("propose_minimal_schedule: loop over the scheduler ops not found")
    ml = mloops[0]
    tg = ml.target.elts[-1] if isinstance(ml.target, ast.Tuple) else ml.target
    tgt = str(norm(tg))
    near = [c_ for c_ in ast.walk(ml) if isinstance(c_, ast.Call) and call_name(c_) == "is_nearest"]
    stripes = [c_ for c_ in ast.walk(ml) if isinstance(c_, ast.Call) and call_name(c_).endswith(".with_height")]
    if not near or len(stripes) != 1:
        raise AnalysisError("propose_minimal_schedule: is_nearest test / stripe construction not found")
    rep.check(str(norm(stripes[0].func)).startswith(f"{tgt}.ofm.shape."), "C10-e", SITE_M, f"the minimal stripe is a slice of `{tgt}`'s own OFM", str(norm(stripes[0]))[:90])
    for c_ in near:
        rep.check(len(c_.args) == 1 and str(norm(c_.args[0])) == f"{tgt}.resampling_mode", "C10-e", SITE_M, f"even stripe heights are forced by `{tgt}`'s own nearest-neighbour resampling",
                  f"tests `{str(norm(c_))}`: the op whose IFM is upscaled 2x nearest-neighbour produces OFM rows in pairs; an odd stripe height on it splits a pair across two stripes")
    # optimised schedules: the stripe heights proposed for the last operator of a sub-schedule enter propose_schedule_striping as they are
    # (only the producers' heights are adjusted there), so they must already respect that operator's own upscaling factor
    osub = sch.func("Scheduler.optimize_sub_schedule")
    SITE_O = "ethosu/vela/scheduler.py:Scheduler.optimize_sub_schedule"
    pst = [st for st in ast.walk(osub) if isinstance(st, ast.Assign) and str(norm(st.targets[0])) == "possible_stripes"]
    if len(pst) != 1:
        raise AnalysisError("optimize_sub_schedule: the list of proposed stripes was not found")
    last_alias = {str(norm(st.targets[0])) for st in ast.walk(osub) if isinstance(st, ast.Assign) and str(norm(st.value)) == "sub_schedule_ops[-1]"} | {"sub_schedule_ops[-1]"}
    # the comprehension may use locals computed just before it (e.g. a step): inline single-assignment names
    local = {str(norm(st.targets[0])): st.value for st in ast.walk(osub) if isinstance(st, ast.Assign) and len(st.targets) == 1 and isinstance(st.targets[0], ast.Name) and st.lineno < pst[0].lineno}
    texts = [str(norm(pst[0].value))] + [str(norm(local[n_.id])) for n_ in ast.walk(pst[0].value) if isinstance(n_, ast.Name) and n_.id in local]
    ok = any(any(f"{fn_}({a}.resampling_mode)" in t for t in texts) for a in last_alias for fn_ in ("to_upscale", "is_nearest"))
    rep.check(ok, "C10-e", SITE_O, "the stripe heights proposed for the last operator of a sub-schedule are restricted by that operator's own upscaling factor",
              f"`{texts[0][:110]}` proposes every height: an operator that reads its IFM 2x nearest-neighbour upscaled and is last in its cascade gets an odd stripe (demonstrated: RESIZE_NEAREST_NEIGHBOR "
              "11x15 -> 22x30 last in a cascade, ethos-u65-512, --arena-cache-size 4000: stripe height 9, OFM rows 0..9 are given IFM rows 0..4 and need 0..5; the next stripe starts at the odd row 9)")
    # the same decision by evaluation: the comprehension is folded for upscaling factors 1 and 2, every minimum height 1..9 and three OFM
    # heights; every proposed height must be a multiple of the factor (a range() that *starts* at an odd minimum and steps by 2 is not)
    import copy as _copy

    class _Cand(ast.NodeTransformer):
        def visit_Call(self, node):
            self.generic_visit(node)
            if isinstance(node.func, ast.Attribute) and node.func.attr == "with_height" and len(node.args) == 1:
                return node.args[0]
            return node

        def visit_Attribute(self, node):
            if node.attr == "height" and isinstance(node.value, ast.Name):
                return ast.copy_location(ast.Name(id="H__", ctx=ast.Load()), node)
            return self.generic_visit(node)

    cand = _Cand().visit(_copy.deepcopy(pst[0].value))
    ast.fix_missing_locations(cand)
    free = {n_.id for n_ in ast.walk(cand) if isinstance(n_, ast.Name) and isinstance(n_.ctx, ast.Load)} - {"range", "H__"} - {n_.id for g_ in ast.walk(cand) if isinstance(g_, ast.comprehension) for n_ in ast.walk(g_.target) if isinstance(n_, ast.Name)}
    mult_names = {n_ for n_ in free if n_ in local and "to_upscale(" in str(norm(local[n_]))}
    min_names = free - mult_names
    if len(mult_names) != 1 or len(min_names) != 1:
        raise AnalysisError(f"optimize_sub_schedule: candidate heights use {sorted(free)} (expected one upscaling factor and one minimum height)")
    code = compile(ast.Expression(cand), "<possible_stripes>", "eval")
    wrong = None
    for mult in (1, 2):
        for mn in range(1, 10):
            for hh in (16, 30, 48):
                try:
                    hs = eval(code, {"__builtins__": {}, "range": range, "H__": hh, next(iter(mult_names)): mult, next(iter(min_names)): mn})
                except Exception as ex:  # noqa: BLE001
                    raise AnalysisError(f"optimize_sub_schedule: candidate heights not evaluable: {ex}")
                badh = [h_ for h_ in hs if h_ % mult]
                if badh and wrong is None:
                    wrong = (mult, mn, hh, badh[:3])
    rep.check(wrong is None, "C10-e", SITE_O, "every proposed stripe height is a multiple of the last operator's upscaling factor (folded for factors 1, 2; minimum 1..9; OFM heights 16, 30, 48)",
              f"factor {wrong[0]}, minimum height {wrong[1]}, OFM height {wrong[2]}: heights {wrong[3]} are proposed - an odd stripe on a 2x nearest-neighbour upscaled operator splits a row pair (IFM rows [0,3) for OFM rows [0,7) where [0,4) are needed)" if wrong else "")
    rep.floor("C10-e", 6)

    # producer / consumer roles at call sites of the cascade / scheduler code (rolling buffer between two cascaded ops:
    # producer's OFM stripe + consumer's IFM stripe)
    from .shared import operand_stem_lint
    n_pc = operand_stem_lint(repo, rep, "C10-g", ["cascade_builder", "scheduler"], sides={"producer": {"producer", "prev", "previous"}, "consumer": {"consumer", "next"}},
                             what="producer and consumer are exchanged at this call; a rolling buffer is sized from the producer's OFM stripe and the consumer's IFM stripe")
    if n_pc < 2:
        raise AnalysisError(f"producer/consumer call-site roles: only {n_pc} sites compared")
    # ---------------------------------------------------------------- g: which operators may be striped in a cascade, rolling buffer storage
    from .shared import require_conjuncts

    rep.clause("C10-g", "an operator is striped inside a cascade only under the reviewed exclusions (block types without stripe geometry, slice reads, transposed convolution, tile padding ...); rolling-buffer storage keeps the 16-channel rounding of the tensor's storage shape")
    cb = repo.mod("cascade_builder")
    ic = cb.func("CascadeBuilder._is_cascadable")
    ret = sorted((r_ for r_ in ast.walk(ic) if isinstance(r_, ast.Return)), key=lambda r_: r_.lineno)[-1]
    require_conjuncts(rep, "C10-g", "ethosu/vela/cascade_builder.py:CascadeBuilder._is_cascadable", ret.value, [
        "sched_op.op_type.npu_block_type not in non_cascadable_blocks",
        "cost.stripe.height < sched_op.ofm.shape.height",
        "sched_op.parent_op.read_offsets[0] is None",
        "sched_op.parent_op.read_offsets[1] is None",
        "self.elementwise_cascadable(sched_op)",
        "not sched_op.parent_op.type == Op.Conv2DBackpropInputSwitchedBias",
        "sched_op.parent_op.attrs.get('padding', None) != Padding.TILE",
    ], "cascadable", "the operator gets row stripes although its IFM boxes / padding are only right for a single stripe")
    tm = repo.mod("tensor")
    ss = tm.func("Tensor.storage_shape_for_sub_purpose")
    el = [n_ for n_ in ast.walk(ss) if isinstance(n_, ast.If) and "DoubleBuffer" in str(norm(n_.test)) and n_.orelse]
    if len(el) != 1:
        raise AnalysisError("storage_shape_for_sub_purpose: DoubleBuffer / rolling-buffer split not found")
    base = [s_ for s_ in el[0].orelse if isinstance(s_, ast.Assign) and norm(s_.targets[0]) == "shp"]
    rep.check(len(base) == 1 and norm(base[0].value) == "full_shape(4, self.storage_shape, 1)", "C10-g", "ethosu/vela/tensor.py:Tensor.storage_shape_for_sub_purpose",
              "rolling-buffer storage starts from the tensor's storage shape (channels rounded to 16 for NHCWB16)", (str(norm(base[0].value)) if base else "") +
              ": the row stride of a brick-format rolling buffer drops the channel rounding, so the last brick of a row overlaps the next row")
    rep.floor("C10-g", 8)



def rule_explicit_pad_bottom(repo, rep):
    """(j) A PAD fused into a VALID convolution gives explicit padding (top, bottom) of up to k // 2 each; with an even kernel the OFM is
    one row taller than the IFM. For a stripe that ends at OFM row e the last kernel application starts at (e - 1) * stride - top and
    touches k rows: pad_bottom = max(0, (e - 1) * stride - top + k - H), whatever the height of the OFM. Decided by interpreting
    Box.transform_with_strides_and_skirt (no slice, upscaling 1) on stripes of such operators; the skirt handed in is the one
    calc_padding_and_skirt records for EXPLICIT padding (top, left, ypad - top, xpad - left with the SAME-padding total)."""
    from ..absint import AList, AObj, Interp, Unknown

    hs = repo.mod("high_level_command_stream")

    def npsub(i, a, k, n):
        x, y = a
        xs = x.items if isinstance(x, AList) else list(x)
        ys = y.items if isinstance(y, AList) else list(y)
        return AList([p_ - q_ for p_, q_ in zip(xs, ys)])

    def mkbox(i, a, k, n):
        return AObj("Box", {"start_coord": a[0], "end_coord": a[1]}, cls="Box")

    it = Interp(repo, hs, externs={"np.subtract": npsub, "numpy.subtract": npsub, "Box": mkbox})
    site = f"{HS}:Box.transform_with_strides_and_skirt"
    H = 16
    wrong = []
    pts = 0
    for k in (2, 3, 4):
        top = k // 2
        ofm_h = H + 2 * top - k + 1
        skirt_b = (k - 1) - top
        for s0, e in ((0, ofm_h), (ofm_h - 1, ofm_h), (ofm_h - 5, ofm_h), (0, 8), (8, ofm_h - 1)):

            def mk(k=k, top=top, s0=s0, e=e, skirt_b=skirt_b):
                box = AObj("box", {"start_coord": AList([0, s0, 0, 0]), "end_coord": AList([1, e, ofm_h, 16])}, cls="Box")
                ifm = AObj("shape", {"height": H, "width": H, "depth": 16, "batch": 1}, cls="Shape4D")
                return [box, AList([1, 1, 1, 1]), AList([top, top, skirt_b, skirt_b]), ifm, Unknown("blocktype"), AList([0, 0, 0, 0]), k], {"upscaling_factor": 1, "op_type": None}

            try:
                ps = [p_ for p_ in it.run("Box.transform_with_strides_and_skirt", mk) if p_.kind == "return"]
            except AnalysisError as ex:
                raise AnalysisError(f"transform_with_strides_and_skirt not evaluable on explicit-padding stripes: {str(ex)[:120]}")
            if not ps:
                raise AnalysisError("transform_with_strides_and_skirt: no returning path on explicit-padding stripes")
            for p_ in ps:
                pads = tuple(p_.value[1:3])
                if not all(isinstance(x_, int) for x_ in pads):
                    raise AnalysisError(f"transform_with_strides_and_skirt: symbolic padding {pads}")
                want = (max(0, top - s0), max(0, (e - 1) - top + k - H))
                pts += 1
                if pads != want:
                    wrong.append((k, (s0, e), pads, want))
    rep.check(not wrong, "C10-j", site, f"stripes of an operator with explicit (fused PAD) padding get pad_bottom = max(0, (e - 1) * stride - top + k - H), also when the OFM is taller than the IFM ({pts} points, kernels 2, 3, 4)",
              "; ".join(f"kernel {k}, padding ({k // 2}, {k // 2}), OFM rows {se[0]}..{se[1]} of an IFM with {H} rows: (pad_top, pad_bottom) = {g}, the kernel needs {w}" for k, se, g, w in wrong[:3]) +
              ": the stripe's OFM end row is clamped to the IFM height before the padding is derived (demonstrated: PAD (1,1) + CONV_2D 2x2 VALID striped in a cascade: the last stripe has 1 IFM row for a 2-row kernel)" if wrong else "")


def rule_slice_window(repo, rep):
    """(c) an operator that reads its IFM through a fused slice (read offset o, read shape n) sees the window [o, o + n) as its
    whole input: along H and W the stripe's IFM box is max(s * stride - skirt_lo, 0) + o .. min(e * stride + skirt_hi, n) + o -
    the offset is not scaled by the stride and the box never leaves the window. Decided by interpreting
    Box.transform_with_strides_and_skirt on a grid of boxes, strides, skirts and windows (upscaling 1)."""
    import itertools

    from ..absint import AList, AObj, Interp, Unknown

    hs = repo.mod("high_level_command_stream")

    def npsub(i, a, k, n):
        x, y = a
        xs = x.items if isinstance(x, AList) else list(x)
        ys = y.items if isinstance(y, AList) else list(y)
        return AList([p_ - q_ for p_, q_ in zip(xs, ys)])

    def mkbox(i, a, k, n):
        return AObj("Box", {"start_coord": a[0], "end_coord": a[1]}, cls="Box")

    def mkshape(i, a, k, n):
        if len(a) != 4:
            return Unknown("Shape4D")
        return AObj("shape", {"batch": a[0], "height": a[1], "width": a[2], "depth": a[3]}, cls="Shape4D")

    it = Interp(repo, hs, externs={"np.subtract": npsub, "numpy.subtract": npsub, "Box": mkbox, "Shape4D": mkshape})
    site = f"{HS}:Box.transform_with_strides_and_skirt"
    wrong = None
    pts = 0
    H = W = 20
    for stride, (lo, hi), o, n_, s0, e in itertools.product((1, 2), ((0, 0), (1, 1)), (0, 4), (8,), (0, 1), (1, 2, 4)):
        if e * stride > n_ + lo + hi or e <= s0:
            continue

        def mk(stride=stride, lo=lo, hi=hi, o=o, n_=n_, e=e, s0=s0):
            box = AObj("box", {"start_coord": AList([0, s0, s0, 0]), "end_coord": AList([1, e, e, 16])}, cls="Box")

            def shape(h, w):
                return AObj("shape", {"height": h, "width": w, "depth": 16, "batch": 1}, cls="Shape4D")

            ifm = shape(H, W)
            kw = {"upscaling_factor": 1, "op_type": None}
            if o or True:
                kw["split_offset"] = AList([0, o, o, 0])
                kw["split_shape"] = AList([1, n_, n_, 16])
            return [box, AList([1, stride, stride, 1]), AList([lo, lo, hi, hi]), ifm, Unknown("blocktype"), AList([0, 0, 0, 0]), lo + hi + 1], kw

        try:
            ps = [p_ for p_ in it.run("Box.transform_with_strides_and_skirt", mk) if p_.kind == "return"]
        except AnalysisError as ex:
            raise AnalysisError(f"transform_with_strides_and_skirt not evaluable on the slice-window grid: {str(ex)[:120]}")
        if not ps:
            raise AnalysisError("transform_with_strides_and_skirt: no returning path on the slice-window grid")
        for p_ in ps:
            b = p_.value[0]
            sc, ec = b.fields.get("start_coord"), b.fields.get("end_coord")
            sc = sc.items if isinstance(sc, AList) else list(sc)
            ec = ec.items if isinstance(ec, AList) else list(ec)
            got = (sc[-3], ec[-3], sc[-2], ec[-2])
            if not all(isinstance(x_, int) for x_ in got):
                raise AnalysisError(f"transform_with_strides_and_skirt: symbolic coordinates {got}")
            want_h = (max(s0 * stride - lo, 0) + o, max(min(e * stride + hi, n_), 1) + o)
            want_w = (max(s0 * stride - lo, 0) + o, min(e * stride + hi, n_) + o)
            kh = lo + hi + 1
            want_pad = (max(0, lo - s0 * stride), max(0, s0 * stride - lo + stride * (e - s0 - 1) + kh - n_) if e * stride + hi > n_ else 0)
            pads = tuple(p_.value[1:3])
            if not all(isinstance(x_, int) for x_ in pads):
                raise AnalysisError(f"transform_with_strides_and_skirt: symbolic padding {pads}")
            pts += 1
            if (got != want_h + want_w or pads != want_pad) and wrong is None:
                wrong = (dict(stride=stride, skirt=(lo, hi), offset=o, window=n_, ofm_rows=(s0, e)), got + pads, want_h + want_w + want_pad)
    rep.check(wrong is None, "C10-c", site, f"with a fused slice the IFM box is taken inside the window [offset, offset + shape): start = max(s*stride - skirt, 0) + offset, end = min(e*stride + skirt, shape) + offset ({pts} points)",
              (f"at {wrong[0]}: rows/cols/padding (h0, h1, w0, w1, pad_top, pad_bottom) = {wrong[1]}, expected {wrong[2]}: the read offset is multiplied by the stride and / or the rows are clipped against the whole tensor instead of the "
               "window (demonstrated: CONV 1x1 -> STRIDED_SLICE rows 4..12 -> CONV 3x3 stride 2: IFM rows 8..15 instead of 4..11)") if wrong else "")


def rule_rolling_buffer_addressing(repo, rep):
    """(h) rows of a rolling buffer wrap modulo the buffer's own storage height. Both address functions of Tensor take the operator's shape for
    the wrap only for a *standard* feature map and the tensor's (reduced) storage shape otherwise: the selecting tests contain
    `self.is_standard_fm` in both, and the fallback is the storage shape."""
    from ..exprnorm import conjuncts as _cj

    rep.clause("C10-h", "addresses inside a rolling buffer wrap modulo the buffer's storage shape: Tensor.addresses_for_rolling_buffer and Tensor.address_for_coordinate use the operator's shape only for standard feature maps")
    tm = repo.mod("tensor")
    n = 0
    for fname in ("Tensor.addresses_for_rolling_buffer", "Tensor.address_for_coordinate"):
        fn = tm.func(fname)
        sel = [i for i in ast.walk(fn) if isinstance(i, ast.If) and any(isinstance(x, ast.Call) and str(norm(x.func)) == "self.get_4D_storage_shape_for_shape" for b in i.body for x in ast.walk(b))
               and any("self.storage_shape" in str(norm(b)) for b in i.orelse)]
        if len(sel) != 1:
            raise AnalysisError(f"{fname}: selection between the operator's shape and the storage shape not found")
        n += 1
        cj = [str(norm(c)) for c in _cj(sel[0].test)]
        rep.check("self.is_standard_fm" in cj, "C10-h", f"ethosu/vela/tensor.py:{fname}", "the operator's shape is used for the wrap only if the tensor is a standard feature map",
                  f"selected by `{str(norm(sel[0].test))}`: for a tensor in a cascade's rolling buffer the crossing row is then computed modulo the full feature map height, a box that straddles the end of the "
                  "buffer is not split into two tiles and the rows after the wrap point are addressed behind the buffer")
    rep.floor("C10-h", 3)


def rule_tensor_effect_order(repo, rep):
    """(h) effect order of Tensor's mutators: a method that derives a field from its current value (set_new_sub_purpose reduces storage_shape to
    the rolling buffer) followed, on the same tensor in the same block, by a method that re-computes that field from scratch (set_format
    derives storage_shape from the full shape) loses the first effect. Read / write sets are taken from the method bodies (calls of other
    Tensor methods followed two levels)."""
    tm = repo.mod("tensor")
    meths = {q.split(".")[1]: fn for q, fn in tm.functions.items() if q.startswith("Tensor.") and q.count(".") == 1}

    def reads(fn, attr, depth=0):
        for x in ast.walk(fn):
            if isinstance(x, ast.Attribute) and isinstance(x.value, ast.Name) and x.value.id == "self" and x.attr == attr and isinstance(x.ctx, ast.Load):
                return True
            if depth < 2 and isinstance(x, ast.Call) and isinstance(x.func, ast.Attribute) and isinstance(x.func.value, ast.Name) and x.func.value.id == "self" and x.func.attr in meths \
                    and meths[x.func.attr] is not fn and reads(meths[x.func.attr], attr, depth + 1):
                return True
        return False

    writes, resets = {}, {}
    for n_, fn in meths.items():
        w = {t.attr for st in ast.walk(fn) if isinstance(st, ast.Assign) for t in st.targets if isinstance(t, ast.Attribute) and isinstance(t.value, ast.Name) and t.value.id == "self"}
        writes[n_] = w
        resets[n_] = {a for a in w if not reads(fn, a)}
    if "storage_shape" not in writes.get("set_format", ()) or "storage_shape" not in writes.get("set_new_sub_purpose", ()):
        raise AnalysisError("Tensor.set_format / set_new_sub_purpose no longer write storage_shape")
    npairs = 0
    for m in repo.core_modules():
        for q, fn in m.functions.items():
            if "." in q and q.split(".")[0] in m.functions:
                continue
            for owner in ast.walk(fn):
                for fld in ("body", "orelse"):
                    blk = getattr(owner, fld, None)
                    if not isinstance(blk, list):
                        continue
                    calls = [(str(norm(st.value.func.value)), st.value.func.attr, st) for st in blk if isinstance(st, ast.Expr) and isinstance(st.value, ast.Call) and isinstance(st.value.func, ast.Attribute) and st.value.func.attr in meths]
                    for i, (r1, a, s1) in enumerate(calls):
                        for r2, b, s2 in calls[i + 1:]:
                            if r1 != r2 or a == b:
                                continue
                            npairs += 1
                            lost = sorted(x for x in (writes[a] & resets[b]) if reads(meths[a], x))
                            rep.check(not lost, "C10-h", f"{m.rel}:{q}", f"`{r1}.{a}(..)` then `{r1}.{b}(..)`: the second call keeps what the first derived",
                                      f"`{b}` re-computes {lost} from scratch after `{a}` derived it from its current value: the tensor stays a rolling buffer but its storage shape is the full feature map again "
                                      "(addresses no longer wrap while the allocator reserves the reduced buffer)")
    if npairs < 1:
        raise AnalysisError("no pair of Tensor mutator calls on one receiver found (expected apply_schedule)")


def rule_tile_base_offset_side(repo, rep):
    """(i) the four interleaved quarter-operators of a half-pixel-centres RESIZE_BILINEAR partition the OFM through `tile_base_offsets_ofm`: the
    row pitch in that offset is the *OFM* width. Names unpacked from `<x>.shape` carry the side of <x> (ifm / ofm); a store into an
    `_ofm` offset may use spatial extents of the OFM side only (and into an `_ifm` offset those of the IFM side)."""
    rep.clause("C10-i", "byte offsets stored into tile_base_offsets_ofm / _ifm are built from the spatial extents of the same side (names unpacked from ofm.shape / ifm.shape); tile padding offsets are evaluated on a grid [rule shared with C02-l]")
    go = repo.mod("tflite_graph_optimiser")
    n = 0
    for q, fn in go.functions.items():
        side = {}
        for st in ast.walk(fn):
            if isinstance(st, ast.Assign) and isinstance(st.targets[0], ast.Tuple) and isinstance(st.value, ast.Attribute) and st.value.attr == "shape":
                base = str(norm(st.value.value))
                sd = "ofm" if "ofm" in base or "output" in base else "ifm" if "ifm" in base or "input" in base else None
                if sd and len(st.targets[0].elts) == 4:
                    for pos, e in enumerate(st.targets[0].elts):
                        if isinstance(e, ast.Name) and e.id != "_" and pos in (1, 2):
                            side[e.id] = sd
        for st in ast.walk(fn):
            if isinstance(st, ast.Assign) and isinstance(st.targets[0], ast.Subscript) and isinstance(st.targets[0].value, ast.Attribute) and st.targets[0].value.attr in ("tile_base_offsets_ofm", "tile_base_offsets_ifm"):
                want = st.targets[0].value.attr.split("_")[-1]
                used = {x.id: side[x.id] for x in ast.walk(st.value) if isinstance(x, ast.Name) and x.id in side}
                if not used:
                    continue
                n += 1
                wrong = sorted(k for k, v in used.items() if v != want)
                rep.check(not wrong, "C10-i", f"ethosu/vela/tflite_graph_optimiser.py:{q}", f"`{str(norm(st))[:80]}` uses extents of the {want.upper()}",
                          f"{wrong} are extents of the other side: the quarter-operators of the odd rows start in the middle of row 0, part of the OFM is written twice and part never")
    if n < 1:
        raise AnalysisError("no store into tile_base_offsets_ofm / _ifm built from shape extents found")
    from . import c02 as _c02

    rep.run_borrowed(_c02, {"C02-l": "C10-i"}, repo, only_sites=("modify_tile_addresses_for_padding",))
    rep.floor("C10-i", 2)


def rule_round7(repo, rep):
    """(k) needed_total_padding(input, stride, filter) is the total SAME padding of the reference: max((ceil(input / stride) - 1) * stride +
    filter - input, 0); it sizes the skirt of every operator (how far a stripe's IFM box reaches beyond its kernel origin). Interpreted on
    a grid. (l) locals of the stripe generator that are named after an axis take their value from that axis (k_height_dilation from the
    height dilation: attrs["dilation"][-3] / dilation.y, never dilation.x)."""
    import re as _re

    from ..absint import Interp

    gu = repo.mod("graph_optimiser_util")
    it = Interp(repo, gu)
    wrong = None
    pts = 0
    for inp in range(1, 21):
        for stride in (1, 2, 3):
            for filt in range(1, 9):
                ps = [p_ for p_ in it.run("needed_total_padding", lambda inp=inp, stride=stride, filt=filt: ([inp, stride, filt], {})) if p_.kind == "return"]
                if len(ps) != 1 or not isinstance(ps[0].value, int):
                    raise AnalysisError(f"needed_total_padding({inp}, {stride}, {filt}) not evaluable: {[(p_.kind, p_.value) for p_ in ps][:2]}")
                want = max((-(-inp // stride) - 1) * stride + filt - inp, 0)
                pts += 1
                if ps[0].value != want and wrong is None:
                    wrong = (inp, stride, filt, ps[0].value, want)
    rep.check(wrong is None, "C10-k", "ethosu/vela/graph_optimiser_util.py:needed_total_padding", f"total padding = max((ceil(in / stride) - 1) * stride + filter - in, 0) on {pts} points",
              (f"needed_total_padding({wrong[0]}, {wrong[1]}, {wrong[2]}) = {wrong[3]}, the reference needs {wrong[4]}: the skirt is one stride short when the extent is no multiple of the stride; "
               "a striped VALID strided operator gets IFM boxes one row short") if wrong else "")
    hg = repo.mod("high_level_command_stream_generator")
    f = hg.func("generate_high_level_commands_for_sched_op")
    site = "ethosu/vela/high_level_command_stream_generator.py:generate_high_level_commands_for_sched_op"
    n = 0
    for a in walk_no_nested(f):
        if not (isinstance(a, ast.Assign) and len(a.targets) == 1 and isinstance(a.targets[0], ast.Name)):
            continue
        toks = a.targets[0].id.lower().split("_")
        ax = "H" if "height" in toks or "h" in toks[1:] else ("W" if "width" in toks or "w" in toks[1:] else None)
        if ax is None:
            continue
        t = str(norm(a.value))
        leaves = set()
        if _re.search(r"\.(y|height)\b(?!\w)", t) or _re.search(r"\[-3\]|\[1\]$", t):
            leaves.add("H")
        if _re.search(r"\.(x|width)\b(?!\w)", t) or _re.search(r"\[-2\]|\[2\]$", t):
            leaves.add("W")
        if len(leaves) == 1:
            n += 1
            rep.check(leaves == {ax}, "C10-l", site, f"`{a.targets[0].id}` takes a value of the {ax} axis (`{t[:60]}`)",
                      f"`{a.targets[0].id} = {t[:70]}` reads the other axis: with dilation_h != dilation_w the dilated kernel height is wrong and the stripes at the bottom edge get the wrong pad_bottom")
    if n < 2:
        raise AnalysisError(f"generate_high_level_commands_for_sched_op: {n} axis-named bindings with an axis-typed value")


def rule_slice_chain(repo, rep):
    """(n) move_splitsliceread_to_consumer *overwrites* the consumer's read offset / read shape with the slice's. A consumer that is itself
    a slice read carries a window of its own (SLICE -> SPLIT): folding the first into the second loses the second window, both halves
    of the SPLIT then read the first half. Either the fold composes the windows (adds the offsets), or remove_SplitSliceRead does not
    fold into a SplitSliceRead consumer."""
    gu = repo.mod("graph_optimiser_util")
    mv = gu.func("move_splitsliceread_to_consumer")
    overwrites = [a for a in ast.walk(mv) if isinstance(a, ast.Assign) and "cons_op.read_offsets[" in str(norm(a.targets[0])) and str(norm(a.value)).startswith("op.read_offsets[")]
    go = repo.mod("tflite_graph_optimiser")
    f = go.func("remove_SplitSliceRead")
    site = "ethosu/vela/tflite_graph_optimiser.py:remove_SplitSliceRead"
    quant = [g for g in ast.walk(f) if isinstance(g, ast.GeneratorExp) and "op.ofm.consumer_list" in str(norm(g.generators[0].iter))]
    if not quant:
        raise AnalysisError("remove_SplitSliceRead: the quantifier over the consumers was not found")
    cj = [str(norm(c)) for c in conjuncts(quant[0].elt)]
    excluded = any(c in ("consumer.type != Op.SplitSliceRead", "Op.SplitSliceRead != consumer.type") or ("SplitSliceRead" in c and "not in" in c) for c in cj)
    rep.check(excluded or not overwrites, "C10-n", site, "a slice read is not folded into a consumer that is a slice read itself (its own read window would be overwritten)",
              "move_splitsliceread_to_consumer assigns the consumer's read offset / shape and nothing keeps SplitSliceRead consumers out: input -> SLICE(rows 3..29) -> SPLIT(2 along H) -> two pools: both pools read rows [3,16) of the input")


def rule_early_exit_guard(repo, rep):
    """(p) Scheduler.optimize_schedule returns the MAX schedule at once if it fits. apply_schedule never undoes the rolling-buffer storage
    shapes a tried cascade leaves behind, so every later path that may try the MIN schedule (weight-buffer optimisation on spilling
    configurations) must be unreachable after that return: the guard has the two reviewed conjuncts."""
    from ..exprnorm import conjuncts

    sch = repo.mod("scheduler")
    f = sch.func("Scheduler.optimize_schedule")
    site = "ethosu/vela/scheduler.py:Scheduler.optimize_schedule"
    if f is None:
        raise AnalysisError("scheduler.Scheduler.optimize_schedule not found")
    exits = [i for i in f.body if isinstance(i, ast.If) and any(isinstance(r, ast.Return) and r.value is not None and "max_sched" in str(norm(r.value)) for r in i.body)]
    if len(exits) != 1:
        raise AnalysisError(f"optimize_schedule: the early return of the MAX schedule was not found ({len(exits)})")
    cj = [str(norm(c)) for c in conjuncts(exits[0].test)]
    has_limit = any("fast_storage_peak_usage" in c and "sram_limit" in c for c in cj)
    has_spill = any("is_spilling_enabled" in c and c.strip().startswith("not ") for c in cj)
    rep.check(has_limit and has_spill, "C10-p", site, f"early return under `{norm(exits[0].test)}`",
              f"guard `{norm(exits[0].test)}`: conjuncts {cj}; without `not self.arch.is_spilling_enabled()` an Ethos-U65 compilation goes on to try the cascaded MIN schedule, restores the MAX schedule "
              "and writes whole feature maps through 2-10 row rolling buffers")


def rule_upscaling_extent(repo, rep):
    """(q) generate_high_level_commands_for_sched_op derives `upscaling` as OFM height / IFM height. An operator that reads through a fused
    slice (parent_op.read_shapes[0]) sees the window, not the tensor: SLICE(3 of 8 rows) -> TRANSPOSE_CONV stride 2 gives 6 // 8 = 0 and a
    division by zero in Box.transform_with_strides_and_skirt (a RuntimeWarning on numpy scalars; the IFM box collapses, IFM_WIDTH0_M1 =
    0xFFFF). Every division that defines `upscaling` has a divisor that (through local names) depends on the read shape."""
    hl = repo.mod("high_level_command_stream_generator")
    f = hl.func("generate_high_level_commands_for_sched_op")
    site = "ethosu/vela/high_level_command_stream_generator.py:generate_high_level_commands_for_sched_op"
    if f is None:
        raise AnalysisError("generate_high_level_commands_for_sched_op not found")
    loc = {}
    for a in ast.walk(f):
        if isinstance(a, ast.Assign) and len(a.targets) == 1 and isinstance(a.targets[0], ast.Name):
            loc.setdefault(a.targets[0].id, []).append(a.value)

    def depends_on_read(e, depth=0):
        if "read_shape" in str(norm(e)):
            return True
        if depth > 3:
            return False
        return any(isinstance(n_, ast.Name) and n_.id in loc and n_.id != "upscaling" and any(depends_on_read(v, depth + 1) for v in loc[n_.id]) for n_ in ast.walk(e))

    n = 0
    for v in loc.get("upscaling", []):
        div = None
        if isinstance(v, ast.BinOp) and isinstance(v.op, (ast.FloorDiv, ast.Div)):
            div = v.right
        elif isinstance(v, ast.Call) and (call_name(v) or "").split(".")[-1] in ("round_up_divide", "round_up_divide_int") and len(v.args) == 2:
            div = v.args[1]
        if div is None:
            continue
        n += 1
        rep.check(depends_on_read(div), "C10-q", site, f"`upscaling = {norm(v)}`: the divisor is the height of what the operator reads",
                  f"`upscaling = {norm(v)}` divides by the whole tensor's height: an operator that reads a 3-row window of an 8-row tensor gets factor 6 // 8 = 0 (division by zero in "
                  "transform_with_strides_and_skirt, IFM box of one column, IFM_BASE1 = 0)")
    if n < 2:
        raise AnalysisError(f"generate_high_level_commands_for_sched_op: {n} divisions defining `upscaling`")


def rule_box_wrap(repo, rep):
    """(r) Box.wrap keeps the coordinates of a broadcast operand inside the operand: a stripe of the OFM that starts at row y reads row
    y mod h of an IFM2 of height h. Interpreted on probes: every coordinate comes back as a % b where b is non-zero (in particular a == b
    wraps to 0: the stripe starting at row 1 of a height-1 operand reads row 0, not an empty box beyond the tensor), unchanged where b is 0."""
    from ..absint import AList, Interp

    hl = repo.mod("high_level_command_stream")
    site = "ethosu/vela/high_level_command_stream.py:Box.wrap"
    it = Interp(repo, hl, externs={"Shape4D": lambda i, a, k, n: a[0]})
    probes = [([0, 1, 0, 0], [1, 1, 8, 16]), ([0, 3, 2, 5], [1, 4, 8, 16]), ([0, 4, 0, 16], [1, 4, 8, 16]), ([0, 9, 9, 17], [1, 4, 8, 16]), ([0, 5, 3, 2], [1, 0, 8, 0]), ([0, 2, 8, 0], [1, 1, 1, 1])]
    n = 0
    for a, b in probes:
        ps = [p for p in it.run("Box.wrap", lambda a=a, b=b: ([AList(list(a)), AList(list(b))], {})) if p.kind == "return"]
        if len(ps) != 1:
            raise AnalysisError(f"Box.wrap: {len(ps)} returning paths for concrete arguments")
        v = ps[0].value
        got = list(v.items) if isinstance(v, AList) else (list(v) if isinstance(v, (list, tuple)) else None)
        want = [x % y if y != 0 else x for x, y in zip(a, b)]
        n += 1
        rep.check(got == want, "C10-r", site, f"wrap({a}, {b}) = {want}", f"got {got}: a coordinate equal to the extent of a broadcast dimension is not wrapped - the stripe that starts there reads an empty box beyond the operand")
    if n < 6:
        raise AnalysisError("Box.wrap: probes not evaluated")
    # axis roles of the padding helpers of the graph optimiser (transpose convolution / SAME / explicit padding feed the stripe boxes)
    from ..roles import RoleChecker

    rc = RoleChecker()
    go = repo.mod("tflite_graph_optimiser")
    m = 0
    for fname in ("calc_padding_and_skirt", "calc_upscaled_padding_and_skirt"):
        fn = go.func(fname)
        for kind, txt, detail in rc.check_function(fn):
            m += 1
            (rep.bad if kind == "bad" else rep.ok)("C10-r", f"ethosu/vela/tflite_graph_optimiser.py:{fname}", txt[:110], detail)
    if m < 4:
        raise AnalysisError(f"padding helpers: only {m} axis-typed bindings")


def rule_wh_getters(repo, rep):
    """(s) Operation.get_kernel_size / get_kernel_stride / get_kernel_dilation return (width, height). Every two-way unpacking of such a call
    binds a width-named variable first and a height-named one second (the stripe generator derives the dilated kernel height, and from it
    the bottom padding of every stripe, from these)."""
    from .c16 import _hw_axis

    n = 0
    for m in repo.core_modules():
        for q, fn in m.functions.items():
            for st in ast.walk(fn):
                if not (isinstance(st, ast.Assign) and isinstance(st.targets[0], ast.Tuple) and len(st.targets[0].elts) == 2 and isinstance(st.value, ast.Call) and isinstance(st.value.func, ast.Attribute)
                        and st.value.func.attr in ("get_kernel_size", "get_kernel_stride", "get_kernel_dilation")):
                    continue
                a, b = st.targets[0].elts
                ax_a = _hw_axis(a.id) if isinstance(a, ast.Name) else None
                ax_b = _hw_axis(b.id) if isinstance(b, ast.Name) else None
                if ax_a is None and ax_b is None:
                    continue
                n += 1
                rep.check(ax_a != "H" and ax_b != "W", "C10-s", f"{m.rel}:{q}", f"`{str(norm(st))[:80]}` unpacks (width, height)",
                          f"`{str(norm(st.targets[0]))}` takes the width for the height: for a non-square kernel the dilated kernel height, and the bottom padding of the stripes derived from it, are wrong")
    if n < 6:
        raise AnalysisError(f"(w, h) getter unpackings: {n} found")

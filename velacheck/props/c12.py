"""C12 The offline arena plan is self-consistent and reported memory is sufficient (structural clauses)."""
import ast
import re

from ..astutil import calls_in, call_name, get_kwarg, norm, try_fold, walk_no_nested
from ..callgraph import CallGraph, bind_args
from ..cfg import cfg_of
from ..core import AnalysisError
from .c02 import rule_extents

TW = "ethosu/vela/tflite_writer.py"
TA = "ethosu/vela/tensor_allocation.py"
LR = "ethosu/vela/live_range.py"


def run(repo, rep):
    rep.clause("C12-a", "reported sizes and published arena tensor sizes have one source (the allocator total of the root subgraph)")
    rep.clause("C12-b", "--cpu-tensor-alignment reaches every arena allocation, the live-range alignment and the alignment verifier")
    rep.clause("C12-c", "OfflineMemoryAllocation = [version, n_subgraphs, n_tensors] + per-subgraph offsets indexed like the tensor table; -1 default; only arena tensors get offsets")
    rep.clause("C12-d", "in-place reuse of an input's buffer is allowed only for a tensor with exactly one consumer entry (a subgraph-output marker counts)")
    rep.clause("C12-e", "variable tensors stay live from time 0 to the end of the inference; subgraph outputs are never moved to fast storage (the None consumer marker is looked for in the whole consumer list)")
    rep.clause("C12-f", "the ethos-u custom operator gets its fixed operands in the driver's positional order: command stream, flash (weights), scratch (arena), fast scratch, then the IFMs")
    rep.undecided("that arena tensors do not overlap while live under the output operator order; that the scratch tensor spans every touched byte (concrete addresses)")
    from .shared import duplicate_branch_lint

    duplicate_branch_lint(repo, rep, "C12-a", ['tensor_allocation', 'live_range', 'npu_serialisation', 'tflite_writer', 'stats_writer'])
    from .shared import mirror_families

    mirror_families(repo, rep, "C12-b", {('scheduler', '', 'options'): 'allocator options handed to allocate_tensors'})
    rule_extents(repo, rep, "C12-a")
    from . import c05

    rep.run_borrowed(c05, {"C05-c": "C12-a"}, repo)
    # write protection of multi-consumer inputs (decides whether an OFM may take its IFM's address) [shared with C03-f];
    # element sizes: DataType.<kind><bits> has that many bits (tensor storage sizes are elements * bits / 8) [shared with C11-b]
    from . import c03, c11

    rep.run_borrowed(c03, {"C03-f": "C12-d"}, repo, only_sites=("extract_npu_subgraphs", "live_range"))
    rep.clause("C12-j", "the live range of a weight buffer / rolling buffer is as large as what the command stream moves into it: buffer k holds the largest slice of its parity, rolling buffers are sized in whole 16-channel bricks [rules shared with C03-c, C03-e]")
    rep.run_borrowed(c03, {"C03-c": "C12-j", "C03-e": "C12-j"}, repo)
    from . import c02 as _c02

    rep.run_borrowed(_c02, {"C02-f": "C12-j"}, repo, only_sites=("propose_weight_buffering", "encode_weight_and_scale_tensor"))
    rep.clause("C12-p", "storage sized from the tensor shape is what every operator writes: the brick format is refused when an operator's view differs from the tensor shape or a DMA copy touches the tensor [rule shared with C02-w]")
    rep.run_borrowed(_c02, {"C02-w": "C12-p"}, repo)
    rep.clause("C12-q", "what an NPU TRANSPOSE writes stays inside its OFM: the strides whose H and W components are exchanged are computed from the OFM's real shape (operator shape with width and height exchanged)")
    rule_transpose_ofm_strides(repo, rep)
    rep.clause("C12-r", "the console's total-memory line prints the allocator total in KiB, nothing coarser (expression and unit of the one 'Total .. used' line)")
    rule_console_total_resolution(repo, rep)
    from . import c08 as _c08

    # the slice size recorded for the double buffers covers all cores (borrowed from the original lender: nested borrows are not replayed)
    rep.run_borrowed(_c08, {"C08-e": "C12-j"}, repo, only_sites=("encode_weight_and_scale_tensor",))
    rep.clause("C12-o", "a usage of length 0 is one time step: LiveRange.mark_usage treats only end < start as empty (a weight buffer marked for its one step stays live) [rule shared with C05-b]; the operators are written in the order the plan was made for: the writer walks the passes")
    rep.run_borrowed(c05, {"C05-b": "C12-o"}, repo, only_sites=("mark_usage",))
    rule_writer_order(repo, rep)
    rep.clause("C12-k", "all operators of a cascade are live in one time slot (they run interleaved stripe by stripe): the slot recorded for the cascade is the slot the current operator's tensors were marked with")
    rule_cascade_slot(repo, rep)
    rep.clause("C12-l", "emptiness of consumer lists is tested with len(): the None marker of a subgraph output counts as a consumer (a graph input that is only returned keeps its start-up placeholder and its live range)")
    from .shared import consumer_truth_lint, pass_packing_automaton

    if consumer_truth_lint(repo, rep, "C12-l") < 3:
        raise AnalysisError("fewer than 3 len() tests of consumer lists found")
    rep.clause("C12-m", "pass packing: a CPU pass holds one main operator (tensors between operators of one pass are never allocated) [automaton shared with C03-k]")
    pass_packing_automaton(repo, rep, "C12-m")
    rep.clause("C12-n", "tensors between the operators of a multi-operator CPU pass get a live range (intermediates of its cascaded pass)")
    rule_cpu_pass_intermediates(repo, rep)
    rep.run_borrowed(c11, {"C11-b": "C12-a"}, repo, only_sites=("data_type",))
    rule_round5(repo, rep)
    rule_subgraph_refs(repo, rep)
    rule_address_map_alive_until_written(repo, rep)
    rule_cpu_pass_tensors(repo, rep)
    sw = repo.mod("stats_writer")
    got_get = any(isinstance(n_, ast.Call) and norm(n_.func) == "nng.memory_used.get" for n_ in ast.walk(sw.tree))
    got_arg = any(isinstance(n_, ast.Call) and any(norm(a_) == "nng.memory_used" for a_ in list(n_.args) + [k_.value for k_ in n_.keywords]) for n_ in ast.walk(sw.tree))
    rep.check(got_get and got_arg, "C12-a", "ethosu/vela/stats_writer.py", "summary CSV and console print nng.memory_used", "")
    rule_alignment(repo, rep)
    rule_metadata(repo, rep)
    rule_fuse(repo, rep)


def rule_alignment(repo, rep):
    vela = repo.mod("vela")
    m = vela.func("main")
    site = "ethosu/vela/vela.py:main"
    co = [c for c in ast.walk(m) if isinstance(c, ast.Call) and (call_name(c) or "").endswith("CompilerOptions")]
    ok = len(co) == 1 and get_kwarg(co[0], "cpu_tensor_alignment") is not None and norm(get_kwarg(co[0], "cpu_tensor_alignment")) == "args.cpu_tensor_alignment"
    rep.check(ok, "C12-b", site, "CompilerOptions(cpu_tensor_alignment=args.cpu_tensor_alignment)", "")
    g = [n for n in ast.walk(m) if isinstance(n, ast.If) and "args.cpu_tensor_alignment < 16" in norm(n.test) and "args.cpu_tensor_alignment & args.cpu_tensor_alignment - 1 != 0" in norm(n.test)]
    rep.check(len(g) == 1 and any("parser.error" in norm(s) for s in g[0].body), "C12-b", site, "values < 16 or not a power of two are rejected before use", "")
    cd = repo.mod("compiler_driver")
    init = cd.func("CompilerOptions.__init__")
    rep.check(any(norm(s) == "self.cpu_tensor_alignment = cpu_tensor_alignment" for s in init.body), "C12-b", "ethosu/vela/compiler_driver.py:CompilerOptions.__init__", "option stored", "")
    # every allocate_tensors call site passes the option (or allocates read-only constants)
    n = 0
    for mod in ("scheduler", "compiler_driver"):
        mm = repo.mod(mod)
        for c in ast.walk(mm.tree):
            if isinstance(c, ast.Call) and (call_name(c) or "").endswith("allocate_tensors"):
                fn = mm.enclosing_function(c)
                q = mm.qualname_of(fn)
                kw = get_kwarg(c, "cpu_tensor_alignment")
                n += 1
                mts = norm(c.args[4]) if len(c.args) > 4 else ""
                if kw is None:
                    ro = "Permanent_NPU" in mts and "Scratch" not in mts
                    dry = get_kwarg(c, "dry_test") is not None
                    rep.check(ro or dry, "C12-b", f"ethosu/vela/{mod}.py:{q}", f"allocate_tensors({mts[:50]}) without an alignment allocates NPU-only constants or is a dry run",
                              "an arena allocation ignores --cpu-tensor-alignment")
                else:
                    rep.check(norm(kw) == "options.cpu_tensor_alignment", "C12-b", f"ethosu/vela/{mod}.py:{q}", f"allocate_tensors(..., cpu_tensor_alignment={norm(kw)})", "")
    ta = repo.mod("tensor_allocation")
    at = ta.func("allocate_tensors")
    c = calls_in(at, "allocate")
    rep.check(len(c) == 1 and norm(get_kwarg(c[0], "cpu_tensor_alignment")) == "cpu_tensor_alignment", "C12-b", f"{TA}:allocate_tensors", "allocate(..., cpu_tensor_alignment=cpu_tensor_alignment)", "")
    al = ta.func("allocate")
    c = calls_in(al, "extract_live_ranges_from_cascaded_passes")
    rep.check(len(c) == 1 and norm(get_kwarg(c[0], "cpu_tensor_alignment")) == "cpu_tensor_alignment", "C12-b", f"{TA}:allocate", "live ranges are extracted with the requested alignment", "")
    for callee, pos in (("greedy_allocate_live_ranges", 1), ("linear_allocate_live_ranges", 1), ("hillclimb_allocate_live_ranges", 1), ("verify_allocation", 1)):
        cs = calls_in(al, callee)
        rep.check(len(cs) == 1 and norm(cs[0].args[pos]) == "cpu_tensor_alignment", "C12-b", f"{TA}:allocate", f"{callee}(lrs, cpu_tensor_alignment, ...)", "")
    lr = repo.mod("live_range")
    ex = lr.func("extract_live_ranges_from_cascaded_passes")
    gs = [c for c in calls_in(ex, "lr_graph.get_or_create_range")]
    rep.check(len(gs) >= 3 and all(len(c.args) == 2 and norm(c.args[1]) == "cpu_tensor_alignment" for c in gs), "C12-b", f"{LR}:extract_live_ranges_from_cascaded_passes",
              "every CPU-visible range is created with the requested alignment", f"{[norm(c) for c in gs]}")
    rec = [c for c in calls_in(ex, "extract_live_ranges_from_cascaded_passes")]
    rep.check(all(norm(c.args[-1]) == "cpu_tensor_alignment" or norm(get_kwarg(c, "cpu_tensor_alignment") or ast.Constant(None)) == "cpu_tensor_alignment" for c in rec) and rec, "C12-b",
              f"{LR}:extract_live_ranges_from_cascaded_passes", "the recursion into sub-graphs keeps the alignment", "")
    # the verifier checks CPU-visible tensors against the requested alignment
    va = ta.func("verify_alignment")
    t = [n for n in ast.walk(va) if isinstance(n, ast.If) and any(isinstance(s, ast.Raise) for s in n.body)]
    ok = len(t) == 1 and norm(t[0].test) == "tens.address % alignment != 0" and call_name([s for s in t[0].body if isinstance(s, ast.Raise)][0].exc) == "AllocationError"
    rep.check(ok, "C12-b", f"{TA}:verify_alignment", "a CPU-visible tensor whose address is not a multiple of the requested alignment raises AllocationError", norm(t[0].test) if t else "")
    cpu = [n for n in ast.walk(va) if isinstance(n, ast.If) and "run_on_npu" in norm(n.test)]
    rep.check(len(cpu) == 1 and norm(cpu[0].test) == "not all((op and op.run_on_npu for op in tens.ops + tens.consumer_list))", "C12-b", f"{TA}:verify_alignment",
              "CPU-visible = some producer or consumer is not an NPU operation (or is the subgraph boundary)", norm(cpu[0].test) if cpu else "")
    vv = ta.func("verify_allocation")
    rep.check(norm(vv.body[0]) == "verify_alignment(live_ranges, alignment)", "C12-b", f"{TA}:verify_allocation", "verify_allocation starts with verify_alignment(live_ranges, alignment)", "")
    la = ta.func("linear_allocate_live_ranges")
    rep.check(len(calls_in(la, "verify_alignment")) == 1, "C12-b", f"{TA}:linear_allocate_live_ranges", "linear allocation verifies alignment", "")
    rep.floor("C12-b", 16)


def rule_metadata(repo, rep):
    tw = repo.mod("tflite_writer")
    f = tw.func("TFLiteSerialiser.serialise_model")
    site = f"{TW}:TFLiteSerialiser.serialise_model"
    oa = [s for s in walk_no_nested(f) if isinstance(s, ast.Assign) and norm(s.targets[0]) == "offlineAlloc"]
    rep.check(len(oa) == 1 and norm(oa[0].value) == "[version, subgraph_idx, nbr_tensors_all]", "C12-c", site, "header = [version, subgraph count, tensor count]", norm(oa[0].value) if oa else "")
    # the record describes *this* output model: it is always rebuilt; a record carried over from the input file (every file written
    # by Vela itself has one) is never passed through
    apps = [c_ for c_ in ast.walk(f) if isinstance(c_, ast.Call) and isinstance(c_.func, ast.Attribute) and c_.func.attr == "append" and "OfflineMemoryAllocation" in str(norm(c_)) and "metadata" in str(norm(c_.func.value))]
    if len(apps) != 1:
        raise AnalysisError("serialise_model: the statement that adds the OfflineMemoryAllocation record was not found")
    cond = []
    cur = apps[0]
    while cur is not None and cur is not f:
        par = tw.parents.get(cur)
        if isinstance(par, ast.If) and "OfflineMemoryAllocation" in str(norm(par.test)):
            cond.append(str(norm(par.test))[:90])
        cur = par
    rep.check(not cond, "C12-c", site, "the OfflineMemoryAllocation record is built and added for every output model",
              f"added only under `{cond[0] if cond else ''}`: for an input that already carries such a record (a recompiled model, any file written by Vela's writer) the old record "
              "- wrong tensor count, old offsets - is written and the new allocation is dropped")
    defs = {norm(s.targets[0]): norm(s.value) for s in walk_no_nested(f) if isinstance(s, ast.Assign)}
    rep.check(defs.get("subgraph_idx") == "np.int32(len(self.subgraphs_to_write))", "C12-c", site, "subgraph count = number of written subgraphs", defs.get("subgraph_idx", ""))
    rep.check("len(tensor_map_sg) for tensor_map_sg in self.tensor_map_all" in defs.get("nbr_tensors_all", ""), "C12-c", site, "tensor count sums the per-subgraph tensor tables", defs.get("nbr_tensors_all", ""))
    loops = [l for l in ast.walk(f) if isinstance(l, ast.For) and norm(l.iter) == "self.tensor_map_all"]
    ok = len(loops) == 1
    if ok:
        L = loops[0]
        d = {norm(s.targets[0]): norm(s.value) for s in L.body if isinstance(s, ast.Assign)}
        rep.check(d.get("offsets") == "[np.int32(-1)] * nbr_tensors_sg" and d.get("nbr_tensors_sg") == "np.int32(len(tensor_map_sg))", "C12-c", site,
                  "one offset per tensor of the subgraph, default -1 (allocated online)", str(d))
        inner = [l for l in L.body if isinstance(l, ast.For)]
        ok2 = len(inner) == 1 and norm(inner[0].iter) == "tensor_map_sg.items()" and norm(inner[0].target) == "(tens, idx)"
        rep.check(ok2, "C12-c", site, "offsets are indexed by the tensor's index in the same map used for the tensor table", "")
        if ok2:
            g = [n for n in inner[0].body if isinstance(n, ast.If)]
            okg = len(g) == 1 and norm(g[0].test) == "tens.mem_type in (MemType.Scratch, MemType.Scratch_fast)"
            rep.check(okg, "C12-c", site, "only tensors in the arena (Scratch / Scratch_fast) get an offset", norm(g[0].test) if g else "")
            st = [s for s in ast.walk(inner[0]) if isinstance(s, ast.Assign) and norm(s.targets[0]) == "offsets[idx]"]
            rep.check(len(st) == 1 and "np.int32(tens.address)" in norm(st[0].value), "C12-c", site, "the offset is the tensor's allocated address", norm(st[0].value) if st else "")
        ext = [s for s in L.body if isinstance(s, ast.AugAssign) and norm(s) == "offlineAlloc += offsets"]
        rep.check(len(ext) == 1, "C12-c", site, "each subgraph's offsets are appended in subgraph order", "")
    else:
        rep.bad("C12-c", site, "per-subgraph offset loop", "not found")
    ss = tw.func("TFLiteSerialiser.serialise_subgraph")
    a = [s for s in walk_no_nested(ss) if isinstance(s, ast.Assign) and norm(s.targets[0]) == "self.tensor_map_sg"]
    rep.check(len(a) == 1 and norm(a[0].value) == "{tens: idx for (idx, tens) in enumerate(all_tensors)}".replace("(idx, tens)", "idx, tens") or (a and "enumerate(all_tensors)" in norm(a[0].value)), "C12-c",
              f"{TW}:TFLiteSerialiser.serialise_subgraph", "tensor_map_sg maps each written tensor to its index in all_tensors", norm(a[0].value) if a else "")
    rep.check(any(norm(c) == "self.tensor_map_all.append(self.tensor_map_sg)" for c in calls_in(ss, "self.tensor_map_all.append")), "C12-c", f"{TW}:TFLiteSerialiser.serialise_subgraph",
              "the per-subgraph map is recorded in serialisation order", "")
    tv = [c for c in calls_in(ss, "self.write_offset_vector") if "self.serialise_tensor(tens) for tens in all_tensors" in norm(c)]
    rep.check(len(tv) == 1, "C12-c", f"{TW}:TFLiteSerialiser.serialise_subgraph", "the tensor table is written in all_tensors order (same order as the offsets)", "")
    rep.floor("C12-c", 10)


def rule_fuse(repo, rep):
    lr = repo.mod("live_range")
    f = lr.func("_get_ifm_to_fuse")
    tests = [n for n in ast.walk(f) if isinstance(n, ast.If) and any(isinstance(s, ast.Assign) and norm(s.targets[0]) == "ifm_tens" for s in n.body)]
    elem = [t for t in tests if "inp.op_shape == outp.op_shape" in norm(t.test)]
    ok = len(elem) == 1
    if ok:
        cj = [norm(v) for v in elem[0].test.values] if isinstance(elem[0].test, ast.BoolOp) else []
        need = ["len(inp.tens.consumer_list) == 1", "len(outp.tens.ops) == 1", "not inp.tens.ifm_write_protected", "inp.tens.dtype == outp.tens.dtype", "inp.tens.format == outp.tens.format",
                "not inp.tens.is_variable"]
        missing = [x for x in need if x not in cj]
        rep.check(not missing and isinstance(elem[0].test.op, ast.And), "C12-d", f"{LR}:_get_ifm_to_fuse",
                  "elementwise in-place reuse requires: one consumer entry (subgraph-output markers count), one producer, not write protected, not a variable tensor, same dtype and format",
                  f"missing conjuncts {missing}: a tensor that is still needed elsewhere (a subgraph output; a variable tensor, which keeps its value between inferences: the state is destroyed by the first inference) can be overwritten in place")
    else:
        rep.bad("C12-d", f"{LR}:_get_ifm_to_fuse", "elementwise fuse condition", "not recognised")
    dma = [n for n in ast.walk(f) if isinstance(n, ast.If) and "len(ifm.consumer_list) > 1" in norm(n.test)]
    rep.check(len(dma) == 1, "C12-d", f"{LR}:_get_ifm_to_fuse", "memcpy reuse is refused when the input has more than one consumer entry", "")
    rep.check(len(dma) == 1 and "ifm.is_variable" in norm(dma[0].test), "C12-d", f"{LR}:_get_ifm_to_fuse", "memcpy reuse is refused for a variable tensor", "the copy of a variable tensor may be elided into the state, which an in-place operator on the copy then overwrites")
    rep.floor("C12-d", 2)

    # ---------------------------------------------------------------- e
    from ..exprnorm import linear, sub

    lrm = repo.mod("live_range")
    cp = lrm.func("extract_live_ranges_from_cascaded_passes")
    site = "ethosu/vela/live_range.py:extract_live_ranges_from_cascaded_passes"
    var = [n_ for n_ in ast.walk(cp) if isinstance(n_, ast.If) and norm(n_.test) == "tens.is_variable"]
    if len(var) != 1:
        raise AnalysisError("variable-tensor handling not found in extract_live_ranges_from_cascaded_passes")
    mu = [c for c in calls_in(var[0], ".mark_usage")]
    outs = [l for l in cp.body if isinstance(l, ast.For) and norm(l.iter) == "sg.output_tensors"]
    tmark = norm(calls_in(outs[0], ".mark_usage")[0].args[0]) if outs and calls_in(outs[0], ".mark_usage") else None
    ok = len(mu) == 1 and tmark is not None and len(mu[0].args) == 2 and try_fold(mu[0].args[0]) == 0
    if ok:
        d = sub(linear(mu[0].args[1]), linear(ast.parse(tmark, mode="eval").body))
        ok = set(d) <= {""} and d.get("", 0) >= 1
    rep.check(ok, "C12-e", site, f"variable tensors are marked live over [0, {tmark} + 1) (up to the time the subgraph outputs are marked)",
              f"`{norm(mu[0]) if mu else ''}`: the range ends at its last reader and the state tensor's bytes are handed to later tensors")
    mk = lrm.func("LiveRange.mark_usage")
    d = {norm(s_.targets[0]): norm(s_.value) for s_ in ast.walk(mk) if isinstance(s_, ast.Assign)}
    rep.check(d.get("op_time_end") == "op_time + op_length" and d.get("self.end_time") == "max(self.end_time, op_time_end)" and d.get("self.start_time") == "min(self.start_time, op_time_start)", "C12-e",
              "ethosu/vela/live_range.py:LiveRange.mark_usage", "mark_usage(t, n) extends the range to cover [t, t + n]", str(d))
    sc = repo.mod("scheduler").func("Scheduler.use_fast_storage_for_feature_maps")
    site = "ethosu/vela/scheduler.py:Scheduler.use_fast_storage_for_feature_maps"
    mv = [n_ for n_ in ast.walk(sc) if isinstance(n_, ast.If) and any(isinstance(x, ast.Assign) and norm(x.targets[0]) == "ofm_tens.mem_type" for x in n_.body)]
    if len(mv) != 1:
        raise AnalysisError("use_fast_storage_for_feature_maps: the guard of the move to fast storage was not found")
    from ..exprnorm import conjuncts

    cj = {norm(x) for x in conjuncts(mv[0].test)}
    whole = {"not any((cons is None for cons in ofm_tens.consumer_list))", "not any(cons is None for cons in ofm_tens.consumer_list)", "None not in ofm_tens.consumer_list",
             "all((cons is not None for cons in ofm_tens.consumer_list))", "all(cons is not None for cons in ofm_tens.consumer_list)"}
    rep.check(bool(cj & whole), "C12-e", site, "a feature map is moved to fast storage only if no entry of its consumer list is the subgraph-output marker None",
              f"guard is `{norm(mv[0].test)}`: the marker is looked for at one position only, so an output that also feeds a later op is retyped and its CPU-side twin loses its address")
    rep.floor("C12-e", 3)

    # ---------------------------------------------------------------- f
    ns = repo.mod("npu_serialisation")
    rw = ns.func("rewrite_npu_call_ops")
    site = "ethosu/vela/npu_serialisation.py:rewrite_npu_call_ops"
    lp = [l for l in ast.walk(rw) if isinstance(l, ast.For) and isinstance(l.iter, ast.List) and any("command_stream_tensor" in norm(e) for e in l.iter.elts)]
    if len(lp) != 1:
        raise AnalysisError("rewrite_npu_call_ops: operand insertion loop not found")
    ins = [c for c in calls_in(lp[0], "op.inputs.insert")]
    front = len(ins) == 1 and try_fold(ins[0].args[0]) == 0 and norm(ins[0].args[1]) == norm(lp[0].target)
    order = [norm(e).split(".")[-1] for e in lp[0].iter.elts][::-1] if front else []
    abi = ["command_stream_tensor", "flash_tensor", "scratch_tensor", "scratch_fast_tensor"]
    rep.check(order == abi, "C12-f", site, "operands are pushed to the front in reverse, giving [command stream, flash, scratch, scratch_fast, ...]",
              f"resulting operand order {order}: the driver binds operand 2 as the arena base and operand 3 as fast scratch by position")
    rep.floor("C12-f", 1)


def rule_round5(repo, rep):
    """(e) a pass's operands and results are marked live at the same time step (a CPU operator's result may not take the place of an
    operand that operator still reads); (a) the summary converts bytes to KiB by true division."""
    lr = repo.mod("live_range")
    f = lr.func("extract_live_ranges_from_cascaded_passes")
    loops = [l for l in ast.walk(f) if isinstance(l, ast.For) and "cascaded_passes" in str(norm(l.iter))]
    if len(loops) != 1:
        raise AnalysisError("extract_live_ranges_from_cascaded_passes: loop over the cascaded passes not found")
    marks = [c for c in ast.walk(loops[0]) if isinstance(c, ast.Call) and isinstance(c.func, ast.Attribute) and c.func.attr == "mark_usage" and str(norm(c.func.value)) == "rng"]
    if len(marks) < 2:
        raise AnalysisError("extract_live_ranges_from_cascaded_passes: mark_usage calls not found")
    args = {str(norm(c.args[0])) for c in marks if c.args}
    rep.check(args == {"time_for_pass"}, "C12-e", "ethosu/vela/live_range.py:extract_live_ranges_from_cascaded_passes", "inputs, intermediates and outputs of a pass are all marked at the pass's own time (time_for_pass)",
              f"marked at {sorted(args)}: the results of a CPU operator become live only after the clock has advanced, so the allocators may place a result over an operand that the operator is still reading")
    sw = repo.mod("stats_writer")
    n = 0
    for q, fn in sw.functions.items():
        for b in ast.walk(fn):
            if isinstance(b, ast.BinOp) and isinstance(b.op, (ast.Div, ast.FloorDiv)) and "memory_used" in str(norm(b.left)) and str(norm(b.right)) in ("1024", "1024.0"):
                n += 1
                rep.check(isinstance(b.op, ast.Div), "C12-a", f"ethosu/vela/stats_writer.py:{q}", f"`{str(norm(b))[:70]}` converts bytes to KiB without truncation",
                          "floor division: the reported figure is up to 1023 bytes below the plan's extent (small networks report 0 KiB)")
    if n < 1:
        raise AnalysisError("stats_writer: KiB conversions of memory_used not found")


def rule_subgraph_refs(repo, rep):
    """(g) tensors of a subgraph get arena offsets only if the subgraph is reached from its calling operator: the reader attaches the
    nng subgraphs (attrs['subgraph']) for every option member that is a subgraph index."""
    rep.clause("C12-g", "every operator option that names another subgraph (<x>_subgraph_index) is resolved by the reader into attrs['subgraph'], so that live-range extraction visits the callee's tensors")
    tm = repo.mod("tflite_mapping")
    members = set()
    for c in ast.walk(tm.tree):
        if isinstance(c, ast.Call) and call_name(c) == "OptionsSerializer" and len(c.args) > 1 and isinstance(c.args[1], (ast.Tuple, ast.List)):
            for e in c.args[1].elts:
                if isinstance(e, ast.Constant) and isinstance(e.value, str) and e.value.endswith("_subgraph_index"):
                    members.add(e.value)
    if len(members) < 3:
        raise AnalysisError("option members naming subgraphs not found")
    po = repo.mod("tflite_reader").func("TFLiteSubgraph.parse_operator")
    resolved = {x.slice.value for x in ast.walk(po) if isinstance(x, ast.Subscript) and str(norm(x.value)).endswith(".attrs") and isinstance(x.value, ast.Attribute) and isinstance(x.value.value, ast.Name)
                and isinstance(x.slice, ast.Constant) and isinstance(x.slice.value, str) and x.slice.value.endswith("_subgraph_index")}
    # ... and the callee's tensors are marked live at *every* call site: a visit of a subgraph that was visited before (two WHILE operators
    # sharing cond / body) may not return before the ranges have been extended to the current time
    lr = repo.mod("live_range")
    ex = lr.func("extract_live_ranges_from_cascaded_passes")
    early = []
    for i_ in ast.walk(ex):
        if isinstance(i_, ast.If) and "processed_subgraphs" in str(norm(i_.test)):
            body_src = ast.Module(body=i_.body, type_ignores=[])
            returns = any(isinstance(x, ast.Return) for x in ast.walk(body_src))
            marks = any(isinstance(x, ast.Call) and isinstance(x.func, ast.Attribute) and x.func.attr == "mark_usage" for x in ast.walk(body_src))
            if returns and not marks:
                early.append(i_)
    nmarks = sum(1 for x in ast.walk(ex) if isinstance(x, ast.Call) and isinstance(x.func, ast.Attribute) and x.func.attr == "mark_usage")
    if nmarks < 3:
        raise AnalysisError("extract_live_ranges_from_cascaded_passes: mark_usage calls not found")
    rep.check(not early, "C12-g", "ethosu/vela/live_range.py:extract_live_ranges_from_cascaded_passes", "a subgraph that is entered again marks its tensors live at the new call site",
              "`if sg in lr_graph.processed_subgraphs: return lr_graph`: the tensors of a subgraph shared by two control-flow operators are live only around the first one (demonstrated: two WHILE operators "
              "sharing cond / body: main-graph tensor 'neg5' at [528, 1040) is live across the second WHILE whose body tensor 'neg3' is at [528, 1040))")
    for mname in sorted(members):
        rep.check(mname in resolved, "C12-g", "ethosu/vela/tflite_reader.py:TFLiteSubgraph.parse_operator", f"option `{mname}` is resolved into the operator's attrs['subgraph']",
                  f"`{mname}` is read from the file but never resolved: the subgraph it names is not visited by live-range extraction, its tensors keep address None and are written with offset 0 "
                  "(all tensors of both IF branches overlap at [0, size)), or the compiler stops with a TypeError")


def rule_address_map_alive_until_written(repo, rep):
    """(h) Tensor.address is looked up in the process-wide TensorAddressMap on every read; the writer reads it while it builds the
    OfflineMemoryAllocation record. In every entry point the map is emptied before the compilation starts and after the output has been
    written - never between compiler_driver() and the writer (a `finally` of a try around the compilation runs exactly there)."""
    rep.clause("C12-h", "in every entry point TensorAddressMap.clear_address_map() runs before the compilation or after the writer, never between the two (the writer reads every tensor's address from that map)")
    vm = repo.mod("vela")
    n = 0
    for q, fn in vm.functions.items():
        comp = [c for c in ast.walk(fn) if isinstance(c, ast.Call) and str(norm(c.func)) == "compiler_driver.compiler_driver"]
        wr = [c for c in ast.walk(fn) if isinstance(c, ast.Call) and str(norm(c.func)) in ("tflite_writer.write_tflite", "tflite_writer.write_tflite_buffer", "rawdata_writer.write_rawdata_output")]
        cl = [c for c in ast.walk(fn) if isinstance(c, ast.Call) and str(norm(c.func)).endswith("clear_address_map")]
        if not comp or not wr:
            continue
        n += 1

        def rank(node):
            """position in execution order: a statement of a `finally` block runs when its try statement ends"""
            cur, r = node, node.lineno
            while cur is not fn and cur is not None:
                pp = vm.parents.get(cur)
                if isinstance(pp, ast.Try) and any(cur is x or any(cur is y for y in ast.walk(x)) for x in pp.finalbody):
                    r = max(r, getattr(pp, "end_lineno", r))
                cur = pp
            return r

        c0 = min(c.lineno for c in comp)
        w1 = max(rank(w) for w in wr)
        between = [c for c in cl if c0 <= rank(c) < w1 and not (c.lineno < c0 and rank(c) == c.lineno)]
        rep.check(not between, "C12-h", f"ethosu/vela/vela.py:{q}", f"no clear_address_map() between compiler_driver() (line {c0}) and the last writer call ({len(cl)} clears, {len(wr)} writers)",
                  "the address map is emptied after the compilation and before the output is written (e.g. in a `finally` of a try around the compilation): every tensor's address reads None and the writer emits "
                  "offset 0 for all arena tensors (all of them overlap at [0, size))")
    if n < 3:
        raise AnalysisError(f"entry points that compile and write: {n} found")
    rep.floor("C12-h", 3)


def rule_cpu_pass_tensors(repo, rep):
    """(i) live ranges of the tensors of CPU operators come from the CascadedPass that schedule_passes builds per CPU pass: it is handed the
    pass's own input and output lists unfiltered (a result that nobody reads is still written by its kernel and needs arena space)."""
    rep.clause("C12-i", "the CascadedPass of a CPU pass carries all inputs and all outputs of the pass (every tensor a CPU kernel writes gets a live range, consumed or not)")
    sch = repo.mod("scheduler")
    sp = sch.func("schedule_passes")
    calls = [c for c in ast.walk(sp) if isinstance(c, ast.Call) and call_name(c) == "CascadedPass"]
    if len(calls) != 1 or len(calls[0].args) < 5:
        raise AnalysisError("schedule_passes: CascadedPass(...) for CPU passes not found")
    cls_init = repo.mod("nn_graph").func("CascadedPass.__init__")
    params = [a.arg for a in cls_init.args.args[1:]]
    got = dict(zip(params, calls[0].args))
    for role in ("inputs", "outputs"):
        if role not in got:
            raise AnalysisError(f"CascadedPass.__init__ has no parameter `{role}`")
        rep.check(str(norm(got[role])) == f"ps.{role}", "C12-i", "ethosu/vela/scheduler.py:schedule_passes", f"CascadedPass({role}=ps.{role}) for CPU passes",
                  f"`{str(norm(got[role]))[:70]}`: tensors left out get no live range, keep address None and are written with arena offset 0, where the kernel's write overlaps whatever was allocated there "
                  "(demonstrated: TOPK_V2 whose indices output is unused)")
    rep.floor("C12-i", 2)


def rule_cascade_slot(repo, rep):
    lr = repo.mod("live_range")
    f = lr.func("extract_live_ranges_from_schedule")
    site = "ethosu/vela/live_range.py:extract_live_ranges_from_schedule"
    stores = [a for a in ast.walk(f) if isinstance(a, ast.Assign) and len(a.targets) == 1 and isinstance(a.targets[0], ast.Subscript) and str(norm(a.targets[0].value)) == "time_for_cascade"]
    marks = [c for c in ast.walk(f) if isinstance(c, ast.Call) and isinstance(c.func, ast.Attribute) and c.func.attr == "mark_usage" and c.args]
    if len(stores) != 1 or not marks:
        raise AnalysisError("extract_live_ranges_from_schedule: cascade slot bookkeeping not found")
    marked = {str(norm(c.args[0])) for c in marks}
    gets = [a for a in ast.walk(f) if isinstance(a, ast.Assign) and isinstance(a.value, ast.Call) and str(norm(a.value.func)) == "time_for_cascade.get"]
    slot = str(norm(gets[0].targets[0])) if gets else None
    v = str(norm(stores[0].value))
    rep.check(slot is not None and v == slot and slot in marked, "C12-k", site, f"time_for_cascade[cascade] = {slot}: the slot the operator's tensors were marked with",
              f"`{str(norm(stores[0]))}`: later operators of the cascade get a slot of their own; cascade input and output are no longer live together and the allocator puts the output on the input "
              "(output stripes overwrite input rows that later stripes still read)")


def rule_cpu_pass_intermediates(repo, rep):
    """(n) a CPU / MemoryOnly pass may hold several operators (chained memory-only operators). The cascaded pass that scheduler.
    schedule_passes builds for it is what the live-range extraction sees: tensors between the operators of the pass are handed over as
    its intermediates (an empty list leaves them without a live range: written with offset 0, on top of whatever lives there)."""
    sch = repo.mod("scheduler")
    f = sch.func("schedule_passes")
    site = "ethosu/vela/scheduler.py:schedule_passes"
    calls = [c for c in ast.walk(f) if isinstance(c, ast.Call) and call_name(c) == "CascadedPass" and len(c.args) >= 6 and "ps.outputs" in str(norm(c.args[4]))]
    if len(calls) != 1:
        raise AnalysisError(f"schedule_passes: {len(calls)} cascaded passes built for CPU passes")
    arg = calls[0].args[3]
    empty = isinstance(arg, (ast.List, ast.Tuple)) and not arg.elts
    rep.check(not empty, "C12-n", site, "the cascaded pass of a CPU pass lists the tensors between the pass's operators as intermediates",
              "`CascadedPass(.., [], ps.outputs, ..)`: two consecutive CPU RESHAPEs are packed into one MemoryOnly pass; the tensor between them gets no live range and offset 0: it overlaps the live graph input 'keep' [0,4096)")


def rule_writer_order(repo, rep):
    """(o) The arena offsets are computed for the execution order that pass packing produced (`sg.passes`, the order live ranges and the
    allocators use). TFLiteSerialiser.serialise_subgraph must emit the operators of a CPU subgraph in that order: its operator list is
    filled by a loop over `sg.passes` / `ps.ops`, not by another traversal of the graph (a depth-first walk is a different topological
    order as soon as the graph has independent branches)."""
    tw = repo.mod("tflite_writer")
    f = tw.func("TFLiteSerialiser.serialise_subgraph")
    site = "ethosu/vela/tflite_writer.py:TFLiteSerialiser.serialise_subgraph"
    if f is None:
        raise AnalysisError("tflite_writer.TFLiteSerialiser.serialise_subgraph not found")
    apps = [c for c in ast.walk(f) if isinstance(c, ast.Call) and isinstance(c.func, ast.Attribute) and c.func.attr == "append" and str(norm(c.func.value)) == "all_ops"]
    if not apps:
        raise AnalysisError("serialise_subgraph: the operator list `all_ops` is not filled by append")
    for c in apps:
        loops = [l for l in ast.walk(f) if isinstance(l, ast.For) and any(x is c for x in ast.walk(l))]
        def unwrap(e):
            while isinstance(e, ast.Call) and isinstance(e.func, ast.Name) and e.func.id in ("list", "tuple", "iter") and len(e.args) == 1:
                e = e.args[0]
            return e

        iters = [str(norm(unwrap(l.iter))) for l in loops]
        ok = any(i.endswith(".passes") for i in iters) and any(i.endswith(".ops") for i in iters)
        rep.check(ok, "C12-o", site, f"`{norm(c)}` inside `for .. in sg.passes: for .. in ps.ops` (loops over {iters})",
                  f"the operator list is filled from {iters}: a traversal other than the pass order; with two independent branches the offsets (planned for the pass order) put a tensor under one that is still live")


def rule_transpose_ofm_strides(repo, rep):
    """(q) an NPU TRANSPOSE writes its OFM through strides with H and W exchanged. The operator's shape at that point is still the IFM's
    (fixup_transpose), so the strides that are exchanged must be computed from the OFM's real shape - batch, *width, height*, depth of the
    operator shape - before the swap. Strides taken from the un-swapped shape give rows of the wrong pitch: for W > H the writes run past
    the tensor (2x8x16: 928 bytes into a 256-byte tensor)."""
    m = repo.mod("high_level_command_to_npu_op")
    fn = m.func("create_feature_map")
    site = "ethosu/vela/high_level_command_to_npu_op.py:create_feature_map"
    branches = [i for i in ast.walk(fn) if isinstance(i, ast.If) and "Op.Transpose" in str(norm(i.test))]
    if len(branches) != 1:
        raise AnalysisError(f"create_feature_map: {len(branches)} transpose branches")
    br = branches[0]
    swaps = [s for s in br.body if isinstance(s, ast.Assign) and isinstance(s.targets[0], ast.Tuple) and "strides[" in str(norm(s.targets[0]))]
    gets = [s for s in br.body if isinstance(s, ast.Assign) and str(norm(s.targets[0])) == "strides" and isinstance(s.value, ast.Call) and (call_name(s.value) or "").endswith("get_strides")]
    ok, why = False, "the branch does not compute `strides` itself"
    if swaps and gets and gets[-1].lineno < swaps[0].lineno and gets[-1].value.args:
        arg = gets[-1].value.args[0]
        defs = [s.value for s in br.body if isinstance(s, ast.Assign) and isinstance(arg, ast.Name) and str(norm(s.targets[0])) == arg.id]
        shp = defs[-1] if defs else arg
        txt = str(norm(shp))
        mm = re.match(r"^Shape4D\(\[(\w+)\.batch, (\w+)\.width, (\w+)\.height, (\w+)\.depth\]\)$", txt)
        swapped_calls = re.search(r"with_height\((\w+)\.width\)", txt) and re.search(r"with_width\((\w+)\.height\)", txt)
        ok = (bool(mm) and len(set(mm.groups())) == 1) or bool(swapped_calls) or bool(re.match(r"^(\w+)\.with_hw\(\1\.width, \1\.height\)$", txt))
        why = f"`strides` is computed from `{txt[:80]}`, not from the operator shape with width and height exchanged"
        if not ok and not isinstance(shp, ast.Name):
            raise AnalysisError(f"create_feature_map: shape expression `{txt[:80]}` of the TRANSPOSE branch not recognised")
    rep.check(ok, "C12-q", site, "the strides exchanged for a TRANSPOSE are computed from the OFM's real shape (batch, width, height, depth of the operator shape)",
              why + ": row pitch of the IFM shape is used for the OFM - for W > H the stream writes beyond the tensor and the reported arena")


def rule_console_total_resolution(repo, rep):
    """(r) the console's 'Total <memory> used' line is the figure a user sizes the arena with. It prints the allocator total in KiB with two
    decimals (resolution 10.24 bytes - the reviewed, documented presentation; the CSV holds the exact number). The printed expression is the
    total divided by 1024 and nothing else: a further division (MiB) makes the printed figure fall short of the plan by kilobytes."""
    m = repo.mod("stats_writer")
    fn = m.func("print_performance_metrics_for_strat")
    site = "ethosu/vela/stats_writer.py:print_performance_metrics_for_strat"
    local_defs = {}
    for st_ in ast.walk(fn):
        if isinstance(st_, ast.Assign) and len(st_.targets) == 1 and isinstance(st_.targets[0], ast.Name):
            local_defs.setdefault(st_.targets[0].id, []).append(st_.value)

    def resolved(e_):
        """a local bound once to an expression over memory_used stands for that expression"""
        if isinstance(e_, ast.Name) and len(local_defs.get(e_.id, [])) == 1 and "memory_used" in str(norm(local_defs[e_.id][0])):
            return local_defs[e_.id][0]
        return e_

    prints = [c for c in ast.walk(fn) if isinstance(c, ast.Call) and call_name(c) == "print" and c.args and isinstance(c.args[0], ast.JoinedStr) and "Total " in "".join(str(v.value) for v in c.args[0].values if isinstance(v, ast.Constant))
              and any(isinstance(v, ast.FormattedValue) and "aug_label" in str(norm(v.value)) for v in c.args[0].values)
              and any(isinstance(v, ast.FormattedValue) and ("memory_used" in str(norm(resolved(v.value))) or (isinstance(v.value, ast.Name) and v.value.id in ("used", "size", "total"))) for v in c.args[0].values)]
    if len(prints) != 1:
        raise AnalysisError(f"print_performance_metrics_for_strat: {len(prints)} 'Total .. used' lines")
    vals = [v for v in prints[0].args[0].values if isinstance(v, ast.FormattedValue) and "aug_label" not in str(norm(v.value))]
    unit = "".join(str(v.value) for v in prints[0].args[0].values if isinstance(v, ast.Constant))
    ok = len(vals) == 1 and str(norm(resolved(vals[0].value))) in ("memory_used[mem_area] / 1024.0", "memory_used[mem_area] / 1024") and unit.rstrip().endswith("KiB")
    rep.check(ok, "C12-r", site, "the total is printed as memory_used / 1024 in KiB (two decimals: 10.24-byte resolution)",
              f"prints `{[str(norm(v.value)) for v in vals]}` with unit text `{unit.strip()[-12:]}`: a coarser unit drops kilobytes - 1073152 bytes is shown as 1.02 MiB = 1069547 bytes, less than the plan needs")

"""C16 Operators within the documented constraints are accelerated, others stay on CPU.

Doc/code table agreement between SUPPORTED_OPS.md and the constraint
registrations, dead-constraint detection, report-generator coverage and
who-writes-run_on_npu. End-to-end NPU placement is not decided."""
import ast
import re

from ..astutil import calls_in, call_name, dotted, norm, try_fold, walk_no_nested
from ..cfg import cfg_of
from ..core import AnalysisError
from ..exprnorm import conjuncts

SO = "ethosu/vela/tflite_supported_operators.py"
SEM = "ethosu/vela/tflite_model_semantic.py"
VP = "ethosu/vela/vela.py"
GO = "ethosu/vela/tflite_graph_optimiser.py"


# ------------------------------------------------------------------ Op table and predicate sets


def op_table(repo):
    """Op member -> dict(block_type=text, is_unary=bool) from operation.py."""
    m = repo.mod("operation")
    out = {}
    for st in m.cls("Op").body:
        if isinstance(st, ast.Assign) and len(st.targets) == 1 and isinstance(st.targets[0], ast.Name) and isinstance(st.value, ast.Call) and call_name(st.value) == "OperatorInfo":
            info = {"block_type": "NpuBlockType.Default", "is_unary": False}
            for k in st.value.keywords:
                if k.arg == "block_type":
                    info["block_type"] = norm(k.value)
                elif k.arg == "is_unary":
                    info["is_unary"] = bool(getattr(k.value, "value", False))
            out[st.targets[0].id] = info
    if len(out) < 100:
        raise AnalysisError("Op table not recognised")
    return out


def eval_pred(repo, ops, pred, member, depth=0):
    m = repo.mod("operation")
    f = m.func(f"Op.{pred}")
    ret = f.body[-1]
    if not isinstance(ret, ast.Return) or depth > 4:
        raise AnalysisError(f"Op.{pred}: unrecognised predicate")

    def ev(e):
        if isinstance(e, ast.BoolOp):
            vals = [ev(v) for v in e.values]
            return all(vals) if isinstance(e.op, ast.And) else any(vals)
        if isinstance(e, ast.UnaryOp) and isinstance(e.op, ast.Not):
            return not ev(e.operand)
        if isinstance(e, ast.Compare) and len(e.ops) == 1:
            l, r = e.left, e.comparators[0]
            if isinstance(e.ops[0], (ast.In, ast.NotIn)) and norm(l) == "self" and isinstance(r, (ast.Tuple, ast.List, ast.Set)):
                names = {dotted(x).split(".")[-1] for x in r.elts}
                return (member in names) == isinstance(e.ops[0], ast.In)
            if isinstance(e.ops[0], (ast.Eq, ast.NotEq)) and norm(l) == "self.info.block_type":
                return (ops[member]["block_type"] == norm(r)) == isinstance(e.ops[0], ast.Eq)
        if isinstance(e, ast.Attribute) and norm(e) == "self.info.is_unary":
            return ops[member]["is_unary"]
        if isinstance(e, ast.Call) and isinstance(e.func, ast.Attribute) and norm(e.func.value) == "self" and not e.args:
            return eval_pred(repo, ops, e.func.attr, member, depth + 1)
        raise AnalysisError(f"Op.{pred}: unrecognised predicate expression {norm(e)}")

    return ev(ret.value)


class SetEval:
    """Evaluates class-level set algebra of a checker class to sets of Op member names."""

    def __init__(self, repo, mod, clsname):
        self.repo = repo
        self.ops = op_table(repo)
        self.cls = clsname
        self.env = {}
        for st in mod.cls(clsname).body:
            if isinstance(st, ast.Assign) and len(st.targets) == 1 and isinstance(st.targets[0], ast.Name):
                try:
                    self.env[st.targets[0].id] = self.ev(st.value)
                except AnalysisError:
                    pass

    def ev(self, e):
        if isinstance(e, ast.Call) and call_name(e) in ("set", "frozenset", "tuple", "list") and len(e.args) <= 1:
            if not e.args:
                return set()
            return set(self.ev(e.args[0]))
        if isinstance(e, (ast.Tuple, ast.List, ast.Set)):
            out = set()
            for x in e.elts:
                v = self.ev(x)
                out |= v if isinstance(v, set) else {v}
            return out
        if isinstance(e, ast.Attribute):
            d = dotted(e)
            if d and d.startswith("Op.") and d.count(".") == 1:
                return d[3:]
            if d and d.split(".")[0] == self.cls and d.split(".")[1] in self.env:
                return self.env[d.split(".")[1]]
        if isinstance(e, ast.Name) and e.id in self.env:
            return self.env[e.id]
        if isinstance(e, ast.BinOp) and isinstance(e.op, (ast.BitOr, ast.Sub, ast.BitAnd)):
            a, b = self.ev(e.left), self.ev(e.right)
            if isinstance(a, set) and isinstance(b, set):
                return a | b if isinstance(e.op, ast.BitOr) else a - b if isinstance(e.op, ast.Sub) else a & b
        if isinstance(e, ast.Call) and call_name(e) == "Op.op_set" and len(e.args) == 1 and (dotted(e.args[0]) or "").startswith("Op."):
            pred = dotted(e.args[0])[3:]
            return {m for m in self.ops if eval_pred(self.repo, self.ops, pred, m)}
        raise AnalysisError(f"{self.cls}: set expression not recognised: {norm(e)[:80]}")


def registrations(repo, mod, clsname):
    """Interprets <cls>.__init__: returns (generic list, {op: [constraint names]}, {op: [excepted generic names]})."""
    se = SetEval(repo, mod, clsname)
    f = mod.func(f"{clsname}.__init__")
    generic, specific, exceptions = [], {}, {}

    def cname(node):
        d = dotted(node)
        if not d or not d.startswith(clsname + "."):
            raise AnalysisError(f"{clsname}.__init__: constraint reference not recognised: {norm(node)}")
        return d.split(".", 1)[1]

    def run(body, env):
        for st in body:
            if isinstance(st, ast.Expr) and isinstance(st.value, ast.Constant):
                continue
            if isinstance(st, ast.Assign):
                t = norm(st.targets[0])
                if t in ("self.generic_constraints", "self.specific_constraints", "self.generic_constraints_exceptions"):
                    continue
                if isinstance(st.targets[0], ast.Name):
                    env[st.targets[0].id] = se.ev(st.value)
                    continue
                raise AnalysisError(f"{clsname}.__init__: unrecognised statement {norm(st)[:80]}")
            if isinstance(st, ast.Expr) and isinstance(st.value, ast.Call) and isinstance(st.value.func, ast.Attribute) and st.value.func.attr == "append":
                tgt = st.value.func.value
                c = cname(st.value.args[0])
                if norm(tgt) == "self.generic_constraints":
                    generic.append(c)
                    continue
                if isinstance(tgt, ast.Subscript) and norm(tgt.value) in ("self.specific_constraints", "self.generic_constraints_exceptions"):
                    key = tgt.slice
                    if isinstance(key, ast.Name) and key.id in env:
                        ops = env[key.id]
                    else:
                        ops = se.ev(key)
                    ops = ops if isinstance(ops, set) else {ops}
                    d = specific if norm(tgt.value) == "self.specific_constraints" else exceptions
                    for o in ops:
                        d.setdefault(o, []).append(c)
                    continue
            if isinstance(st, ast.For) and isinstance(st.target, ast.Name):
                for o in sorted(se.ev(st.iter)):
                    e2 = dict(env)
                    e2[st.target.id] = o
                    run(st.body, e2)
                continue
            if isinstance(st, ast.If) and isinstance(st.test, ast.Compare) and len(st.test.ops) == 1 and isinstance(st.test.ops[0], (ast.In, ast.NotIn)) \
                    and isinstance(st.test.left, ast.Name) and st.test.left.id in env:
                member = env[st.test.left.id] in se.ev(st.test.comparators[0])
                if member == isinstance(st.test.ops[0], ast.In):
                    run(st.body, env)
                else:
                    run(st.orelse, env)
                continue
            raise AnalysisError(f"{clsname}.__init__: unrecognised statement {norm(st)[:80]}")

    run(f.body, {})
    return generic, specific, exceptions, se


def docstrings(mod, clsname):
    out = {}
    for st in mod.cls(clsname).body:
        if isinstance(st, ast.FunctionDef) and st.name.startswith("constraint_"):
            ds = ast.get_docstring(st, clean=False)
            out[st.name] = ds
    return out


def doc_regex(ds):
    """Docstring template -> regex ({} placeholders are wildcards; whitespace-insensitive)."""
    parts = re.split(r"\{[^}]*\}", " ".join(ds.split()))
    return re.compile(".*".join(re.escape(p) for p in parts) + r"\s*$")


def parse_supported_ops_md(text):
    """{section title: [bullet text]} with continuation lines joined."""
    secs = {}
    cur = None
    for ln in text.splitlines():
        m = re.match(r"^### (.+)$", ln)
        if m:
            cur = m.group(1).strip()
            secs[cur] = []
            continue
        if cur is None:
            continue
        if ln.startswith("- "):
            secs[cur].append(ln[2:].strip())
        elif ln.strip() and secs[cur] and not ln.startswith("#") and ln.startswith((" ", "\t")) is False and not ln.startswith("This is a list") and not ln.startswith("(Operators"):
            secs[cur][-1] += " " + ln.strip()
        elif ln.strip() and secs[cur] and ln.startswith((" ", "\t")):
            secs[cur][-1] += " " + ln.strip()
    return secs


def builtin_names(repo):
    """internal Op member -> builtin operator NAME via tflite_mapping.builtin_operator_map."""
    tm = repo.mod("tflite_mapping")
    d = tm.assign("builtin_operator_map")
    if not isinstance(d, ast.Dict):
        raise AnalysisError("builtin_operator_map is not a dict literal")
    out = {}
    for k, v in zip(d.keys, d.values):
        kn = dotted(k)
        if not kn or not isinstance(v, ast.Tuple):
            continue
        on = dotted(v.elts[0])
        if on and on.startswith("Op."):
            out.setdefault(on[3:], kn.split(".")[-1])
    return out


KEYWORDS = [
    # docstring keyword -> identifiers one of which the implementation must use
    ("dilated", {"area_height", "area_width", "dilation"}),
]


def run(repo, rep):
    rep.clause("C16-a", "SUPPORTED_OPS.md lists, per operator, exactly the constraints the two checkers register (one-to-one, docstring templates as matchers) and the generic exemption lists")
    rep.clause("C16-b", "every constraint that is defined is registered (no dead constraint); each constraint's implementation uses the quantity its text names")
    rep.clause("C16-c", "the report generator iterates every list the checkers enforce, each with the exemption table of the same checker")
    rep.clause("C16-d", "the checkers' verdict is applied to every operator, rewrites are guarded per rewrite by run_on_npu, and run_on_npu has only the reviewed writers")
    rep.clause("C16-e", "constraints that use the `axis` attribute as an index normalise a negative axis first; quantisation equality used by 'must match' constraints is exact; an activation is folded into the preceding operator only if that operator runs on the NPU")
    rule_semantics_of_helpers(repo, rep)
    rule_round3(repo, rep)
    rep.undecided("that an operator satisfying all constraints ends up inside an Ethos-U subgraph after rewriting, packing and extraction")
    # an operator left on the CPU is written back unchanged: the writer restores what the reader changed [shared with C11-d]
    from . import c11

    rep.run_borrowed(c11, {"C11-d": "C16-d"}, repo, only_sites=("tflite_writer",))
    rep.clause("C16-g", "rewrites that are applied to operators regardless of their placement re-wire nothing before the merged operator has been found supported: an operator that stays on the CPU stays unchanged [rule shared with C11-m]")
    rep.run_borrowed(c11, {"C11-m": "C16-g", "C11-e": "C16-g"}, repo)
    rep.clause("C16-h", "trial guards: a rewrite that tested a merged trial operator goes ahead only if the trial is semantically valid and supported (truth table of the guard)")
    rep.clause("C16-i", "MemoryOnly passes join an NPU subgraph only if their operator is placed on the NPU")
    rep.clause("C16-j", "placement tests read the operator at hand: no loop variable is read after its loop has ended")
    rule_round7(repo, rep)
    rep.clause("C16-k", "every SOFTMAX type the checkers admit is lowered (no demotion after placement)")
    rep.clause("C16-l", "is_per_axis counts elements, so the per-axis constraint sees the reader's 1-D vectors")
    rep.clause("C16-m", "both reader entry points (file and in-memory) run the TFLite semantic checker on TFLite models")
    rep.clause("C16-n", "an operator that stays on the CPU is written as it was read: a clone made for a trial rewrite owns its attribute dict (Operation.clone copies container members) [rule shared with C13-af]")
    from .shared import clone_completeness as _cc16

    if _cc16(repo, rep, "C16-n") < 20:
        raise AnalysisError("Operation.clone: fewer than 20 members checked")
    rep.clause("C16-o", "constraints decide what their report line says: 'new_axis_mask and shrink_axis_mask cannot both be set' (evaluated on a grid of mask pairs); 'the sum of the weights' is taken per output channel over the three other axes of the HWIO volume")
    rep.clause("C16-p", "the generic tensor constraints look at every input of a concatenating operator (CONCATENATION, PACK): operands examined per constraint, resolved through the accessor bodies and the operand index table of the operator type, against the inputs the lowering reads")
    rule_round10(repo, rep)
    rep.clause("C16-q", "NHWC attribute tuples (strides, dilation, ksize) are unpacked height first, width second wherever a kernel is built from them (the dilated-kernel and stride constraints read that kernel)")
    rule_nhwc_attr_tuples(repo, rep)
    rep.clause("C16-r", "a guard that tests an operator's type together with run_on_npu asks both of the same operator: a neighbour is folded into an NPU operator only if the neighbour itself was placed on the NPU")
    rule_same_operator_guard(repo, rep)
    rep.clause("C16-s", "a constraint whose report line speaks of 'W and H' / 'both' requires its condition of both axes (comparisons of a height and a width variable with the same value are joined with `and`)")
    rule_both_axes(repo, rep)
    rep.clause("C16-u", "constraint_tconv_valid accepts exactly the OFM extent of the TFLite kernel, (IFM - 1) * stride + max(kernel, stride), per axis (folded on a 180-point grid)")
    rule_tconv_valid_evaluated(repo, rep)
    rep.clause("C16-t", "a loop variable named after an operand iterates that operand's collection: the placement of the IFM's producers is asked of the IFM's producers (operand stems of loop variables, 8 loops, no exception)")
    from .shared import loop_stem_lint

    if loop_stem_lint(repo, rep, "C16-t", "the test looks at the wrong operand's producers / consumers - a memory-only operator behind a CPU operator is bypassed instead of becoming a copy, and the CPU operator is written with another output tensor") < 6:
        raise AnalysisError("operand-named loop variables: fewer than 6 found")
    rule_round9(repo, rep)
    rule_round8(repo, rep)
    _so, _sem = repo.mod("tflite_supported_operators"), repo.mod("tflite_model_semantic")
    rule_round4(repo, rep, [("tflite_supported_operators", "TFLiteSupportedOperators", registrations(repo, _so, "TFLiteSupportedOperators")[1]),
                            ("tflite_model_semantic", "TFLiteSemantic", registrations(repo, _sem, "TFLiteSemantic")[1])])
    so = repo.mod("tflite_supported_operators")
    sem = repo.mod("tflite_model_semantic")
    g_so, s_so, ex_so, se_so = registrations(repo, so, "TFLiteSupportedOperators")
    g_sem, s_sem, _, se_sem = registrations(repo, sem, "TFLiteSemantic")
    d_so = docstrings(so, "TFLiteSupportedOperators")
    d_sem = docstrings(sem, "TFLiteSemantic")
    names = builtin_names(repo)
    md = parse_supported_ops_md(repo.read_text("SUPPORTED_OPS.md"))
    supported_ops = se_so.env.get("supported_operators")
    if not isinstance(supported_ops, set) or len(supported_ops) < 40:
        raise AnalysisError("supported_operators set not recognised")

    # ---------------------------------------------------------------- b: dead constraints
    reg_so = set(g_so) | {c for v in s_so.values() for c in v}
    reg_sem = set(g_sem) | {c for v in s_sem.values() for c in v}
    for nm in sorted(d_so):
        rep.check(nm in reg_so, "C16-b", f"{SO}:TFLiteSupportedOperators.{nm}", f"{nm} is registered for at least one operator",
                  "constraint is defined (and documented / tested) but never registered: it is not enforced")
    for nm in sorted(d_sem):
        rep.check(nm in reg_sem, "C16-b", f"{SEM}:TFLiteSemantic.{nm}", f"{nm} is registered for at least one operator", "constraint is defined but never registered")
    for clsname, mod, docs, path in (("TFLiteSupportedOperators", so, d_so, SO), ("TFLiteSemantic", sem, d_sem, SEM)):
        for nm, ds in sorted(docs.items()):
            if not ds:
                rep.bad("C16-b", f"{path}:{clsname}.{nm}", "constraint has a docstring (its report line)", "no docstring: the report prints None")
                continue
            f = mod.func(f"{clsname}.{nm}")
            # attributes and callees only: local variable names (e.g. dilated_product_min) prove nothing
            ids = {n.attr for n in ast.walk(f) if isinstance(n, ast.Attribute) and not (isinstance(n.value, ast.Name) and n.value.id == "cls")}
            ids |= {call_name(c).split(".")[-1] for c in calls_in(f) if call_name(c)}
            low = ds.lower()
            for kw, need in KEYWORDS:
                if kw in low:
                    hit = any(any(w in i.lower() for w in need) for i in ids)
                    rep.check(hit, "C16-b", f"{path}:{clsname}.{nm}", f"text mentions '{kw}': implementation uses one of {sorted(need)}",
                              "the implementation does not touch the quantity its documented text names")
    rep.floor("C16-b", 100)

    # ---------------------------------------------------------------- a: report vs registrations
    def match_list(section, want, site):
        """want: [(checker, constraint name, docstring)] in order; bullets of the section must match one-to-one."""
        bullets = list(md.get(section, []))
        if section not in md:
            rep.bad("C16-a", "SUPPORTED_OPS.md", f"section `{section}` exists", "section missing from the report")
            return
        for chk, nm, ds in want:
            rx = doc_regex(ds or "")
            idx = next((i for i, b in enumerate(bullets) if rx.match(" ".join(re.sub(r" - \[[A-Z0-9_, ]+\]$", "", b).split()))), None)
            rep.check(idx is not None, "C16-a", site, f"`{section}` lists enforced constraint {chk}.{nm}", f"registered constraint missing from the report: {ds!r}")
            if idx is not None:
                bullets.pop(idx)
        for b in bullets:
            rep.bad("C16-a", "SUPPORTED_OPS.md", f"`{section}`: {b[:90]}", "the report lists a constraint that no checker registers for this operator (it is not enforced)")

    match_list("TFLite Generic Constraints", [("TFLiteSemantic", n, d_sem[n]) for n in g_sem] + [("TFLiteSupportedOperators", n, d_so[n]) for n in g_so], f"{SO}:TFLiteSupportedOperators.__init__")
    # exemption lists of the generic constraints
    ex_sem = {}
    f = sem.func("TFLiteSemantic.get_generic_constraint_exclude_list")
    dl = [n for n in ast.walk(f) if isinstance(n, ast.Dict)]
    if len(dl) != 1:
        raise AnalysisError("get_generic_constraint_exclude_list not recognised")
    for k, v in zip(dl[0].keys, dl[0].values):
        ex_sem[dotted(k)[3:]] = [dotted(x).split(".")[-1] for x in v.elts]
    for chk, gl, ex, docs in (("TFLiteSemantic", g_sem, ex_sem, d_sem), ("TFLiteSupportedOperators", g_so, ex_so, d_so)):
        for nm in gl:
            want = sorted({names[o] for o, cs in ex.items() if nm in cs and o in names})
            rx = doc_regex(docs[nm])
            line = next((b for b in md.get("TFLite Generic Constraints", []) if rx.match(" ".join(re.sub(r" - \[[A-Z0-9_, ]+\]$", "", b).split()))), None)
            if line is None:
                continue
            m = re.search(r" - \[([A-Z0-9_, ]+)\]$", line)
            got = sorted(x.strip() for x in m.group(1).split(",")) if m else []
            rep.check(got == want, "C16-a", "SUPPORTED_OPS.md", f"generic constraint {nm}: exempted operators {want}", f"report shows {got}")
    # per operator sections
    n_ops = 0
    for op in sorted(supported_ops):
        nm = names.get(op)
        if nm is None:
            continue
        want = [("TFLiteSemantic", c, d_sem[c]) for c in s_sem.get(op, [])] + [("TFLiteSupportedOperators", c, d_so[c]) for c in s_so.get(op, [])]
        sec = f"TFLite {nm} Constraints"
        if not want:
            rep.check(sec not in md, "C16-a", "SUPPORTED_OPS.md", f"{nm} has no specific constraints and no section", "section without registered constraints")
            continue
        n_ops += 1
        match_list(sec, want, f"{SO}:TFLiteSupportedOperators.__init__")
    # table of operators
    table = set(re.findall(r"^\| ([A-Z0-9_]+) \| \[Generic\]", repo.read_text("SUPPORTED_OPS.md"), flags=re.M))
    want_tab = {names[o] for o in supported_ops if o in names}
    rep.check(table == want_tab, "C16-a", "SUPPORTED_OPS.md", "summary table lists exactly the supported operators", f"only in report {sorted(table - want_tab)}, only in code {sorted(want_tab - table)}")
    rep.floor("C16-a", 150)

    # ---------------------------------------------------------------- c: report generator
    vela = repo.mod("vela")
    g = vela.func("generate_supported_ops")
    loops = [n for n in ast.walk(g) if isinstance(n, ast.For) and norm(n.target) == "constraint"]
    its = sorted(norm(l.iter) for l in loops)
    want_its = sorted(["semantic_checker.generic_constraints", "supported.generic_constraints", "semantic_checker.specific_constraints[op]", "supported.specific_constraints[op]"])
    rep.check(its == want_its, "C16-c", f"{VP}:generate_supported_ops", "the generator iterates both generic lists and both specific lists", f"iterates {its}")
    for l in loops:
        it = norm(l.iter)
        if not it.endswith("generic_constraints"):
            continue
        ex = [s for s in l.body if isinstance(s, ast.Assign) and norm(s.targets[0]) == "exclude_list"]
        want = "TFLiteSemantic.get_generic_constraint_exclude_list().items()" if it.startswith("semantic_checker") else "supported.generic_constraints_exceptions.items()"
        used = [c for c in calls_in(l, "_exclude_list_names")]
        ok = len(ex) == 1 and norm(ex[0].value) == want and len(used) == 1 and norm(used[0].args[1]) == "exclude_list" and norm(used[0].args[0]) == "constraint"
        rep.check(ok, "C16-c", f"{VP}:generate_supported_ops", f"`{it}` is annotated with the exemption table of the same checker ({want})", norm(ex[0].value) if ex else "exemption table missing in this loop")
    for l in loops:
        app = calls_in(l, "lines.append")
        rep.check(len(app) == 1 and "reason" in norm(app[0]), "C16-c", f"{VP}:generate_supported_ops", f"every constraint of `{norm(l.iter)}` produces a report line", "")
    doc = [s for l in loops for s in l.body if isinstance(s, ast.Assign) and norm(s.targets[0]) == "reason"]
    rep.check(len(doc) == 4 and all("constraint.__doc__" in norm(s.value) for s in doc), "C16-c", f"{VP}:generate_supported_ops", "report text is the constraint's docstring", "")
    # the checker prints the same docstring when it rejects
    for mod, fn, path in ((so, "TFLiteSupportedOperators.is_operator_supported", SO), (sem, "TFLiteSemantic.is_operator_semantic_valid", SEM)):
        f = mod.func(fn)
        c = cfg_of(f)
        loop = [n for n in ast.walk(f) if isinstance(n, ast.For) and norm(n.target) == "constraint" and "specific_constraints[op.type]" in norm(n.iter)]
        ok = len(loop) == 1
        if ok:
            fails = [n for n in ast.walk(loop[0]) if isinstance(n, ast.If) and norm(n.test) == "not valid"]
            ok = len(fails) == 1 and any(isinstance(s, ast.Return) and norm(s.value) == "False" for s in fails[0].body) and not any(isinstance(s, ast.Raise) for s in ast.walk(loop[0]))
            call = [s for s in loop[0].body if isinstance(s, ast.Assign) and norm(s.value) == "constraint(op)"]
            ok = ok and len(call) == 1 and norm(call[0].targets[0]) == "(valid, extra)"
        rep.check(ok, "C16-c", f"{path}:{fn}", "every generic (minus exemptions) and specific constraint is evaluated; the first failure returns False (no raise)", "")
        rep.check(norm(f.body[-1]) == "return True", "C16-c", f"{path}:{fn}", "an operator passing all constraints is accepted", norm(f.body[-1]))
    f = so.func("TFLiteSupportedOperators.is_operator_supported")
    gc = [s for s in ast.walk(f) if isinstance(s, ast.Assign) and norm(s.targets[0]) == "generic_constraints"]
    rep.check(len(gc) == 1 and norm(gc[0].value) == "[constraint for constraint in self.generic_constraints if constraint not in op_exceptions]" and
              any(norm(s) == "op_exceptions = self.generic_constraints_exceptions[op.type]" for s in f.body), "C16-c", f"{SO}:TFLiteSupportedOperators.is_operator_supported",
              "generic constraints minus this operator's exemptions", "")
    f = sem.func("TFLiteSemantic.is_operator_semantic_valid")
    flt = [n for n in ast.walk(f) if isinstance(n, ast.If) and norm(n.test) == "constraint not in self.get_generic_constraint_exclude_list().get(op.type, [])"]
    rep.check(len(flt) == 1, "C16-c", f"{SEM}:TFLiteSemantic.is_operator_semantic_valid", "semantic generic constraints minus this operator's exemptions", "")
    rep.floor("C16-c", 12)

    # ---------------------------------------------------------------- d: run_on_npu writers and guards
    allowed = {
        ("tflite_graph_optimiser", "supported_operator_check"): "verdict of is_operator_supported",
        ("tflite_model_semantic", "tflite_semantic_checker"): "verdict of the semantic checker",
        ("tosa_model_semantic", "tosa_semantic_checker"): "TOSA path",
        ("tosa_graph_optimiser", "supported_operator_check"): "TOSA path",
        ("operation", "Operation.__init__"): "default True",
        ("operation", "Operation.clone"): "copied from the source operation",
        ("tflite_graph_optimiser", "check_asymmetric_weights"): "forced symmetric weights fallback",
        ("softmax", "SoftMax.get_graph"): "softmax decomposition fallback",
        ("tflite_graph_optimiser", "merge_dequant_lut_quant"): "NXP pass (see F7)",
        ("tflite_graph_optimiser", "replace_dilated_convolution"): "NXP pass (see F7)",
    }
    n = 0
    for m in repo.core_modules():
        for node in ast.walk(m.tree):
            if isinstance(node, (ast.Assign, ast.AugAssign, ast.AnnAssign)):
                tgts = node.targets if isinstance(node, ast.Assign) else [node.target]
                for t in tgts:
                    if isinstance(t, ast.Attribute) and t.attr == "run_on_npu":
                        fn = m.enclosing_function(node)
                        q = m.qualname_of(fn) if fn else "<module>"
                        n += 1
                        key = (m.name, q)
                        fresh = False
                        if isinstance(node, ast.Assign) and isinstance(node.value, ast.Constant) and node.value.value is True and isinstance(t.value, ast.Name) and fn is not None:
                            # `x.run_on_npu = True` on an operation created in the same function (a new NPU helper operation)
                            for s2 in ast.walk(fn):
                                if isinstance(s2, ast.Assign) and any(isinstance(tt, ast.Name) and tt.id == t.value.id for tt in s2.targets) and isinstance(s2.value, ast.Call):
                                    fresh = True
                        if key == ("tflite_graph_optimiser", "check_asymmetric_weights"):
                            # an enforced placement rule: it must be one the report lists
                            md_txt = repo.read_text("SUPPORTED_OPS.md").lower()
                            rep.check("asymmetric" in md_txt or "zero point" in md_txt and "weight" in md_txt.split("zero point")[0][-200:], "C16-a", f"ethosu/vela/{m.name}.py:{q}",
                                      "the rule that sends operators with asymmetric integer weights to the CPU is listed in SUPPORTED_OPS.md",
                                      "`op.run_on_npu = False` for convolutions whose int8 / int16 weights have a non-zero zero point is enforced but appears in no constraint list and not in the report")
                        elif key in allowed:
                            rep.ok("C16-d", f"ethosu/vela/{m.name}.py:{q}", f"{norm(node)[:90]}", allowed[key])
                        elif (isinstance(node, ast.Assign) and isinstance(node.value, ast.Call) and str(call_name(node.value) or "").endswith("tflite_supported_operators.is_operator_supported")
                              and len(node.value.args) == 1 and str(norm(node.value.args[0])) == str(norm(t.value))):
                            # the verdict of the supported-operator check on the very object it is stored in: the checker's own decision
                            rep.ok("C16-d", f"ethosu/vela/{m.name}.py:{q}", f"{norm(node)[:90]}", "verdict of is_operator_supported on the same operator")
                        elif fresh:
                            rep.ok("C16-d", f"ethosu/vela/{m.name}.py:{q}", f"{norm(node)[:90]}", "freshly created operation")
                        else:
                            rep.bad("C16-d", f"ethosu/vela/{m.name}.py:{q}", f"{norm(node)[:90]}", "new writer of run_on_npu: the checkers' placement decision can be overridden here")
    go = repo.mod("tflite_graph_optimiser")
    f = go.func("supported_operator_check")
    asg = [s for s in walk_no_nested(f) if isinstance(s, ast.Assign) and norm(s.targets[0]) == "op.run_on_npu"]
    rep.check(len(asg) == 1 and "is_operator_supported(op)" in norm(asg[0].value), "C16-d", f"{GO}:supported_operator_check", "op.run_on_npu = <supported operators>.is_operator_supported(op)", norm(asg[0]) if asg else "")
    rep.check(norm(f.body[-1]) == "return op", "C16-d", f"{GO}:supported_operator_check", "the operator itself is returned unchanged", norm(f.body[-1]))
    tg = go.func("tflite_optimise_graph")
    pre = [s for s in ast.walk(tg) if isinstance(s, ast.Assign) and norm(s.targets[0]) == "pre_process_list"]
    ok = len(pre) == 1 and isinstance(pre[0].value, ast.List) and norm(pre[0].value.elts[0]) == "supported_operator_check"
    rep.check(ok, "C16-d", f"{GO}:tflite_optimise_graph", "supported_operator_check is the first pre-processing rewrite", norm(pre[0].value)[:100] if pre else "")
    rg = repo.mod("rewrite_graph").func("rewrite_graph_pre_order.visit_op")
    loops = [n_ for n_ in ast.walk(rg) if isinstance(n_, ast.For) and norm(n_.iter) == "op_rewrite_list"]
    ok = len(loops) == 1
    if ok:
        calls = [c for c in ast.walk(loops[0]) if isinstance(c, ast.Call) and norm(c.func) == "rewrite"]
        guards = [n_ for n_ in ast.walk(loops[0]) if isinstance(n_, ast.If) and "run_on_npu" in norm(n_.test) and any(c in list(ast.walk(n_)) for c in calls)]
        ok = len(calls) == 1 and len(guards) == 1 and norm(guards[0].test) in ("res.run_on_npu or rewrite_unsupported", "rewrite_unsupported or res.run_on_npu")
    rep.check(ok, "C16-d", "ethosu/vela/rewrite_graph.py:rewrite_graph_pre_order.visit_op",
              "inside the rewrite loop each rewrite is guarded by the operator's current run_on_npu (a rewrite that clears it stops the following ones)",
              "guard is outside the per-rewrite loop or missing: rewrites keep running on an operator just sent to the CPU")
    sc = repo.mod("tflite_model_semantic").func("tflite_semantic_checker")
    rep.check(any("is_operator_semantic_valid" in norm(s) and "run_on_npu" in norm(s) for s in ast.walk(sc) if isinstance(s, ast.Assign)), "C16-d", f"{SEM}:tflite_semantic_checker",
              "the semantic verdict is stored in run_on_npu", "")
    rep.floor("C16-d", 12)


def rule_semantics_of_helpers(repo, rep):
    from ..cfg import cfg_of
    from ..exprnorm import conjuncts

    # (0) a constraint whose text is conditional ("If <X> axis is reduced ...", "If a fused activation function is present ...")
    #     consults its condition: otherwise it also rejects operators that are inside the documented rule
    n_c = 0
    for mname, cls in (("tflite_model_semantic", "TFLiteSemantic"), ("tflite_supported_operators", "TFLiteSupportedOperators")):
        m = repo.mod(mname)
        for q, fn in m.functions.items():
            if not q.startswith(cls + ".constraint_"):
                continue
            doc = ast.get_docstring(fn) or ""
            src = str(norm(fn))
            mm = re.match(r"If (Width|Height|Depth|Batch) axis is reduced", doc)
            if mm:
                n_c += 1
                # the verdict must depend (data or control) on the axis operand
                tainted = set()
                for _ in range(4):
                    for st in ast.walk(fn):
                        if isinstance(st, ast.Assign):
                            dep = "op.inputs[1]" in str(norm(st.value)) or any(isinstance(x, ast.Name) and x.id in tainted for x in ast.walk(st.value))
                            if dep:
                                tainted |= {x.id for t_ in st.targets for x in ast.walk(t_) if isinstance(x, ast.Name)}
                        if isinstance(st, ast.If) and ("op.inputs[1]" in str(norm(st.test)) or any(isinstance(x, ast.Name) and x.id in tainted for x in ast.walk(st.test))):
                            for b in st.body + st.orelse:
                                for a_ in ast.walk(b):
                                    if isinstance(a_, ast.Assign):
                                        tainted |= {x.id for t_ in a_.targets for x in ast.walk(t_) if isinstance(x, ast.Name)}
                rets = [r for r in ast.walk(fn) if isinstance(r, ast.Return) and r.value is not None]
                verdicts = [r.value.elts[0] if isinstance(r.value, ast.Tuple) and r.value.elts else r.value for r in rets]
                guarded_return = any(isinstance(i_, ast.If) and ("op.inputs[1]" in str(norm(i_.test)) or any(isinstance(x, ast.Name) and x.id in tainted for x in ast.walk(i_.test)))
                                     and any(isinstance(r_, ast.Return) for b in i_.body + i_.orelse for r_ in ast.walk(b)) for i_ in ast.walk(fn))
                depends = bool(verdicts) and (guarded_return or any("op.inputs[1]" in str(norm(v)) or any(isinstance(x, ast.Name) and x.id in tainted for x in ast.walk(v)) for v in verdicts))
                rep.check(depends, "C16-b", f"ethosu/vela/{mname}.py:{q}", f"'{doc.splitlines()[0][:60]}': the axis operand decides whether the limit applies",
                          f"the verdict does not depend on the axis operand (op.inputs[1]): the {mm.group(1).lower()} limit is applied to every MEAN, so an operator that does not reduce that axis and is "
                          "inside all listed constraints stays on the CPU (demonstrated: MEAN over H of [1,2,5000,1])")
            elif doc.startswith("If a fused activation function is present"):
                n_c += 1
                rep.check("op.activation" in src, "C16-b", f"ethosu/vela/{mname}.py:{q}", "the fused-activation condition is consulted", "op.activation is never read")
    if n_c < 2:
        raise AnalysisError(f"conditional constraints: only {n_c} found")
    # ... and the other way round: a constraint that only applies under one padding mode (`if op.attrs["padding"] == Padding.X:`
    # ... otherwise `return True`) says so in its text ("X padding: ..."), as its siblings do; otherwise the report lists a rule
    # that operators with the other padding may break and still be placed on the NPU
    n_p = 0
    for mname, cls in (("tflite_model_semantic", "TFLiteSemantic"), ("tflite_supported_operators", "TFLiteSupportedOperators")):
        m = repo.mod(mname)
        for q, fn in m.functions.items():
            if not q.startswith(cls + ".constraint_"):
                continue
            body = [st for st in fn.body if not (isinstance(st, ast.Expr) and isinstance(st.value, ast.Constant))]
            if not (len(body) == 2 and isinstance(body[0], ast.If) and isinstance(body[1], ast.Return)):
                continue
            t = body[0].test
            if not (isinstance(t, ast.Compare) and len(t.ops) == 1 and isinstance(t.ops[0], ast.Eq)):
                continue
            sides = [str(norm(t.left)), str(norm(t.comparators[0]))]
            if "op.attrs['padding']" not in sides or not any(x.startswith("Padding.") for x in sides):
                continue
            rv = body[1].value
            if not (isinstance(rv, ast.Tuple) and isinstance(rv.elts[0], ast.Constant) and rv.elts[0].value is True):
                continue
            mode = [x for x in sides if x.startswith("Padding.")][0].split(".")[-1]
            doc = ast.get_docstring(fn) or ""
            n_p += 1
            rep.check(doc.startswith(f"{mode} padding:"), "C16-b", f"ethosu/vela/{mname}.py:{q}", f"a constraint enforced only for {mode} padding says so in its text ('{mode} padding: ...')",
                      f"text is '{doc.splitlines()[0][:70]}' without the condition: the report lists it unconditionally, so an operator with the other padding mode that breaks it is still placed on the NPU "
                      "(demonstrated: AVERAGE_POOL_2D, VALID, 10x10 kernel)")
    if n_p < 4:
        raise AnalysisError(f"padding-conditional constraints: only {n_p} found")
    # (w, h) getters unpacked in their order inside the constraint checkers ("Stride width ..." must test the width)
    from .shared import pair_unpack_lint

    if pair_unpack_lint(repo, rep, "C16-b", ["tflite_supported_operators", "tflite_model_semantic"]) < 6:
        raise AnalysisError("constraint checkers: too few (w, h) unpackings found")
    # MEAN: "Reduction in Depth axis is supported if at least one of H,W,C are of size 1": the sizes looked at are all three for a
    # 3-D input and the last three for a 4-D input
    ma = repo.mod("tflite_model_semantic").func("TFLiteSemantic.constraint_mean_axis")
    n_m = 0
    for i_ in ast.walk(ma):
        if not (isinstance(i_, ast.If) and "dims" in str(norm(i_.test))):
            continue
        ranks = {c_.value for c_ in ast.walk(i_.test) if isinstance(c_, ast.Constant) and isinstance(c_.value, int)}
        for g in ast.walk(i_):
            if isinstance(g, ast.comprehension) and str(norm(g.iter)).startswith("input_shape"):
                it_ = str(norm(g.iter))
                for r in sorted(ranks & {3, 4}):
                    n_m += 1
                    want = "input_shape" if r == 3 else "input_shape[1:]"
                    rep.check(it_ == want or (r == 4 and it_ == "input_shape[-3:]") or (r == 3 and it_ == "input_shape[-3:]"), "C16-b", "ethosu/vela/tflite_model_semantic.py:TFLiteSemantic.constraint_mean_axis",
                              f"for a {r}-D input the depth rule looks at H, W and C (`{want}`)",
                              f"iterates `{it_}` for rank {r}: one of H, W, C is left out (or the batch is counted), so a MEAN over depth that the listed rule allows is rejected (or one it forbids accepted)")
    if n_m < 2:
        raise AnalysisError("constraint_mean_axis: depth rule not recognised")

    # (1) negative axis: a valid model may give axis = -1; constraints indexing with it must add the rank first
    n = 0
    for mname, cls in (("tflite_model_semantic", "TFLiteSemantic"), ("tflite_supported_operators", "TFLiteSupportedOperators")):
        m = repo.mod(mname)
        for q, fn in m.functions.items():
            if not q.startswith(cls + ".constraint_"):
                continue
            reads = [s_ for s_ in ast.walk(fn) if isinstance(s_, ast.Assign) and norm(s_.targets[0]) == "axis" and norm(s_.value) in ("op.attrs['axis']", "op.attrs.get('axis')")]
            if not reads:
                continue
            used_as_index = False
            for x in ast.walk(fn):
                if isinstance(x, ast.Subscript) and any(isinstance(y, ast.Name) and y.id == "axis" for y in ast.walk(x.slice)):
                    used_as_index = True
                if isinstance(x, ast.Compare) and any(isinstance(y, ast.Name) and y.id == "axis" for y in [x.left] + x.comparators) and any(isinstance(o, (ast.NotEq, ast.Eq)) for o in x.ops) \
                        and not any(isinstance(c_, ast.Constant) and c_.value is None for c_ in [x.left] + x.comparators):
                    used_as_index = True
            if not used_as_index:
                continue
            normalised = any(
                (isinstance(s_, ast.AugAssign) and norm(s_.target) == "axis" and isinstance(s_.op, ast.Add) and "axis < 0" in norm(s_.value)) or
                (isinstance(s_, ast.If) and norm(s_.test) == "axis < 0" and any(isinstance(b, ast.AugAssign) and norm(b.target) == "axis" for b in s_.body)) or
                (isinstance(s_, ast.Assign) and norm(s_.targets[0]) == "axis" and "%" in norm(s_.value))
                for s_ in ast.walk(fn))
            n += 1
            rep.check(normalised, "C16-e", f"ethosu/vela/{mname}.py:{q}", "`axis` is made non-negative (axis += rank if axis < 0) before it selects a dimension",
                      "the attribute is used as an index / compared with dimension numbers as read: a valid operator written with a negative axis is judged on the wrong dimensions and rejected")
    rep.check(n >= 2, "C16-e", "ethosu/vela/tflite_model_semantic.py", "axis-indexed constraints found", str(n))
    # (2) exact quantisation equality
    t = repo.mod("tensor")
    for fnm in ("QuantizationParameters.is_scaling_equal",):
        f = t.func(fnm)
        ret = sorted((r for r in ast.walk(f) if isinstance(r, ast.Return)), key=lambda r: r.lineno)[-1]
        cj = [norm(x) for x in conjuncts(ret.value)]
        from ..astutil import same_texts

        def exact_pair(e):
            """field name if `e` is an exact equality test of self.<f> and other.<f> (scalar ==, or an array comparison reduced with all)"""
            while isinstance(e, ast.Call) and (call_name(e) in ("bool", "np.all", "numpy.all", "all") or (isinstance(e.func, ast.Attribute) and e.func.attr == "all" and not e.args)):
                e = e.args[0] if e.args else e.func.value
            pair = None
            if isinstance(e, ast.Compare) and len(e.ops) == 1 and isinstance(e.ops[0], ast.Eq):
                pair = (e.left, e.comparators[0])
            elif isinstance(e, ast.Call) and call_name(e) in ("np.array_equal", "numpy.array_equal") and len(e.args) == 2:
                pair = tuple(e.args)
            if pair and all(isinstance(x_, ast.Attribute) and isinstance(x_.value, ast.Name) for x_ in pair) and {pair[0].value.id, pair[1].value.id} == {"self", "other"} and pair[0].attr == pair[1].attr:
                return pair[0].attr
            return None

        ok = sorted(str(exact_pair(x)) for x in conjuncts(ret.value)) == ["scale_f32", "zero_point"]
        rep.check(ok, "C16-e", f"ethosu/vela/tensor.py:{fnm}", "scaling equality is exact equality of scale and zero point ('quantization parameters must match')",
                  f"returns `{norm(ret.value)}`: operators whose parameters differ slightly are accepted by the 'must match' constraints although the documented rule rejects them")
    # (2b) MAXIMUM(x, MUL(x, c)) -> LeakyReLU / Abs absorbs the MUL: only if the MUL itself was placed on the NPU
    go_ = repo.mod("tflite_graph_optimiser")
    mm_ = go_.func("convert_mul_max_to_abs_or_lrelu")
    c_m = cfg_of(mm_)
    gates = c_m.nodes_where(lambda nd: nd.kind == "test" and "mul.run_on_npu" in str(norm(nd.expr)))
    muts_ = c_m.nodes_where(lambda nd: nd.kind == "stmt" and isinstance(nd.stmt, ast.Assign) and str(norm(nd.stmt.targets[0])) in ("op.type", "op.inputs"))
    if not muts_:
        raise AnalysisError("convert_mul_max_to_abs_or_lrelu: rewrite statements not found")
    rep.check(bool(gates) and all(any(c_m.dominates(g_, x_) for g_ in gates) for x_ in muts_), "C16-e", "ethosu/vela/tflite_graph_optimiser.py:convert_mul_max_to_abs_or_lrelu",
              "the MUL that is absorbed into the LeakyReLU / Abs runs on the NPU itself (test of mul.run_on_npu before the rewrite)",
              "mul.run_on_npu is never consulted: a MUL that violates a listed constraint (e.g. int16 scalar with an int8 input: 'Both Input data types must match') is warned about, then fused into the NPU operator and disappears from the output")
    # (3) activation fusing
    go = repo.mod("tflite_graph_optimiser")
    fa = go.func("fuse_activation_function_with_prev")
    fz = [s_ for s_ in ast.walk(fa) if isinstance(s_, ast.Assign) and norm(s_.targets[0]) == "fuse" and isinstance(s_.value, ast.BoolOp)]
    if not fz:
        raise AnalysisError("fuse_activation_function_with_prev: definition of `fuse` not found")
    cj = [norm(x) for x in conjuncts(fz[0].value)]
    rep.check("prev_op.run_on_npu" in cj, "C16-e", "ethosu/vela/tflite_graph_optimiser.py:fuse_activation_function_with_prev", "the operator that receives the activation (prev_op) runs on the NPU",
              f"conjuncts {cj[:3]}...: an NPU activation is folded into a rejected (CPU) operator, which is rewired and takes the activation with it to the CPU")
    c = cfg_of(fa)
    gate = c.nodes_where(lambda nd: nd.kind == "test" and norm(nd.expr) in ("not fuse", "fuse"))
    muts = c.nodes_where(lambda nd: nd.stmt is not None and nd.kind != "test" and isinstance(nd.stmt, (ast.Assign, ast.Expr)) and ("prev_op.set_output_tensor" in norm(nd.stmt) or norm(nd.stmt).startswith("prev_op.activation")))
    rep.check(len(gate) == 1 and muts and all(c.dominates(gate[0], x) for x in muts), "C16-e", "ethosu/vela/tflite_graph_optimiser.py:fuse_activation_function_with_prev",
              "prev_op is modified only after the `fuse` test", "")
    rep.floor("C16-e", 5)


def rule_round3(repo, rep):
    """Rewrites that run before the checks, the option that decides a check, and verdict accumulation inside a constraint."""
    from .shared import module_axis_lint

    rep.clause("C16-f", "rewrites that run before the supported-operator check compare each axis with its own extent (NHWC feature-map shapes: [1] = H, [2] = W); "
               "compiler_driver hands optimise_graph its options in the callee's parameter order; a constraint that loops over several tensors only ever clears its verdict")
    n = module_axis_lint(repo, rep, "C16-f", ["tflite_graph_optimiser", "graph_optimiser_util", "tflite_supported_operators", "tflite_model_semantic"],
                         index_conventions={r"(^|\.)(ifm|ofm|ifm2)(_shape|\.shape)$": {1: "H", 2: "W", 3: "C", -3: "H", -2: "W", -1: "C"}})
    if n < 15:
        raise AnalysisError(f"only {n} axis-typed expressions in the graph optimiser modules")
    # positional arguments of optimise_graph: a parameter named like an option receives that option
    cd = repo.mod("compiler_driver").func("compiler_driver")
    go = repo.mod("graph_optimiser").func("optimise_graph")
    params = [a.arg for a in go.args.args]
    calls = [c for c in calls_in(cd) if (call_name(c) or "").endswith("optimise_graph")]
    if len(calls) != 1:
        raise AnalysisError("compiler_driver: call of optimise_graph not found")
    for i, a in enumerate(calls[0].args):
        if isinstance(a, ast.Attribute) and norm(a.value) in ("options", "scheduler_options") and i < len(params):
            rep.check(a.attr == params[i], "C16-f", "ethosu/vela/compiler_driver.py:compiler_driver", f"optimise_graph parameter `{params[i]}` receives options.{params[i]}",
                      f"receives options.{a.attr}: --force-symmetric-int-weights no longer selects fixup over check of asymmetric weights (and --verbose-graph does)")
    # verdict accumulation
    so = repo.mod("tflite_supported_operators")
    for q, fn in so.functions.items():
        if ".constraint_" not in q:
            continue
        for lp in [x for x in ast.walk(fn) if isinstance(x, ast.For)]:
            for st in ast.walk(lp):
                if isinstance(st, ast.Assign) and len(st.targets) == 1 and norm(st.targets[0]) == "valid" and not (isinstance(st.value, ast.Constant) and st.value.value is False):
                    if any(isinstance(x, ast.Name) and x.id == "valid" for x in ast.walk(st.value)):
                        continue  # valid = valid and ... / valid &= ...
                    rep.bad("C16-f", f"ethosu/vela/tflite_supported_operators.py:{q}", f"`{str(norm(st))[:60]}` inside `for {str(norm(lp.target))} in {str(norm(lp.iter))[:40]}`",
                            "the verdict is overwritten per element: a violation found for an earlier tensor is forgotten when a later tensor is fine")
    rep.floor("C16-f", 15)


def rule_round4(repo, rep, regs):
    """(b) every operator attribute a constraint reads is delivered by the reader for the operators the constraint is registered for;
    the depthwise depth multiplier is weight channels / IFM channels."""
    tm = repo.mod("tflite_mapping")
    bom = [st for st in tm.tree.body if isinstance(st, (ast.Assign, ast.AnnAssign)) and str(norm(st.targets[0] if isinstance(st, ast.Assign) else st.target)) == "builtin_operator_map"]
    if len(bom) != 1 or not isinstance(bom[0].value, ast.Dict):
        raise AnalysisError("tflite_mapping.builtin_operator_map literal not found")
    top = {str(norm(st.targets[0])): st.value for st in tm.tree.body if isinstance(st, ast.Assign) and len(st.targets) == 1 and isinstance(st.targets[0], ast.Name)}

    def member_name(e):
        if isinstance(e, ast.Name) and e.id in top:
            e = top[e.id]
        if isinstance(e, ast.Constant) and isinstance(e.value, str):
            return e.value
        if isinstance(e, ast.Tuple) and e.elts and isinstance(e.elts[0], ast.Constant):
            return e.elts[0].value
        return None

    members = {}
    for v in bom[0].value.values:
        if not (isinstance(v, ast.Tuple) and len(v.elts) >= 2):
            continue
        opn = str(norm(v.elts[0]))
        ser = v.elts[1]
        if isinstance(ser, ast.Name) and ser.id in top:
            ser = top[ser.id]
        if isinstance(ser, ast.Call) and call_name(ser) == "OptionsSerializer" and members.get(opn, set()) is not None:
            ms = set()
            if len(ser.args) > 1 and isinstance(ser.args[1], (ast.Tuple, ast.List)):
                ms = {member_name(e) for e in ser.args[1].elts}
            if None in ms:
                members[opn] = None
            else:
                members.setdefault(opn, set()).update(ms)
        else:
            members[opn] = None
    if sum(1 for v in members.values() if v) < 60:
        raise AnalysisError("option serializer member lists not recognised")
    # attributes the reader / the semantic checks add for every operator before the constraints run
    added = set()
    for mn in ("tflite_reader", "tflite_model_semantic", "tflite_supported_operators"):
        for st in ast.walk(repo.mod(mn).tree):
            if isinstance(st, ast.Assign):
                for t in st.targets:
                    if isinstance(t, ast.Subscript) and str(norm(t.value)).endswith("attrs") and isinstance(t.slice, ast.Constant):
                        added.add(t.slice.value)
    n = 0
    for mn, cls, spec in regs:
        m = repo.mod(mn)
        for opn, cons in sorted(spec.items()):
            ms = members.get(f"Op.{opn}")
            if ms is None:
                continue
            for c in cons:
                fn = m.functions.get(f"{cls}.{c}")
                if fn is None:
                    continue
                for x in ast.walk(fn):
                    k = None
                    if isinstance(x, ast.Subscript) and isinstance(x.ctx, ast.Load) and str(norm(x.value)) == "op.attrs" and isinstance(x.slice, ast.Constant):
                        k = x.slice.value
                    if isinstance(x, ast.Call) and str(norm(x.func)) == "op.attrs.get" and x.args and isinstance(x.args[0], ast.Constant):
                        k = x.args[0].value
                    if k is None:
                        continue
                    n += 1
                    rep.check(k in ms or k in added, "C16-b", f"ethosu/vela/{mn}.py:{cls}.{c}", f"attribute '{k}' read for {opn} is delivered by its option table (or set by the reader)",
                              f"the option serializer of {opn} reads {sorted(ms)}: '{k}' is never set, the constraint sees its default for every model and cannot reject what its text excludes")
    if n < 25:
        raise AnalysisError(f"constraint attribute reads: only {n} found")
    # depth multiplier of a depthwise convolution
    rd = repo.mod("tflite_reader")
    po = rd.func("TFLiteSubgraph.parse_operator")
    dm = [st for st in ast.walk(po) if isinstance(st, ast.Assign) and str(norm(st.targets[0])) == "op.attrs['depth_multiplier']"]
    if len(dm) != 1:
        raise AnalysisError("parse_operator: depth_multiplier assignment not found")
    v = dm[0].value
    ok = isinstance(v, ast.BinOp) and isinstance(v.op, (ast.FloorDiv, ast.Div)) and str(norm(v.right)) in ("op.ifm.shape[-1]", "op.ifm.shape[3]") and str(norm(v.left)).startswith("op.weights.shape[")
    rep.check(ok, "C16-b", "ethosu/vela/tflite_reader.py:TFLiteSubgraph.parse_operator", "depth_multiplier = weight channels // IFM channels (what 'For depth multipliers > 1, IFM channels must be 1' tests)",
              f"`{str(norm(v))}`: the depthwise constraint then sees multiplier 1 for every supported and unsupported case alike")


def rule_round7(repo, rep):
    """(h) a rewrite that decides on a trial operator leaves the source alone unless the trial is semantically valid *and* supported:
    the guard in front of `return op` is evaluated for all truth assignments of the two checks. (i) a MemoryOnly pass joins the
    neighbouring NPU subgraph only if its operator was placed on the NPU (a RESHAPE rejected by a listed constraint stays a CPU
    operator). (j) pass packing judges each operator by its own placement: no loop variable of a finished loop is read."""
    import itertools

    from .c13 import _atoms, _bool_eval
    from .shared import stale_loop_variable_lint

    go = repo.mod("tflite_graph_optimiser")
    n = 0
    for q, fn in go.functions.items():
        for i in ast.walk(fn):
            if not (isinstance(i, ast.If) and i.body and isinstance(i.body[0], ast.Return)):
                continue
            t = str(norm(i.test))
            if "is_operator_semantic_valid(" in t and "is_operator_supported(" in t:
                atoms = sorted(_atoms(i.test, set()))
                sem_a = [a for a in atoms if "is_operator_semantic_valid(" in a]
                sup_a = [a for a in atoms if "is_operator_supported(" in a]
                if len(atoms) != 2 or len(sem_a) != 1 or len(sup_a) != 1:
                    raise AnalysisError(f"{q}: trial guard `{t[:80]}` has atoms {atoms}")
                n += 1
                wrong = []
                for sv, pv in itertools.product((False, True), repeat=2):
                    leaves_alone = _bool_eval(i.test, {sem_a[0]: sv, sup_a[0]: pv})
                    if leaves_alone != (not (sv and pv)):
                        wrong.append((sv, pv, leaves_alone))
                rep.check(not wrong, "C16-h", f"ethosu/vela/tflite_graph_optimiser.py:{q}", "the source operators are left alone unless the trial operator is semantically valid and supported (4 assignments)",
                          (f"`{t[:100]}`: for (semantic valid, supported) = {[(a, b) for a, b, _ in wrong]} the rewrite {'returns' if wrong[0][2] else 'goes ahead'}: "
                           "a merged operator that violates a listed constraint (batch 2, a dimension of 70000) is put on the NPU") if wrong else "")
    if n < 1:
        rep.bad("C16-h", "ethosu/vela/tflite_graph_optimiser.py:merge_dequant_lut_quant", "the merge is guarded by a test of the trial operator (semantic valid and supported)",
                "no `if <semantic valid .. supported>: return` guard is left in the graph optimiser: the merge goes ahead whatever the checks say")
    ex = repo.mod("extract_npu_subgraphs")
    f = ex.func("extract_subgraph")
    site = "ethosu/vela/extract_npu_subgraphs.py:extract_subgraph"
    tests = [i for i in ast.walk(f) if isinstance(i, ast.If) and "PassPlacement.MemoryOnly" in str(norm(i.test)) and any("place_vec[idx]" in str(norm(x)) for x in ast.walk(i) if isinstance(x, ast.Assign))]
    if not tests:
        raise AnalysisError("extract_subgraph: re-placement of MemoryOnly passes not found")
    for i in tests:
        cj = [str(norm(c)) for c in conjuncts(i.test)]
        rep.check(any(c.endswith(".run_on_npu") and "not " not in c for c in cj), "C16-i", site, f"`{str(norm(i.test))[:80]}`: a MemoryOnly pass is handed to the NPU only if its operator is placed there",
                  "the placement of the operator is not consulted: a RESHAPE / SQUEEZE / EXPAND_DIMS that a listed constraint keeps on the CPU (non-constant shape, mismatching quantisation) is absorbed by the neighbouring NPU subgraph")
    n2, _ = stale_loop_variable_lint(repo, rep, "C16-j", ["pass_packing", "extract_npu_subgraphs", "tflite_supported_operators", "tflite_model_semantic", "graph_optimiser_util"])
    if n2 < 20:
        raise AnalysisError(f"stale loop variable lint: {n2} loops")


def rule_round8(repo, rep):
    """(k) SoftMax.get_graph lowers every data type the checkers admit for SOFTMAX (uint8, int8, int16 with matching OFM); a type that
    falls through to `run_on_npu = False` is demoted after placement and never appears in the report. (l) is_per_axis counts elements
    (np.size): per-channel vectors arrive 1-D from the reader. (m) every reader path for TFLite models runs the TFLite semantic checker."""
    sm = repo.mod("softmax")
    f = sm.func("SoftMax.get_graph")
    tests = [i.test for i in ast.walk(f) if isinstance(i, ast.If)]
    covered = set()
    for t in tests:
        tt = str(norm(t))
        if "dtype" in tt:
            covered |= set(re.findall(r"DataType\.(u?int\d+)", tt))
    rep.check({"uint8", "int8", "int16"} <= covered, "C16-k", "ethosu/vela/softmax.py:SoftMax.get_graph", "the lowering dispatch covers uint8, int8 and int16",
              f"dispatched types {sorted(covered)}: a SOFTMAX of a missing type passes every listed constraint, is then demoted by `run_on_npu = False` and written back as a CPU operator")
    tn = repo.mod("tensor")
    g = tn.func("QuantizationParameters.is_per_axis")
    calls = [call_name(c) for c in ast.walk(g) if isinstance(c, ast.Call)]
    rep.check(any(c in ("np.size", "numpy.size", "len") for c in calls) and not any(c in ("np.ndim", "numpy.ndim") for c in calls), "C16-l", "ethosu/vela/tensor.py:QuantizationParameters.is_per_axis",
              "per-axis means more than one element (np.size)", f"calls {sorted(set(c for c in calls if c))}: the reader's 1-D per-channel vectors have ndim 1: 'Per-axis quantization is only supported for ...' is no longer enforced "
              "(FULLY_CONNECTED with per-channel weights goes to the NPU)")
    mr = repo.mod("model_reader")
    n = 0
    for q, fn in mr.functions.items():
        reads = [c for c in ast.walk(fn) if isinstance(c, ast.Call) and str(norm(c.func)).startswith("tflite_reader.read_tflite")]
        for r_ in reads:
            n += 1
            # the semantic checker applied to the graph that this read produced (same branch / function)
            par = mr.parents.get(r_)
            blk = None
            cur = par
            while cur is not None and cur is not fn:
                if isinstance(cur, ast.If):
                    blk = cur.body if any(r_ is x for st in cur.body for x in ast.walk(st)) else cur.orelse
                    break
                cur = mr.parents.get(cur)
            scope = ast.Module(body=blk if blk is not None else fn.body, type_ignores=[])
            checks = [str(norm(c.func)) for c in ast.walk(scope) if isinstance(c, ast.Call) and str(norm(c.func)).endswith("semantic_checker")]
            rep.check(checks == ["tflite_model_semantic.tflite_semantic_checker"], "C16-m", f"ethosu/vela/model_reader.py:{q}", "a TFLite model is passed through tflite_semantic_checker",
                      f"semantic checkers applied after read_tflite: {checks}: on this path none of the TFLiteSemantic constraints the report lists is enforced (MAX_POOL int8 -> uint8 is accelerated through vela.convert_bytes)")
    if n < 2:
        raise AnalysisError(f"model_reader: {n} calls of tflite_reader.read_tflite")


def rule_round9(repo, rep):
    """(o) Two constraints whose report line states the rule exactly. constraint_axis_masks: the `valid` expression is folded for mask pairs
    (0 / disjoint / overlapping) and must be true exactly when one of the masks is 0 - the NPU lowering handles one mask and asserts
    otherwise. constraint_weights_limit: the reduction of |w| runs over axes (0, 1, 2) of the HWIO volume, leaving one sum per output
    channel to compare with the limit."""
    from .c03 import eval_with

    sem = repo.mod("tflite_model_semantic")
    f = sem.func("TFLiteSemantic.constraint_axis_masks")
    site = "ethosu/vela/tflite_model_semantic.py:TFLiteSemantic.constraint_axis_masks"
    if f is None:
        raise AnalysisError("constraint_axis_masks not found")
    names = {}
    for a in ast.walk(f):
        if isinstance(a, ast.Assign) and isinstance(a.targets[0], ast.Name) and isinstance(a.value, ast.Subscript) and isinstance(a.value.slice, ast.Constant) and str(a.value.slice.value).endswith("_mask"):
            names[a.targets[0].id] = a.value.slice.value
    val = [a.value for a in ast.walk(f) if isinstance(a, ast.Assign) and str(norm(a.targets[0])) == "valid"]
    if len(val) != 1 or set(names.values()) != {"new_axis_mask", "shrink_axis_mask"}:
        raise AnalysisError("constraint_axis_masks: mask variables / `valid` not found")
    inv = {v: k for k, v in names.items()}
    wrong = []
    for na in (0, 1, 2, 3, 8):
        for sa in (0, 1, 2, 3, 8):
            got = eval_with(val[0], {inv["new_axis_mask"]: na, inv["shrink_axis_mask"]: sa})
            if got is None:
                raise AnalysisError(f"constraint_axis_masks: `{norm(val[0])}` not foldable")
            if bool(got) != (na == 0 or sa == 0):
                wrong.append((na, sa, bool(got)))
    rep.check(not wrong, "C16-o", site, f"`valid = {norm(val[0])}`: true exactly when one of the two masks is 0 (25 pairs)",
              (f"new_axis_mask={wrong[0][0]}, shrink_axis_mask={wrong[0][1]} is {'accepted' if wrong[0][2] else 'rejected'}: the report says the masks cannot both be set; the NPU lowering of STRIDED_SLICE handles one "
               "mask (AssertionError in rewrite_stridedslice_output instead of CPU placement)") if wrong else "")
    so = repo.mod("tflite_supported_operators")
    g = so.func("TFLiteSupportedOperators.constraint_weights_limit")
    gsite = "ethosu/vela/tflite_supported_operators.py:TFLiteSupportedOperators.constraint_weights_limit"
    if g is None:
        raise AnalysisError("constraint_weights_limit not found")
    sums = [c for c in ast.walk(g) if isinstance(c, ast.Call) and (call_name(c) or "").split(".")[-1] == "sum"]
    if len(sums) != 1:
        raise AnalysisError(f"constraint_weights_limit: {len(sums)} sum calls")
    ax = [k.value for k in sums[0].keywords if k.arg == "axis"] + sums[0].args[1:2]
    got = try_fold(ax[0], default=None) if ax else None
    rep.check(isinstance(got, (tuple, list)) and sorted(got) == [0, 1, 2], "C16-o", gsite, f"`{norm(sums[0])[:70]}` sums |w| over H, W and the input channels (one sum per output channel)",
              f"axis = {got!r}: the sums are no longer per output channel (HWIO): a 1x1 kernel over 65025 channels of -128 (sum 8323200 > 8323072) is placed on the NPU")


# ------------------------------------------------------------------ round 10: operand coverage of the generic tensor constraints


def _index_tables(repo):
    """module-level `NAME = TensorIndices([..], [..], [..])` of operation.py -> {NAME: (ifms, weights, biases)}; Op member -> NAME."""
    m = repo.mod("operation")
    tabs = {}
    for st in m.tree.body:
        if isinstance(st, ast.Assign) and isinstance(st.value, ast.Call) and call_name(st.value) == "TensorIndices" and isinstance(st.targets[0], ast.Name):
            vals = [try_fold(a, default=None) for a in st.value.args]
            if len(vals) == 3 and all(isinstance(v, list) for v in vals):
                tabs[st.targets[0].id] = tuple(vals)
    per_op = {}
    for st in m.cls("Op").body:
        if isinstance(st, ast.Assign) and isinstance(st.value, ast.Call) and call_name(st.value) == "OperatorInfo" and isinstance(st.targets[0], ast.Name):
            nm = "NNG_NO_INDICES"
            for k in st.value.keywords:
                if k.arg == "indices":
                    nm = norm(k.value)
            if len(st.value.args) >= 2:
                nm = norm(st.value.args[1])
            per_op[st.targets[0].id] = nm
    if len(tabs) < 8 or len(per_op) < 100:
        raise AnalysisError("operand index tables of operation.py not recognised")
    return tabs, per_op


ALL_INPUTS = "every input"


class _Examined:
    """Which operands of an operator of type X a constraint looks at: a set of input indices, 'OUT', or ALL_INPUTS. Expressions are
    evaluated with `op.type` fixed to X: accessors are resolved through the property bodies of Operation and the operand index table of X."""

    def __init__(self, repo, X):
        self.repo, self.X = repo, X
        self.m = repo.mod("operation")
        self.tabs, self.per_op = _index_tables(repo)
        if X not in self.per_op or self.per_op[X] not in self.tabs:
            raise AnalysisError(f"operand index table of Op.{X} not found")
        self.tab = dict(zip(("ifms", "weights", "biases"), self.tabs[self.per_op[X]]))
        self.ops = op_table(repo)

    def type_test(self, e, selfname):
        """truth of a test on the operator type, or None"""
        if isinstance(e, ast.UnaryOp) and isinstance(e.op, ast.Not):
            v = self.type_test(e.operand, selfname)
            return None if v is None else not v
        if isinstance(e, ast.BoolOp):
            vs = [self.type_test(v, selfname) for v in e.values]
            if isinstance(e.op, ast.And):
                return False if False in vs else (None if None in vs else True)
            return True if True in vs else (None if None in vs else False)
        if isinstance(e, ast.Compare) and len(e.ops) == 1 and norm(e.left) == f"{selfname}.type":
            r = e.comparators[0]
            if isinstance(e.ops[0], (ast.Eq, ast.NotEq)) and (dotted(r) or "").startswith("Op."):
                return ((dotted(r)[3:] == self.X)) == isinstance(e.ops[0], ast.Eq)
            if isinstance(e.ops[0], (ast.In, ast.NotIn)):
                elts = None
                if isinstance(r, (ast.Tuple, ast.List, ast.Set)):
                    elts = r.elts
                if elts is not None and all((dotted(x) or "").startswith("Op.") for x in elts):
                    return (self.X in {dotted(x)[3:] for x in elts}) == isinstance(e.ops[0], ast.In)
            return None
        if isinstance(e, ast.Call) and isinstance(e.func, ast.Attribute) and norm(e.func.value) == f"{selfname}.type" and not e.args:
            try:
                return bool(eval_pred(self.repo, self.ops, e.func.attr, self.X))
            except AnalysisError:
                return None
        return None

    def accessor(self, name, depth):
        f = self.m.func(f"Operation.{name}")
        if f is None:
            return None
        return self.returns(f, "self", depth + 1)

    def returns(self, f, selfname, depth):
        if depth > 5:
            return None
        out = set()

        def walk(body):
            for st in body:
                if isinstance(st, ast.Expr) and isinstance(st.value, ast.Constant):
                    continue
                if isinstance(st, ast.If):
                    t = self.type_test(st.test, selfname)
                    if t is True:
                        return walk(st.body) or False
                    if t is False:
                        r = walk(st.orelse)
                        if r:
                            return True
                        continue
                    return None
                if isinstance(st, ast.Return):
                    v = self.ev(st.value, selfname, {}, depth)
                    if v is None:
                        return None
                    out.update(v)
                    return True
                if isinstance(st, (ast.Assign, ast.AugAssign, ast.Assert)):
                    continue
                return None
            return False

        r = walk(f.body)
        return out if r else None

    def ev(self, e, opname, env, depth=0):
        """set of operands, or None when not recognised"""
        if e is None:
            return None
        if isinstance(e, ast.Name):
            return env.get(e.id)
        if isinstance(e, (ast.ListComp, ast.GeneratorExp, ast.SetComp)) and len(e.generators) == 1 and norm(e.elt) == norm(e.generators[0].target):
            return self.ev(e.generators[0].iter, opname, env, depth)
        if isinstance(e, (ast.Tuple, ast.List)):
            out = set()
            for x in e.elts:
                if isinstance(x, ast.Starred):
                    v = self.ev(x.value, opname, env, depth)
                else:
                    v = self.ev_one(x, opname, depth)
                if v is None:
                    return None
                out |= v
            return out
        if isinstance(e, ast.BinOp) and isinstance(e.op, ast.Add):
            l, r = self.ev(e.left, opname, env, depth), self.ev(e.right, opname, env, depth)
            return None if l is None or r is None else l | r
        if isinstance(e, ast.IfExp):
            t = self.type_test(e.test, opname)
            if t is None:
                return None
            return self.ev(e.body if t else e.orelse, opname, env, depth)
        if isinstance(e, ast.Call) and call_name(e) in ("tuple", "list") and len(e.args) == 1:
            return self.ev(e.args[0], opname, env, depth)
        if isinstance(e, ast.Call) and call_name(e) == "filter" and len(e.args) == 2 and norm(e.args[0]) == "None":
            return self.ev(e.args[1], opname, env, depth)
        if isinstance(e, ast.Attribute) and norm(e.value) == opname:
            if e.attr == "inputs":
                return {ALL_INPUTS}
            if e.attr == "outputs":
                return {"OUT"}
        if isinstance(e, ast.Call) and isinstance(e.func, ast.Attribute) and norm(e.func.value) == opname and not e.args:
            return self.accessor(e.func.attr, depth)
        if isinstance(e, ast.Subscript) and isinstance(e.slice, ast.Slice) and norm(e.value) == f"{opname}.inputs" and e.slice.upper is None and e.slice.step is None:
            lo = try_fold(e.slice.lower, default=None) if e.slice.lower is not None else 0
            return {ALL_INPUTS} if lo == 0 else ({f"inputs[{lo}:]"} if isinstance(lo, int) else None)
        return None

    def ev_one(self, e, opname, depth):
        """a single tensor: op.ifm / op.ifm2 / op.weights / op.bias / op.ofm / op.inputs[k] / op.outputs[0]"""
        if isinstance(e, ast.Attribute) and norm(e.value) == opname:
            f = self.m.func(f"Operation.{e.attr}")
            if f is None:
                return None
            rets = [s for s in ast.walk(f) if isinstance(s, ast.Return)]
            if len(rets) != 1:
                return None
            r = rets[0].value
            if isinstance(r, ast.Call) and norm(r.func) == "self.get_input" and len(r.args) == 2 and norm(r.args[0]).startswith("self.type.info.indices."):
                fld, k = norm(r.args[0]).rsplit(".", 1)[1], try_fold(r.args[1], default=None)
                if fld not in self.tab or not isinstance(k, int):
                    return None
                return {self.tab[fld][k]} if k < len(self.tab[fld]) else set()
            if isinstance(r, ast.IfExp) and norm(r.body) == "self.outputs[0]":
                return {"OUT"}
            return None
        if isinstance(e, ast.Subscript) and norm(e.value) == f"{opname}.inputs":
            k = try_fold(e.slice, default=None)
            return {k} if isinstance(k, int) and k >= 0 else None
        if isinstance(e, ast.Subscript) and norm(e.value) == f"{opname}.outputs":
            return {"OUT"}
        return None


def rule_round10(repo, rep):
    """(p) A concatenating operator hands every one of its inputs to the NPU lowering (Operation.get_concat_inputs_axis returns
    `self.inputs` from its first data operand on). The generic constraints that quantify over the operator's tensors ('Tensors must be
    of type ..', 'IFM Tensor batch size must be 1', 'Input(s), Output and Weight tensors must have quantization parameters' ..) must
    therefore look at every input of such an operator, not at the two operand slots its index table names."""
    opm = repo.mod("operation")
    f = opm.func("Operation.get_concat_inputs_axis")
    pred = opm.func("Op.is_concat_op")
    if f is None or pred is None:
        raise AnalysisError("Operation.get_concat_inputs_axis / Op.is_concat_op not found")
    starts = {}
    for st in ast.walk(f):
        if isinstance(st, ast.If) and isinstance(st.test, ast.Compare) and norm(st.test.left) == "self.type" and isinstance(st.test.ops[0], ast.Eq):
            X = (dotted(st.test.comparators[0]) or "")[3:]
            for a in st.body:
                if isinstance(a, ast.Assign) and norm(a.targets[0]) == "inputs":
                    v = a.value
                    if norm(v) == "self.inputs":
                        starts[X] = 0
                    elif isinstance(v, ast.Subscript) and norm(v.value) == "self.inputs" and isinstance(v.slice, ast.Slice) and v.slice.upper is None:
                        starts[X] = try_fold(v.slice.lower, default=None)
                    else:
                        raise AnalysisError(f"get_concat_inputs_axis: data operands of Op.{X} not recognised: {norm(v)}")
    if len(starts) < 3:
        raise AnalysisError("get_concat_inputs_axis: fewer than three operator types recognised")
    ops = op_table(repo)
    produced = builtin_names(repo)
    variadic = sorted(X for X in ops if eval_pred(repo, ops, "is_concat_op", X) and X in produced)
    if len(variadic) < 2:
        raise AnalysisError(f"concatenating operators produced by the reader: {variadic} (expected CONCATENATION and PACK)")
    n = 0
    for modname, clsname, path in (("tflite_supported_operators", "TFLiteSupportedOperators", SO), ("tflite_model_semantic", "TFLiteSemantic", SEM)):
        mod = repo.mod(modname)
        generic, _spec, exc, _se = registrations(repo, mod, clsname)
        for X in variadic:
            start = starts.get(X, starts.get(X + "Reshaped"))
            if start is None:
                raise AnalysisError(f"first data operand of Op.{X} unknown")
            exd = _Examined(repo, X)
            for c in generic:
                if c in exc.get(X, []):
                    continue
                fn = mod.func(f"{clsname}.{c}")
                if fn is None:
                    raise AnalysisError(f"{clsname}.{c} not found")
                opname = fn.args.args[-1].arg
                env, looked, unknown = {}, set(), []
                # straight-line pass: assignments of tensor collections, then every iteration over one
                for st in ast.walk(fn):
                    if isinstance(st, ast.If) and isinstance(st.test, ast.UnaryOp) and isinstance(st.test.op, ast.Not) and isinstance(st.test.operand, ast.Name):
                        # `if not tensors: tensors = ...` is a fallback for operators without operand roles: it adds nothing when the roles exist
                        for a in st.body:
                            for sub in ast.walk(a):
                                sub._fallback = True
                for st in ast.walk(fn):
                    if isinstance(st, ast.Assign) and isinstance(st.targets[0], ast.Name) and not getattr(st, "_fallback", False):
                        v = exd.ev(st.value, opname, env)
                        if v is not None:
                            env[st.targets[0].id] = v
                iters = [s.iter for s in ast.walk(fn) if isinstance(s, ast.For) and not getattr(s, "_fallback", False)]
                iters += [g.iter for s in ast.walk(fn) if isinstance(s, (ast.ListComp, ast.GeneratorExp, ast.SetComp)) and not getattr(s, "_fallback", False) for g in s.generators]
                for it in iters:
                    v = exd.ev(it, opname, env)
                    if v is not None:
                        looked |= v
                    elif any(isinstance(x, ast.Name) and x.id == opname for x in ast.walk(it)) and any(
                            isinstance(x, ast.Attribute) and (x.attr in ("inputs", "ifm", "ifm2") or x.attr.startswith("get_ifm")) for x in ast.walk(it)):
                        unknown.append(norm(it))
                if unknown:
                    raise AnalysisError(f"{clsname}.{c}: tensor collection `{unknown[0][:80]}` not recognised for Op.{X}")
                if not (looked - {"OUT"}):
                    continue  # the constraint does not quantify over input tensors
                n += 1
                ok = ALL_INPUTS in looked or f"inputs[{start}:]" in looked
                shown = sorted(str(x) for x in looked)
                rep.check(ok, "C16-p", f"{path}:{clsname}.{c}", f"Op.{X}: the constraint looks at every input (the lowering reads inputs[{start}:])",
                          f"looks at operands {shown} only (index table {exd.per_op[X]} = {exd.tab['ifms']}): the other inputs of a {produced[X]} reach the NPU unchecked "
                          "(batch > 1, float32 or unquantised operand 0: placed on the NPU / KeyError instead of CPU placement)")
    if n < 10:
        raise AnalysisError(f"C16-p: only {n} (constraint, operator) pairs examined")


def _hw_axis(name):
    toks = name.lower().split("_")
    if any(t in ("h", "height", "y") for t in toks):
        return "H"
    if any(t in ("w", "width", "x") for t in toks):
        return "W"
    return None


def rule_nhwc_attr_tuples(repo, rep, rule="C16-q"):
    """(q) the reader stores strides / dilation / ksize as NHWC 4-tuples (1, h, w, 1). Every unpacking of such an attribute binds position 1
    to a height-named and position 2 to a width-named variable (the constraints on dilated kernel height / width and stride ranges read the
    kernel built from these)."""
    KEYS = ("dilation", "strides", "ksize")
    n = 0
    for m in repo.core_modules():
        for q, fn in m.functions.items():
            for st in ast.walk(fn):
                if not (isinstance(st, ast.Assign) and isinstance(st.targets[0], ast.Tuple)):
                    continue
                v = st.value
                lo = 0
                if isinstance(v, ast.Subscript) and isinstance(v.slice, ast.Slice):
                    lo = try_fold(v.slice.lower, default=None) if v.slice.lower is not None else 0
                    v = v.value
                key = None
                if isinstance(v, ast.Subscript) and str(norm(v.value)).endswith(".attrs") and isinstance(v.slice, ast.Constant):
                    key = v.slice.value
                elif isinstance(v, ast.Call) and isinstance(v.func, ast.Attribute) and v.func.attr == "get" and str(norm(v.func.value)).endswith(".attrs") and v.args and isinstance(v.args[0], ast.Constant):
                    key = v.args[0].value
                if key not in KEYS or not isinstance(lo, int):
                    continue
                elts = st.targets[0].elts
                bad = []
                for i, e in enumerate(elts):
                    if isinstance(e, ast.Name):
                        ax = _hw_axis(e.id)
                        pos = lo + i
                        if (pos == 1 and ax == "W") or (pos == 2 and ax == "H"):
                            bad.append(f"position {pos} ({'H' if pos == 1 else 'W'}) bound to `{e.id}`")
                if any(isinstance(e, ast.Name) and _hw_axis(e.id) for e in elts):
                    n += 1
                    rep.check(not bad, rule, f"{m.rel}:{q}", f"`{str(norm(st))[:80]}` follows the NHWC order of attrs['{key}']",
                              "; ".join(bad) + ": height and width factors are swapped (a 9x3 kernel with dilation_h 8 is judged with dilated height 9 and placed on the NPU)")
    if n < 3:
        raise AnalysisError(f"NHWC attribute unpackings: {n} found")


def rule_same_operator_guard(repo, rep, rule="C16-r"):
    """(r) a guard that tests an operator's type together with run_on_npu asks both of the same operator (21 guards in the optimiser, no
    exception): `pad_op.type != Op.Pad or not op.run_on_npu` tests the placement of the consumer where the producer is about to be folded
    away - a PAD that failed its own constraints would vanish into the convolution's hardware padding."""
    n = 0
    for mn in ("tflite_graph_optimiser", "graph_optimiser_util"):
        m = repo.mod(mn)
        for q, fn in m.functions.items():
            for b in ast.walk(fn):
                if not isinstance(b, ast.BoolOp):
                    continue
                recv_type, recv_npu = set(), set()
                for v in b.values:
                    for a in ast.walk(v):
                        if isinstance(a, ast.Attribute) and a.attr == "run_on_npu":
                            recv_npu.add(str(norm(a.value)))
                        if isinstance(a, ast.Attribute) and a.attr == "type" and not str(norm(a.value)).endswith(".activation"):
                            recv_type.add(str(norm(a.value)))
                if not recv_type or not recv_npu:
                    continue
                n += 1
                ok = recv_npu <= recv_type
                rep.check(ok, rule, f"{m.rel}:{q}", f"`{str(norm(b))[:90]}` tests type and placement of the same operator",
                          f"type of {sorted(recv_type)} but placement of {sorted(recv_npu - recv_type)}: the operator identified by the type test may be on the CPU and is rewritten (folded away) all the same")
    if n < 15:
        raise AnalysisError(f"type / run_on_npu guards: {n} found")


def rule_both_axes(repo, rep, rule="C16-s"):
    """(s) a constraint whose report line speaks of 'W and H' requires its condition of both axes: a test that compares a height-named and a
    width-named variable with the same value joins the two comparisons with `and`."""
    n = 0
    for modname, clsname, path in (("tflite_supported_operators", "TFLiteSupportedOperators", SO), ("tflite_model_semantic", "TFLiteSemantic", SEM)):
        mod = repo.mod(modname)
        for nm, ds in docstrings(mod, clsname).items():
            if not ds or not re.search(r"\bW and H\b|\bH and W\b|\bboth\b", ds):
                continue
            fn = mod.func(f"{clsname}.{nm}")
            for b in ast.walk(fn):
                if not (isinstance(b, ast.BoolOp) and len(b.values) == 2 and all(isinstance(v, ast.Compare) and len(v.ops) == 1 and isinstance(v.ops[0], ast.Eq) for v in b.values)):
                    continue
                l, r = b.values

                def axis_of(e):
                    axes = {_hw_axis(x.id) for x in ast.walk(e) if isinstance(x, ast.Name)} - {None}
                    return axes.pop() if len(axes) == 1 else None

                if {axis_of(l.left), axis_of(r.left)} != {"H", "W"} or str(norm(l.comparators[0])) != str(norm(r.comparators[0])):
                    continue
                # polarity: the test accepts (valid = True) or rejects (valid = False / return False ..)
                cur = b
                while cur is not None and not isinstance(cur, (ast.If, ast.Assign, ast.Return)):
                    cur = mod.parents.get(cur)
                accepts = None
                if isinstance(cur, ast.If) and cur.body:
                    first = str(norm(cur.body[0]))
                    accepts = True if first == "valid = True" else (False if first == "valid = False" or first.startswith("return (False,") or first.startswith("return False,") else None)
                elif isinstance(cur, ast.Assign) and str(norm(cur.targets[0])) == "valid":
                    accepts = True
                if accepts is None:
                    continue
                n += 1
                if not accepts:
                    rep.check(isinstance(b.op, ast.Or), rule, f"{path}:{clsname}.{nm}", f"`{str(norm(b))[:80]}` rejects when either axis has the value",
                              "joined with `and` in a rejecting guard: an operator with the value on one axis only passes it (align_corners with an extent of 1 on one axis: the scaling (OFM - 1) / (IFM - 1) divides by zero)")
                    continue
                rep.check(isinstance(b.op, ast.And), rule, f"{path}:{clsname}.{nm}", f"`{str(norm(b))[:80]}` requires the condition of both axes",
                          f"joined with `or` although the report line says '{[x.strip() for x in ds.splitlines() if re.search('W and H|H and W|both', x)][0][:60]}': an operator with only one axis "
                          "meeting the condition is accepted")
    if n < 2:
        raise AnalysisError(f"both-axes conditions: {n} found")


def rule_tconv_valid_evaluated(repo, rep):
    """(u) 'VALID padding: OFM dimensions must equal IFM dimensions multiplied by stride, minus difference between kernel size and stride':
    the TFLite output extent is (in - 1) * stride + max(kernel, stride), i.e. in * stride + max(kernel - stride, 0). The two checks of
    constraint_tconv_valid are folded on a grid (IFM 1..5, stride 1..3, kernel 1..4): each must hold for exactly that OFM extent - with a
    kernel smaller than the stride the difference is not subtracted."""
    from .c03 import eval_with

    so = repo.mod("tflite_supported_operators")
    fn = so.func("TFLiteSupportedOperators.constraint_tconv_valid")
    site = "ethosu/vela/tflite_supported_operators.py:TFLiteSupportedOperators.constraint_tconv_valid"
    n = 0
    for name, ax, sv, kv in (("height_check", 1, "s_h", "k_h"), ("width_check", 2, "s_w", "k_w")):
        defs = [st for st in ast.walk(fn) if isinstance(st, ast.Assign) and str(norm(st.targets[0])) == name]
        if len(defs) != 1:
            raise AnalysisError(f"constraint_tconv_valid: {name} not found")
        wrong = None
        for i in range(1, 6):
            for s_ in (1, 2, 3):
                for k in (1, 2, 3, 4):
                    want = (i - 1) * s_ + max(k, s_)
                    for ofm in (want - 1, want, want + 1):
                        got = eval_with(defs[0].value, {f"ofm_shape[{ax}]": ofm, f"ifm_shape[{ax}]": i, sv: s_, kv: k})
                        if got is None:
                            raise AnalysisError(f"constraint_tconv_valid: `{str(norm(defs[0].value))[:70]}` not foldable")
                        n += 1
                        if bool(got) != (ofm == want) and wrong is None:
                            wrong = (i, s_, k, ofm, bool(got), want)
        rep.check(wrong is None, "C16-u", site, f"`{name}` accepts exactly OFM = (IFM - 1) * stride + max(kernel, stride) (folded on a grid)",
                  f"IFM {wrong[0]}, stride {wrong[1]}, kernel {wrong[2]}: OFM {wrong[3]} is {'accepted' if wrong[4] else 'rejected'}, the operator produces {wrong[5]} - a correctly shaped TRANSPOSE_CONV with a kernel smaller than its stride is left on the CPU and one that is one short goes to the NPU" if wrong else "")
    if n < 300:
        raise AnalysisError("constraint_tconv_valid: grid not evaluated")

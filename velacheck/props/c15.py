"""C15 Every block configuration used or offered is valid for the hardware."""
import ast
import re
import itertools

from ..absint import AList, AObj, Cond, EnumMember, Interp, Unknown
from ..astutil import calls_in, call_name, norm, try_fold, walk_no_nested
from ..cfg import cfg_of
from ..core import AnalysisError
from ..exprnorm import EQ, GT, LT, comparison, conjuncts
from ..roles import RoleChecker

AA = "ethosu/vela/architecture_allocator.py"
GEN = "ethosu/vela/register_command_stream_generator.py"
API = "ethosu/vela/api.py"


# ------------------------------------------------------------------ linear forms over abstract values


def linform(v):
    """Abstract value -> {atom text: coeff, '': const} (atoms: opaque texts)."""
    if isinstance(v, bool):
        return {"": int(v)} if v else {}
    if isinstance(v, int):
        return {"": v} if v else {}
    p = getattr(v, "parts", None)
    if p and p[0] in ("+", "-") and len(p) == 3:
        a, b = linform(p[1]), linform(p[2])
        out = dict(a)
        for k, c in b.items():
            out[k] = out.get(k, 0) + (c if p[0] == "+" else -c)
            if out[k] == 0:
                del out[k]
        return out
    if p and p[0] == "*" and len(p) == 3 and (isinstance(p[1], int) or isinstance(p[2], int)):
        k, x = (p[1], p[2]) if isinstance(p[1], int) else (p[2], p[1])
        return {a: c * k for a, c in linform(x).items() if c * k}
    t = v.text if isinstance(v, Unknown) else (v.name if isinstance(v, AObj) else repr(v))
    return {t: 1}


def lsub(a, b):
    out = dict(a)
    for k, c in b.items():
        out[k] = out.get(k, 0) - c
        if out[k] == 0:
            del out[k]
    return out


def prove_nonneg(target, facts, nonneg_atom):
    """target >= 0 from facts (each a form known >= 0) and atoms known >= 0:
    search target = sum of a subset (<= 3) of facts + a form with all
    coefficients >= 0 on non-negative atoms."""
    def residual_ok(f):
        return all((k == "" and c >= 0) or (k != "" and c >= 0 and nonneg_atom(k)) for k, c in f.items())

    for r in range(0, 4):
        for sub in itertools.combinations(facts, r):
            res = dict(target)
            for f in sub:
                res = lsub(res, f)
            if residual_ok(res):
                return True
    return False


def cond_facts(conds):
    """[(Cond, truth)] -> list of forms known >= 0 (strict ones as form-1 >= 0)."""
    out = []
    for cnd, truth in conds:
        if not isinstance(cnd, Cond) or cnd.op not in ("<", "<=", ">", ">="):
            continue
        op = cnd.op
        if not truth:
            op = {"<": ">=", ">=": "<", ">": "<=", "<=": ">"}[op]
        l, r = linform(cnd.left), linform(cnd.right)
        if op in ("<=", "<"):
            f = lsub(r, l)
        else:
            f = lsub(l, r)
        if op in ("<", ">"):
            f = lsub(f, {"": 1})
        out.append(f)
    return out


def run(repo, rep):
    rep.clause("C15-a", "every configuration used or offered passed try_block_config's validity test (positive, <= max, multiple of the micro-block on all three axes)")
    rep.clause("C15-b", "on every returning path of _try_block_config the SHRAM layout is ordered and inside the bank count: ib_start <= ib_end <= ab_start <= lut_start <= total, ib_start <= ib_start2, ifm2 partition below the accumulators")
    rep.clause("C15-c", "IFM and accumulator partitions are sized per element (8-byte depth rounding), double buffered (x2) and rounded to the bank granule; LUT banks at least the reserved end banks")
    rep.clause("C15-d", "scheduler search, validator, public query and command-stream generator compute the same quantities (sibling agreement; reviewed differences frozen)")
    rep.clause("C15-e", "IFM block size arithmetic is axis-consistent")
    rep.clause("C15-g", "the Conv1D one-row block (halved accumulator partition) is taken only for a one-row OFM under a one-row kernel")
    rule_conv1d_halving(repo, rep)
    rep.clause("C15-n", "the SHRAM layout registers are programmed under the conditions the layout was computed under: IB_END / AB_START / ACC_FORMAT always, IFM2_IB_START exactly when has_ifm2")
    rule_shram_register_guards(repo, rep)
    rep.clause("C15-p", "a shape object built for one operand takes all its components from that operand (operand stems of Block / Shape4D constructions)")
    rep.clause("C15-q", "the IFM2 partition is dropped only for a true scalar operand: _ew_usage interpreted on four points, further arguments unknown")
    rule_round11(repo, rep)
    rep.clause("C15-h", "the emitted block configuration is the one of the applied schedule (apply_schedule stores it in every pass)")
    rep.clause("C15-i", "IFM block depth per IFM precision (function interpreted): only 16-bit IFMs use the 16-deep block")
    rep.clause("C15-j", "parameter-named positional arguments of the block configuration search sit at their parameter's position")
    rep.clause("C15-l", "the LUT partition: on parts without reserved banks every stripe without a table invalidates the resident tables (no exemption by block type: elementwise operands reach the last banks) [rule shared with C03-f]")
    rep.clause("C15-o", "the block-configuration query and the generator use the same per-operand test for 'the operation is scaled' (both work on the public API objects): every offered configuration is sized with the accumulator width the generator programs")
    rep.clause("C15-m", "scheduler, block-config query and generator derive 'the operation is scaled' (40-bit accumulators for 16-bit IFMs) from the same operands: the feature maps ifm, ifm2, ofm")
    rule_scaled_operands(repo, rep)
    rep.clause("C15-k", "resampling / rounding / activation modes are compared within one Enum class: the register enum and the API enum of the same name are different classes and never equal (annotation- and table-based class inference, comparisons and call arguments)")
    from .shared import enum_class_agreement as _eca

    if _eca(repo, rep, "C15-k") < 40:
        raise AnalysisError("fewer than 40 enum comparisons / arguments with an inferred class")
    rule_round8(repo, rep)
    rep.undecided("numerical bank arithmetic for all shapes on all six accelerators")
    rep.assume("bank counts, granules, bit widths and block extents are positive")
    from .shared import mirror_families, module_axis_lint

    module_axis_lint(repo, rep, "C15-e", ['architecture_allocator', 'architecture_features'])

    mirror_families(repo, rep, "C15-c", {('architecture_features', '', 'cls'): 'accelerator configuration table'})
    aa = repo.mod("architecture_allocator")
    gen = repo.mod("register_command_stream_generator")
    api = repo.mod("api")
    rule_round3(repo, rep, aa)
    rule_layout(repo, rep, aa)
    rule_validity(repo, rep, aa, gen, api)
    rule_siblings(repo, rep, aa, gen, api)
    rule_roles(repo, rep, aa)
    rule_round4(repo, rep)
    rule_hw_constants(repo, rep)
    from .shared import binding_stem_lint

    if binding_stem_lint(repo, rep, "C15-d", ["register_command_stream_generator", "register_command_stream_util", "architecture_allocator", "api", "high_level_command_to_npu_op", "scheduler", "cascade_builder"]) < 6:
        raise AnalysisError("binding stems: too few feature-map named locals found")
    # borrowed last: a lender that cannot finish on a changed tree must not hide what this property's own rules established
    from . import c03 as _c03

    rep.run_borrowed(_c03, {"C03-f": "C15-l"}, repo, only_sites=("=ethosu/vela/lut.py:optimize_high_level_cmd_stream",))  # exact site: the index-unit finding F58 of the same function stays with C03


# ------------------------------------------------------------------ b, c


def rule_round3(repo, rep, aa):
    """Accumulator width table, the block the search records, and the traversal heuristic shared with the weight compressor."""
    from ..absint import Interp, Unknown
    from ..tables import enum_of

    site = f"{AA}:_acc_type"
    it = Interp(repo, aa)
    ops_mod = repo.mod("operation")
    members = [n_.targets[0].id for n_ in ops_mod.cls("NpuBlockType").body if isinstance(n_, ast.Assign) and isinstance(n_.targets[0], ast.Name)]
    if len(members) < 6:
        raise AnalysisError("NpuBlockType members not found")
    from ..absint import EnumMember

    cls = ops_mod.cls("NpuBlockType")
    from ..astutil import enum_members

    shram = {}
    for k_, v_ in enum_members(repo.mod("architecture_features").cls("SHRAMElements")).items():
        if isinstance(v_, int) and v_ not in shram and k_ != "Last":
            shram[v_] = k_
    n = 0
    wrong = []
    for mem in members:
        for bits in (8, 16, 32):
            for scaled in (True, False):
                em = EnumMember(ops_mod, cls, mem, None)
                ps = list(it.run("_acc_type", lambda em=em, bits=bits, scaled=scaled: ([em, bits, scaled], {})))
                if len(ps) != 1 or ps[0].kind != "return":
                    raise AnalysisError(f"_acc_type({mem}, {bits}, {scaled}) not evaluable: {[(p.kind, p.value, p.decisions) for p in ps][:2]}")
                got = ps[0].value
                got = shram.get(got, got) if isinstance(got, int) else str(got).split(".")[-1]
                want = "Acc40" if (bits == 16 and mem != "Pooling" and scaled) else "Acc32"
                n += 1
                if got != want:
                    wrong.append((mem, bits, scaled, got))
    rep.check(not wrong, "C15-c", site, f"accumulators are 40 bit exactly for scaled 16-bit IFMs of non-pooling operators ({n} combinations of block type, IFM bits, scaling)",
              f"{wrong[:3]}: the accumulator partition is sized (and ACC_FORMAT emitted) for the narrower type")
    fb = aa.func("find_block_config")
    rec = [s_ for s_ in ast.walk(fb) if isinstance(s_, ast.Assign) and norm(s_.targets[0]) == "config.ofm_block"]
    rep.check(len(rec) == 1 and norm(rec[0].value) == "Shape4D(1, height, width, depth)", "C15-a", f"{AA}:find_block_config", "the block recorded for the best configuration is the candidate (height, width, depth) of the search loops",
              (str(norm(rec[0].value)) if rec else "") + ": the variable was meanwhile re-fitted to the OFM (height clamped for the one-row optimisation); the recorded block is no multiple of the micro-block")
    ck = aa.func("_choose_kernel_method")
    ke = [s_ for s_ in ast.walk(ck) if isinstance(s_, ast.Assign) and norm(s_.targets[0]) == "kernel_elements"]
    wc = repo.mod("weight_compressor").func("encode_weight_and_scale_tensor")
    ks = [s_ for s_ in ast.walk(wc) if isinstance(s_, ast.Assign) and norm(s_.targets[0]) == "kernel_size"]
    undilated = ("kernel.elements_wh()", "weights.shape[0] * weights.shape[1]", "kernel.width * kernel.height", "kernel.height * kernel.width")
    ok = len(ke) == 1 and len(ks) == 1 and any(norm(ke[0].value) == u for u in undilated) and any(norm(ks[0].value) == u for u in undilated)
    rep.check(ok, "C15-d", f"{AA}:_choose_kernel_method / ethosu/vela/weight_compressor.py:encode_weight_and_scale_tensor",
              "scheduler and weight compressor weigh part-kernel-first against depth-first with the same (undilated) kernel element count",
              f"scheduler: {norm(ke[0].value) if ke else '?'}; compressor: {norm(ks[0].value) if ks else '?'}: the traversal the compressor programs differs from the one the block was sized for, and the selected block no longer fits")


def rule_layout(repo, rep, aa):
    it = Interp(repo, aa, stubs={"round_up", "round_up_divide"})
    members = {}
    for st in aa.cls("ElementwiseUsage").body:
        if isinstance(st, ast.Assign) and isinstance(st.value, ast.Constant):
            members[st.targets[0].id] = st.value.value
    if set(members) != {"No", "Full", "Scalar"}:
        raise AnalysisError("ElementwiseUsage members changed")
    site = f"{AA}:_try_block_config"

    def nonneg(atom):
        return True  # every atom is a bank count / byte count / granule (assumed non-negative)

    n_ret = 0
    for uname, uval in members.items():
        def mk():
            shram = AObj("shram")
            return [shram, uval, AObj("ofm_block"), AObj("ifm_block"), Unknown("ifm_bits"), Unknown("ifm_granule"), Unknown("acc_bits"), Unknown("acc_granule"), Unknown("lut_banks")], {}

        for p in it.run("_try_block_config", mk):
            if p.kind != "return":
                continue
            if p.value is None:
                continue
            n_ret += 1
            lay = p.value
            if not isinstance(lay, AObj) or not lay.name.startswith("SHRAMLayout"):
                rep.bad("C15-b", site, f"{uname}: return value", f"not a SHRAMLayout: {lay!r}")
                continue
            fields = {k: linform(v) for k, v in lay.fields.items()}
            need = ["ib_start", "ib_end", "ib_start2", "ab_start", "lut_start"]
            missing = [k for k in need if k not in fields]
            rep.check(not missing, "C15-b", site, f"{uname}: all layout fields assigned on the returning path", f"missing {missing}")
            if missing:
                continue
            facts = cond_facts(p.conds)
            total = {"shram.total_banks": 1}
            goals = [
                ("ib_start <= ib_end", lsub(fields["ib_end"], fields["ib_start"])),
                ("ib_end <= ab_start", lsub(fields["ab_start"], fields["ib_end"])),
                ("ab_start <= lut_start", lsub(fields["lut_start"], fields["ab_start"])),
                ("lut_start <= total_banks", lsub(total, fields["lut_start"])),
                ("ib_start <= ib_start2", lsub(fields["ib_start2"], fields["ib_start"])),
            ]
            if uname == "Full":
                # IFM2 partition [ib_start2, ib_start2 + ifm_banks) must end at or below the accumulators / LUT
                ifm_banks = lsub(fields["ib_start2"], fields["ib_start"])  # ib_start2 = ib_start + ifm_banks
                goals.append(("ib_start2 + ifm2_banks <= ab_start", lsub(fields["ab_start"], {k: fields["ib_start2"].get(k, 0) + ifm_banks.get(k, 0) for k in set(fields["ib_start2"]) | set(ifm_banks)})))
            for txt, g in goals:
                g = {k: c for k, c in g.items() if c}
                rep.check(prove_nonneg(g, facts, nonneg), "C15-b", site, f"{uname}: {txt}", f"cannot derive {g} >= 0 from the path's guards {facts}")
            # c: sizing shape
            ifm_banks = lay.fields["ib_start2"]
            ib = getattr(ifm_banks, "parts", None)  # shram.reserved_output_banks + ifm_banks
            banks = ib[2] if ib and ib[0] == "+" else None
            ok, why = _double_buffered(banks, "ifm_granule")
            rep.check(ok, "C15-c", site, f"{uname}: IFM banks = round_up(round_up_divide(ifm_bytes, bank_size) * 2, ifm_granule)", why)
            if ok:
                nbytes = banks.parts[2][0].parts[1].parts[2][0]
                ok2 = _is_product(nbytes, ["ifm_block.elements_wh()", "round_up(((ifm_block.depth * ifm_bits) / 8), 8)"])
                rep.check(ok2, "C15-c", site, f"{uname}: ifm_bytes = elements_wh x round_up(depth x bits / 8, 8) (per-element 8-byte rounding)", f"ifm_bytes = {getattr(nbytes, 'text', nbytes)}")
            if uname == "No":
                ab = getattr(lay.fields["ab_start"], "parts", None)  # (lut_start - acc_banks)
                accb = ab[2] if ab and ab[0] == "-" else None
                ok, why = _double_buffered(accb, "acc_granule")
                rep.check(ok, "C15-c", site, "accumulator banks = round_up(round_up_divide(acc_bytes, bank_size) * 2, acc_granule)", why)
                if ok:
                    nbytes = accb.parts[2][0].parts[1].parts[2][0]
                    t = getattr(nbytes, "text", "")
                    rep.check(t == "(((ofm_block.elements_wh() * round_up(ofm_block.depth, 8)) * acc_bits) // 8)", "C15-c", site,
                              "acc_bytes = elements_wh x round_up(depth, 8) x acc_bits / 8", f"acc_bytes = {t}")
            ls = lay.fields["lut_start"]
            rep.check(linform(ls) == {"shram.total_banks": 1, "lut_banks": -1}, "C15-b", site, f"{uname}: lut_start = total_banks - lut_banks", str(linform(ls)))
            rep.check(linform(lay.fields["ib_start"]) == {"shram.reserved_output_banks": 1}, "C15-b", site, f"{uname}: ib_start = reserved output banks", str(linform(lay.fields["ib_start"])))
    rep.check(n_ret >= 3, "C15-b", site, "returning paths enumerated for all three elementwise usages", str(n_ret))
    rep.floor("C15-b", 18)
    rep.floor("C15-c", 6)
    # lut_banks = max(lut_banks, reserved_end_banks) in both callers
    for fn in ("find_block_config", "try_block_config"):
        f = aa.func(fn)
        d = [s for s in walk_no_nested(f) if isinstance(s, ast.Assign) and norm(s.targets[0]) == "lut_banks"]
        ok = len(d) == 1 and norm(d[0].value) in ("max(lut_banks, arch.shram.reserved_end_banks)", "max(arch.shram.reserved_end_banks, lut_banks)")
        rep.check(ok, "C15-c", f"{AA}:{fn}", "lut_banks = max(requested, reserved end banks)", norm(d[0]) if d else "missing")


def _double_buffered(v, granule):
    p = getattr(v, "parts", None)
    if not (p and p[0] == "call" and p[1] == "round_up" and len(p[2]) == 2):
        return False, f"not round_up(., {granule}): {getattr(v, 'text', v)}"
    inner, g = p[2]
    if getattr(g, "text", None) != granule:
        return False, f"rounded to {getattr(g, 'text', g)} instead of {granule}"
    ip = getattr(inner, "parts", None)
    if not (ip and ip[0] == "*" and ip[2] == 2):
        return False, f"not doubled: {getattr(inner, 'text', inner)}"
    d = getattr(ip[1], "parts", None)
    if not (d and d[0] == "call" and d[1] == "round_up_divide" and getattr(d[2][1], "text", "") == "shram.bank_size_bytes"):
        return False, f"not round_up_divide(bytes, bank size): {getattr(ip[1], 'text', ip[1])}"
    return True, ""


def _is_product(v, factor_texts):
    p = getattr(v, "parts", None)
    if not (p and p[0] == "*"):
        return False
    got = sorted([getattr(p[1], "text", repr(p[1])), getattr(p[2], "text", repr(p[2]))])
    return got == sorted(factor_texts)


# ------------------------------------------------------------------ a


def rule_validity(repo, rep, aa, gen, api):
    f = aa.func("try_block_config")
    first = next((s for s in f.body if not (isinstance(s, ast.Expr) and isinstance(s.value, ast.Constant))), None)
    site = f"{AA}:try_block_config"
    ok = isinstance(first, ast.If) and isinstance(first.test, ast.UnaryOp) and isinstance(first.test.op, ast.Not) and call_name(first.test.operand) == "all" \
        and len(first.body) == 1 and isinstance(first.body[0], ast.Return) and norm(first.body[0].value) == "None"
    rep.check(ok, "C15-a", site, "validity test is the first statement and returns None on failure", norm(first)[:120] if first else "missing")
    if ok:
        ge = first.test.operand.args[0]
        okg = isinstance(ge, ast.GeneratorExp) and len(ge.generators) == 1 and not ge.generators[0].ifs
        if okg:
            g = ge.generators[0]
            names = [e.id for e in g.target.elts] if isinstance(g.target, ast.Tuple) else []
            z = g.iter
            okg = call_name(z) == "zip" and [norm(a) for a in z.args] == ["block_config.as_list()", "arch.ofm_block_max.as_list()", "arch.ofm_ublock.as_list()"] and len(names) == 3
            rep.check(okg, "C15-a", site, "validity ranges over zip(block.as_list(), ofm_block_max.as_list(), ofm_ublock.as_list())", norm(z))
            if okg:
                blk, mx, ub = names
                cjs = conjuncts(ge.elt)
                want = {
                    "positive": comparison(ast.parse(f"{blk} > 0", mode="eval").body),
                    "within maximum": comparison(ast.parse(f"{blk} <= {mx}", mode="eval").body),
                }
                got = [comparison(c) for c in cjs]
                for nm, w in want.items():
                    rep.check(any(c and c[0] == w[0] and c[1] <= w[1] for c in got), "C15-a", site, f"every block dimension is {nm}", norm(ge.elt))
                mod_ok = any(norm(c) in (f"{blk} % {ub} == 0", f"0 == {blk} % {ub}") for c in cjs)
                rep.check(mod_ok, "C15-a", site, "every block dimension is a multiple of the micro-block", norm(ge.elt))
                rep.check(isinstance(ge.elt, ast.BoolOp) and isinstance(ge.elt.op, ast.And), "C15-a", site, "the three conditions are conjoined", norm(ge.elt))
    # as_list orders agree
    af = repo.mod("architecture_features")
    rep.check(norm(af.func("Block.as_list").body[-1]) == "return [self.height, self.width, self.depth]", "C15-a", "ethosu/vela/architecture_features.py:Block.as_list",
              "Block.as_list is (height, width, depth) for all three zipped operands", norm(af.func("Block.as_list").body[-1]))
    # config.ofm_block is the validated block
    d = [s for s in walk_no_nested(f) if isinstance(s, ast.Assign) and norm(s.targets[0]) == "config.ofm_block"]
    rep.check(len(d) == 1 and norm(d[0].value) == "block_config", "C15-a", site, "the returned config carries the validated block", norm(d[0]) if d else "missing")
    ln = [s for s in f.body if isinstance(s, ast.If) and norm(s.test) == "layout is None"]
    rep.check(len(ln) == 1 and norm(ln[0].body[0]) == "return None", "C15-a", site, "a block that does not fit is rejected (layout is None -> None)", "")
    # generator: assert + dominance
    g = gen.func("get_arch_block_config")
    asserts = [s for s in g.body if isinstance(s, ast.Assert) and norm(s.test) == "arch_block_config is not None"]
    c = cfg_of(g)
    rets = [s for s in g.body if isinstance(s, ast.Return)]
    rep.check(len(asserts) == 1 and len(rets) == 1 and norm(rets[0].value) == "arch_block_config" and c.dominates(c.node_of(asserts[0]), c.node_of(rets[0])), "C15-a",
              f"{GEN}:get_arch_block_config", "the generator asserts that try_block_config accepted the block before using it", "assert missing or bypassable")
    cs = calls_in(g, "try_block_config")
    rep.check(len(cs) == 1 and norm(cs[0].args[0]) == "block_config" and any(isinstance(s, ast.Assign) and norm(s) == "block_config = shape3d_to_block(npu_op.block_config)" for s in g.body),
              "C15-a", f"{GEN}:get_arch_block_config", "the validated block is the operation's block_config", "")
    gc = gen.func("generate_common")
    cc = cfg_of(gc)
    a = calls_in(gc, "get_arch_block_config")
    for callee in ("generate_block_config", "generate_shram_registers"):
        b = calls_in(gc, callee)
        rep.check(len(a) == 1 and len(b) == 1 and cc.dominates(cc.node_of(a[0]), cc.node_of(b[0])), "C15-a", f"{GEN}:generate_common",
                  f"get_arch_block_config dominates {callee}", "registers emitted without validation")
    # query: append only under truthiness of the result; returns config.ofm_block
    q = api.func("npu_find_block_configs")
    # names are taken from the dataflow, not fixed: the result of try_block_config, the block read off it, the list that collects NpuShape3D
    cfg_vars = [st.targets[0].id for st in ast.walk(q) if isinstance(st, ast.Assign) and isinstance(st.targets[0], ast.Name) and isinstance(st.value, ast.Call) and (call_name(st.value) or "").split(".")[-1] == "try_block_config"]
    app = [c_ for c_ in ast.walk(q) if isinstance(c_, ast.Call) and isinstance(c_.func, ast.Attribute) and c_.func.attr == "append" and isinstance(c_.func.value, ast.Name)
           and c_.args and isinstance(c_.args[0], ast.Call) and (call_name(c_.args[0]) or "").split(".")[-1] == "NpuShape3D"]
    ok = len(app) == 1 and len(cfg_vars) == 1
    res_name = app[0].func.value.id if app else "?"
    if ok:
        cfg = cfg_vars[0]
        par = [n for n in ast.walk(q) if isinstance(n, ast.If) and any(x is app[0] for x in ast.walk(n)) and norm(n.test) in (cfg, f"{cfg} is not None")]
        ob = [s for s in ast.walk(q) if isinstance(s, ast.Assign) and isinstance(s.targets[0], ast.Name) and norm(s.value) == f"{cfg}.ofm_block"]
        blk = ob[0].targets[0].id if len(ob) == 1 else f"{cfg}.ofm_block"
        ok = len(par) >= 1 and norm(app[0].args[0]) == f"NpuShape3D({blk}.height, {blk}.width, {blk}.depth)"
    rep.check(ok, "C15-a", f"{API}:npu_find_block_configs", "a configuration is offered only if try_block_config returned it, as NpuShape3D(height, width, depth) of config.ofm_block", "")
    # ... and only configurations found by this call: every return hands back the list built here from this call's arguments;
    # a process-wide memo keyed by a digest of the operation offers configurations computed for a different operation whenever
    # the key omits something try_block_config looks at (activation LUT, accumulator type, layouts, rounding ...)
    rets = [r for r in walk_no_nested(q) if isinstance(r, ast.Return)]
    init = [s_ for s_ in walk_no_nested(q) if isinstance(s_, ast.Assign) and norm(s_.targets[0]) == res_name]
    fresh = len(init) == 1 and str(norm(init[0].value)) in ("[]", "list()")
    rep.check(fresh and bool(rets) and all(r.value is not None and str(norm(r.value)) in (res_name, f"list({res_name})") for r in rets), "C15-a", f"{API}:npu_find_block_configs",
              "every return offers the list this call built (starting empty) from try_block_config results", f"returns {[str(norm(r.value))[:60] if r.value is not None else 'None' for r in rets]}")
    mod_stores = {str(norm(t_)) for st in api.tree.body if isinstance(st, (ast.Assign, ast.AnnAssign)) for t_ in (st.targets if isinstance(st, ast.Assign) else [st.target])
                  if isinstance(t_, ast.Name) and st.value is not None and (isinstance(st.value, (ast.Dict, ast.List, ast.Set)) or (isinstance(st.value, ast.Call) and (call_name(st.value) or "").split(".")[-1] in ("dict", "list", "set", "defaultdict", "OrderedDict", "lru_cache")))}
    used = sorted({x.id for x in ast.walk(q) if isinstance(x, ast.Name) and x.id in mod_stores})
    deco = [str(norm(d_)) for d_ in q.decorator_list]
    rep.check(not used and not any("cache" in d_ for d_ in deco), "C15-a", f"{API}:npu_find_block_configs", "the query keeps no results between calls (no module-level store, no memo decorator)",
              f"uses process-wide {used or deco}: results are replayed for operations that only share the memo key")
    rep.floor("C15-a", 12)


# ------------------------------------------------------------------ d


def rule_siblings(repo, rep, aa, gen, api):
    fa, fb = aa.func("find_block_config"), aa.func("try_block_config")
    names = ["ew_usage", "is_pooling", "is_depthwise", "is_equal_depth_op", "config.acc_type", "acc_granule", "acc_bits", "ifm_granule", "lut_banks", "upscale", "nearest", "ifm_shape"]

    def defs(f, nm):
        return sorted(norm(s.value) for s in ast.walk(f) if isinstance(s, ast.Assign) and norm(s.targets[0]) == nm)

    for nm in names:
        a, b = defs(fa, nm), defs(fb, nm)
        rep.check(a == b and a, "C15-d", f"{AA}:find_block_config/try_block_config", f"`{nm}` is defined identically in the search and in the validator", f"search: {a}; validator: {b}")
    # ifm_blockdepth (is_partkernel source differs by design: config.is_partkernel vs parameter)
    a = [x.replace("config.is_partkernel", "is_partkernel") for x in defs(fa, "ifm_blockdepth")]
    b = defs(fb, "ifm_blockdepth")
    rep.check(a == b and a, "C15-d", f"{AA}:find_block_config/try_block_config", "`ifm_blockdepth` agrees (modulo the source of is_partkernel)", f"{a} vs {b}")
    # ifm block: same helper, same arguments apart from the block
    ca = calls_in(fa, "_get_ifm_blocksize")
    cb = calls_in(fb, "_get_ifm_blocksize")
    ok = len(ca) == 1 and len(cb) == 1 and [norm(x) for x in ca[0].args[1:]] == [norm(x) for x in cb[0].args[1:]]
    rep.check(ok, "C15-d", f"{AA}:find_block_config/try_block_config", "_get_ifm_blocksize(block, kernel, arch.ofm_ublock, arch.SubKernelMax, upscale, nearest) in both", "")
    for f, nm in ((fa, "find_block_config"), (fb, "try_block_config")):
        wd = [n for n in ast.walk(f) if isinstance(n, ast.If) and norm(n.test) == "not is_equal_depth_op" and any(norm(s) == "ifm_block = ifm_block.with_depth(ifm_blockdepth)" for s in n.body)]
        rep.check(len(wd) == 1, "C15-d", f"{AA}:{nm}", "non-equal-depth operators use ifm_blockdepth for the IFM block", "")
        fo = calls_in(f, "fit_block_for_ofm")
        rep.check(len(fo) == 1 and [norm(x) for x in fo[0].args[:3]] == ["arch", "ofm_shape", "kernel"], "C15-d", f"{AA}:{nm}", "fit_block_for_ofm(arch, ofm_shape, kernel, block)", "")
        tc = calls_in(f, "_try_block_config")
        rep.check(len(tc) == 1 and [norm(x) for x in tc[0].args[:2]] == ["arch.shram", "ew_usage"] and [norm(x) for x in tc[0].args[4:]] == ["ifm_bits", "ifm_granule", "acc_bits", "acc_granule", "lut_banks"],
                  "C15-d", f"{AA}:{nm}", "_try_block_config(arch.shram, ew_usage, ofm, ifm, ifm_bits, ifm_granule, acc_bits, acc_granule, lut_banks)", norm(tc[0]) if tc else "")
    # search only proposes micro-block multiples within the maximum
    loops = [n for n in ast.walk(fa) if isinstance(n, ast.For) and call_name(n.iter) == "range"]
    want = {"height": "range(arch.ofm_ublock.height, search_space.height + 1, arch.ofm_ublock.height)", "width": "range(arch.ofm_ublock.width, search_space.width + 1, arch.ofm_ublock.width)"}
    for ax, w in want.items():
        rep.check(any(norm(l.target) == ax and norm(l.iter) == w for l in loops), "C15-d", f"{AA}:find_block_config", f"search steps {ax} in micro-block multiples up to the search space", "")
    ss = defs(fa, "search_space")
    rep.check(ss == sorted(["Shape4D.min(ofm_shape, Shape4D(arch.ofm_block_max.to_hwc()))", "Shape4D.round_up(search_space, Shape4D(arch.ofm_ublock.to_hwc()))"]), "C15-d", f"{AA}:find_block_config",
              "search space = min(ofm shape, maximum block) rounded up to the micro-block", str(ss))

    # --- public query vs generator: arguments handed to try_block_config for the same operation
    dts = {}
    from .c06 import _members

    dts = _members(repo, "api", "NpuDataType")
    ups = _members(repo, "api", "NpuResamplingMode")
    acts = _members(repo, "api", "NpuActivationOp")
    pool = _members(repo, "api", "NpuPoolingOp")
    trav = _members(repo, "api", "NpuBlockTraversal")

    def mkop(cls, ifm2, quant, act, scalar, dt, sub=None):
        def fm(n, q):
            return AObj(n, {"shape": AObj(n + ".shape", {"width": 2, "height": 2, "depth": 8}), "data_type": dts[dt],
                            "quantization": None if q == "none" else AObj(n + ".quantization", {"scale_f32": None if q == "noscale" else 1.0})})
        op = AObj("npu_op", {
            "ifm": fm("ifm", quant[0]), "ifm2": fm("ifm2", quant[1]) if ifm2 else None, "ofm": fm("ofm", quant[2]),
            "ifm2_scalar": 1.0 if scalar else None, "kernel": AObj("kernel"), "ifm_upscale": ups["NONE"],
            "activation": None if act is None else AObj("act", {"op_type": acts[act]}), "block_config": AObj("block_config", {"width": 2, "height": 2, "depth": 8}),
            "block_traversal": trav["PART_KERNEL_FIRST"],
        }, cls=cls)
        if sub:
            op.fields["sub_op_type"] = sub
        return op

    def arch_obj():
        return AObj("arch", {"ofm_block_max": AObj("ofm_block_max", {"width": 64, "height": 32, "depth": 128}), "ofm_ublock": AObj("ofm_ublock", {"width": 2, "height": 2, "depth": 8})})

    stubs = {"try_block_config", "to_kernel", "from_npu_accelerator", "shape3d_to_block"}
    itg = Interp(repo, gen, stubs=stubs)
    ita = Interp(repo, api, stubs=stubs, externs={})
    ita.construct = {"Block"}
    itg.construct = {"Block"}
    ita.externs["create_default_arch"] = lambda i, a, k, n: arch_obj()
    argn = ["block_config", "arch", "npu_op_type", "ofm_shape", "ifm_shape", "ifm2_shape", "uses_scalar", "ifm_bits", "is_partkernel", "kernel", "lut_banks", "scaled", "ifm_resampling"]
    compare = ["npu_op_type", "uses_scalar", "ifm_bits", "is_partkernel", "lut_banks", "scaled", "ifm_resampling"]
    n = 0
    cases = []
    for cls, sub in (("NpuConv2DOperation", None), ("NpuConvDepthWiseOperation", None), ("NpuPoolingOperation", pool["MAX"]), ("NpuPoolingOperation", pool["REDUCE_SUM"]),
                     ("NpuElementWiseOperation", None)):
        for ifm2 in ((False, True) if cls == "NpuElementWiseOperation" else (False,)):
            for quant in (("q", "q", "q"), ("none", "q", "q"), ("q", "q", "none"), ("q", "none", "q")):
                if quant[1] == "none" and not ifm2:
                    continue
                for act in (None, "NONE_OR_RELU", "TABLE_LOOKUP"):
                    for dt in ("INT8", "INT16"):
                        cases.append((cls, sub, ifm2, quant, act, ifm2 and False, dt))
    cases.append(("NpuElementWiseOperation", None, True, ("q", "q", "q"), None, True, "INT8"))
    for cls, sub, ifm2, quant, act, scalar, dt in cases:
        def mka():
            return [mkop(cls, ifm2, quant, act, scalar, dt, sub), Unknown("accelerator")], {}

        def mkg():
            op = mkop(cls, ifm2, quant, act, scalar, dt, sub)
            return [op, op.fields["block_traversal"] if cls == "NpuConv2DOperation" else trav["DEPTH_FIRST"], arch_obj()], {}

        def grab(paths):
            out = []
            for p in paths:
                for name, args, kwargs, _ in p.calls:
                    if name == "try_block_config":
                        d = dict(zip(argn, args))
                        d.update(kwargs)
                        out.append({k: _show(d.get(k)) for k in compare})
            return out

        ga = grab(ita.run("npu_find_block_configs", mka))
        gg = grab(itg.run("get_arch_block_config", mkg))
        tag = f"{cls}{'/' + sub.name if sub else ''} ifm2={ifm2} quant={quant} act={act} {dt}"
        if not ga or not gg:
            rep.bad("C15-d", f"{API}:npu_find_block_configs", tag, f"try_block_config not reached (query {len(ga)} calls, generator {len(gg)} calls)")
            continue
        n += 1
        a0, g0 = ga[0], gg[0]
        diff = {k: (a0[k], g0[k]) for k in compare if a0[k] != g0[k]}
        rep.check(not diff, "C15-d", f"{API}:npu_find_block_configs / {GEN}:get_arch_block_config", f"same try_block_config arguments for {tag}",
                  f"(query, generator) differ in {diff}: a block the query offers is validated differently by the generator")
    # reviewed difference (frozen): scale_f32 is None counts as unscaled in the generator only; the query then uses the larger (40-bit) accumulator,
    # which can only reject more blocks, never offer one the generator refuses
    rep.floor("C15-d", 60)


def _show(v):
    if isinstance(v, EnumMember):
        return f"{v.cls.name}.{v.name}"
    if isinstance(v, Unknown):
        return v.text
    if isinstance(v, AObj):
        return v.name
    return repr(v)


# ------------------------------------------------------------------ e


def rule_roles(repo, rep, aa):
    rc = RoleChecker()
    n = 0
    for fn in ("_get_ifm_blocksize", "get_ifm_area_required", "fit_block_for_ofm"):
        f = aa.func(fn)
        for kind, txt, detail in rc.check_function(f):
            n += 1
            (rep.bad if kind == "bad" else rep.ok)("C15-e", f"{AA}:{fn}", txt, detail)
        # _required_size(value, stride, border, ...) call sites: the three geometric arguments share an axis
        for call in calls_in(f, "_required_size"):
            axes = []
            for a in call.args[:3]:
                axes += [x for x, _ in rc.axes(a)]
            n += 1
            rep.check(len(set(axes)) == 1 and len(axes) >= 3, "C15-e", f"{AA}:{fn}", f"{norm(call)[:110]}", f"extent, stride and kernel border come from different axes: {axes}")
        # results h1/w1 land in the height/width they were computed for
        for s in ast.walk(f):
            if isinstance(s, ast.Assign) and norm(s.targets[0]) in ("height", "width"):
                want = "h" if norm(s.targets[0]) == "height" else "w"
                names = {x.id for x in ast.walk(s.value) if isinstance(x, ast.Name) and x.id[:1] in ("h", "w") and x.id[1:].isdigit()}
                n += 1
                rep.check(all(nm[0] == want for nm in names) and names, "C15-e", f"{AA}:{fn}", norm(s), "height/width computed from the other axis' intermediate")
    f = aa.func("_get_ifm_blocksize")
    rep.check(norm(f.body[-1]) == "return Shape4D(1, height, width, ofm_block.depth)", "C15-e", f"{AA}:_get_ifm_blocksize", "IFM block = Shape4D(1, height, width, depth)", norm(f.body[-1]))
    # axis-named parameters receive values of their axis at every call (kernel strides / dilations of the shared to_kernel helper included)
    from .shared import call_axis_agreement

    call_axis_agreement(repo, rep, "C15-e")
    # tables keyed by an enum member mirror the key in the index they read: {K: table[K]}
    af = repo.mod("architecture_features")
    for d in [x for x in ast.walk(af.tree) if isinstance(x, ast.Dict)]:
        for k, v in zip(d.keys, d.values):
            if isinstance(k, ast.Attribute) and isinstance(v, ast.Subscript) and isinstance(v.slice, ast.Attribute) and norm(k.value) == norm(v.slice.value):
                fnn = af.enclosing_function(d)
                rep.check(norm(k) == norm(v.slice), "C15-c", f"ethosu/vela/architecture_features.py:{af.qualname_of(fnn) if fnn else '<module>'}", f"granule table entry {norm(k)} reads {norm(v.value)}[{norm(k)}]",
                          f"reads {norm(v)}: the {norm(k)} partition is rounded to another element type's bank granule")
    rep.floor("C15-e", 40)


def rule_round4(repo, rep):
    """Scheduler and command-stream generator agree on what a scalar second operand is; IFM extent rounding [shared with C10-d]."""
    # The generator validates the scheduler's block with uses_scalar = (ifm2_scalar is not None), and ifm2_scalar is set iff
    # the tensor's shape is [] (rank 0). The scheduler chose the block with its own uses_scalar: it has to be the same
    # predicate, otherwise the block was sized without an IFM2 partition that the generator then asks for (a [1,1,1,1]
    # operand is a broadcast feature map in SHRAM, not a register scalar).
    hl = repo.mod("high_level_command_to_npu_op")
    ce = hl.func("create_npu_elementwise_op")
    sc = [st for st in ast.walk(ce) if isinstance(st, ast.Assign) and str(norm(st.targets[0])) == "npu_op.ifm2_scalar"]
    if len(sc) != 1:
        raise AnalysisError("create_npu_elementwise_op: assignment of npu_op.ifm2_scalar not found")
    guard = [i_ for i_ in ast.walk(ce) if isinstance(i_, ast.If) and any(x is sc[0] for x in i_.body)]
    gtxt = str(norm(guard[0].test)) if guard else ""
    rep.check(gtxt in ("cmd.ifm2_tensor.shape == []", "[] == cmd.ifm2_tensor.shape"), "C15-d", "ethosu/vela/high_level_command_to_npu_op.py:create_npu_elementwise_op",
              "ifm2_scalar is set iff the second operand has rank 0 (shape == [])", gtxt)
    so = repo.mod("scheduler").func("SchedulerOperation.__init__")
    us = [st for st in ast.walk(so) if isinstance(st, ast.Assign) and str(norm(st.targets[0])) == "self.uses_scalar"]
    if len(us) != 1:
        raise AnalysisError("SchedulerOperation.__init__: uses_scalar not found")
    tests = [c_ for c_ in ast.walk(us[0].value) if isinstance(c_, ast.Compare) and not (len(c_.ops) == 1 and isinstance(c_.ops[0], (ast.Is, ast.IsNot)))]
    attrs = [a_ for a_ in ast.walk(us[0].value) if isinstance(a_, ast.Call)]
    ok = bool(tests) and all(len(c_.ops) == 1 and isinstance(c_.ops[0], ast.Eq) and {str(norm(c_.left)).rsplit(".", 1)[-1], str(norm(c_.comparators[0]))} == {"shape", "[]"} for c_ in tests) and not attrs
    rep.check(ok, "C15-d", "ethosu/vela/scheduler.py:SchedulerOperation.__init__", "the scheduler's uses_scalar is the generator's predicate: an operand of rank 0 (shape == [])",
              f"`{str(norm(us[0].value))[:110]}`: a one-element tensor of rank > 0 is treated as a scalar when the block is chosen, but the generator emits it as a broadcast IFM2 and "
              "re-validates the block with uses_scalar = False (IFM2 partition missing: assertion in get_arch_block_config)")
    from . import c10

    rep.run_borrowed(c10, {"C10-d": "C15-e"}, repo)
    from . import c04 as _c04, c14 as _c14

    rep.run_borrowed(_c14, {"C14-a": "C15-a"}, repo, only_sites=("_estimate_conv_cycles", "accelerator_configs"))
    rep.run_borrowed(_c04, {"C04-f'": "C15-e"}, repo, only_sites=("get_first_job_input_volume",))


HW_TABLE = {
    # accelerator: (macs, cores, ofm_ublock (w,h,d), ifm_ublock (w,h,d), shram banks, granules [IFM8, IFM16, IFM8_EW, IFM16_EW, IFM32, Acc16, Acc32, Acc40], elem units)
    "Accelerator.Ethos_U65_512": (256, 2, (2, 2, 8), (2, 2, 8), 48, [8, 8, 8, 8, 16, 8, 16, 20], 8),
    "Accelerator.Ethos_U65_256": (256, 1, (2, 2, 8), (2, 2, 8), 48, [8, 8, 8, 8, 16, 8, 16, 20], 8),
    "Accelerator.Ethos_U55_256": (256, 1, (2, 2, 8), (2, 2, 8), 48, [8, 8, 8, 8, 16, 8, 16, 20], 8),
    "Accelerator.Ethos_U55_128": (128, 1, (2, 1, 8), (2, 1, 8), 24, [4, 4, 4, 4, 8, 4, 8, 12], 4),
    "Accelerator.Ethos_U55_64": (64, 1, (1, 1, 8), (1, 1, 8), 16, [2, 2, 2, 2, 4, 4, 4, 8], 2),
    "Accelerator.Ethos_U55_32": (32, 1, (1, 1, 4), (1, 1, 8), 16, [2, 2, 2, 2, 4, 4, 4, 4], 1),
}
HW_BLOCK_MAX = (64, 32, 128)  # (w, h, d)


def rule_hw_constants(repo, rep):
    """Hardware constants of the six accelerators (micro-blocks, bank counts, bank granules per element kind) and the maximum OFM
    block: frozen from the Ethos-U55 / U65 technical reference values the tree was confirmed with. They are stated once in the
    code, every sizing function agrees with whatever they say, and no test pins them: a changed entry silently mis-sizes every
    SHRAM partition of that accelerator."""
    from ..tables import namedtuple_fields

    af = repo.mod("architecture_features")
    cfgs = af.class_assigns("ArchitectureFeatures").get("accelerator_configs")
    if not isinstance(cfgs, ast.Dict):
        raise AnalysisError("accelerator_configs not recognised")
    site = "ethosu/vela/architecture_features.py:ArchitectureFeatures.accelerator_configs"
    seen = 0
    for k, v in zip(cfgs.keys, cfgs.values):
        key = str(norm(k))
        if key not in HW_TABLE:
            rep.info("C15-c", site, f"row {key}", "accelerator not in the frozen table (new hardware): not compared")
            continue
        if not (isinstance(v, ast.Call) and len(v.args) == 7):
            raise AnalysisError(f"accelerator row {key} not recognised")
        seen += 1

        def blk(e):
            return tuple(try_fold(a) for a in e.args) if isinstance(e, ast.Call) and call_name(e) == "Block" else None

        got = (try_fold(v.args[0]), try_fold(v.args[1]), blk(v.args[2]), blk(v.args[3]), try_fold(v.args[4]), try_fold(v.args[5]), try_fold(v.args[6]))
        want = HW_TABLE[key]
        names = ("macs", "cores", "ofm_ublock", "ifm_ublock", "shram_banks", "shram_granules", "elem_units")
        diff = [f"{nm}: {g} (hardware: {w})" for nm, g, w in zip(names, got, want) if (list(g) if isinstance(g, (list, tuple)) else g) != (list(w) if isinstance(w, (list, tuple)) else w)]
        rep.check(not diff, "C15-c", site, f"{key}: micro-blocks, bank count, bank granules and element units are the hardware's", "; ".join(diff))
    if seen < 6:
        raise AnalysisError(f"accelerator rows: only {seen} of the six known accelerators found")
    init = af.func("ArchitectureFeatures.__init__")
    # SHRAM constants derived in __init__: evaluated for the three bank counts of the table. The last two banks are reserved (for the
    # activation LUT) exactly on configurations with more than 16 banks; on the others the LUT shares banks with the accumulators, which
    # is what the hazard tracking (C04) and the block configuration search key on
    import copy as _copy

    class _Subst(ast.NodeTransformer):
        def __init__(self, env):
            self.env = env

        def visit_Attribute(self, node):
            t = str(norm(node))
            if t in self.env:
                return ast.copy_location(ast.Constant(value=self.env[t]), node)
            return self.generic_visit(node)

    def ev(e, env):
        v = try_fold(_Subst(env).visit(_copy.deepcopy(e)))
        return v

    assigns = {str(norm(st.targets[0])): st.value for st in ast.walk(init) if isinstance(st, ast.Assign) and len(st.targets) == 1}
    need = ("self.shram", "self.shram_bank_size", "self.shram_reserved_output_banks", "self.shram_reserved_unused_banks", "self.shram_total_banks", "self.shram_lut_size")
    if any(k not in assigns for k in need):
        raise AnalysisError(f"ArchitectureFeatures.__init__: SHRAM constants {[k for k in need if k not in assigns]} not found")
    fields = namedtuple_fields(af.assign("SHRAMConfig"))
    if not fields:
        raise AnalysisError("SHRAMConfig namedtuple not recognised")
    for banks in (16, 24, 48):
        env = {"accel_config.shram_banks": banks}
        sc = assigns["self.shram"]
        if not (isinstance(sc, ast.Call) and call_name(sc) == "SHRAMConfig" and len(sc.args) == len(fields)):
            raise AnalysisError("self.shram = SHRAMConfig(...) not recognised")
        for f_, a_ in zip(fields, sc.args):
            env[f"self.shram.{f_}"] = ev(a_, env)
        for k in ("self.shram_bank_size", "self.shram_reserved_output_banks", "self.shram_reserved_unused_banks", "self.shram_total_banks", "self.shram_lut_size"):
            env[k] = ev(assigns[k], env)
        unused = 2 if banks > 16 else 0
        want = {"self.shram.reserved_output_banks": 2, "self.shram.bank_size_bytes": 1024, "self.shram.total_banks": banks, "self.shram.reserved_end_banks": unused, "self.shram_bank_size": 1024,
                "self.shram_reserved_output_banks": 2, "self.shram_reserved_unused_banks": unused, "self.shram_total_banks": banks - unused, "self.shram_lut_size": 2048}
        # available_shram_banks(uses_lut): the LUT occupies the last two banks of the accelerator, reserved or not
        from ..absint import AObj as _AObj, Interp as _Interp

        fields_ = {k[len("self."):]: v for k, v in env.items() if k.startswith("self.") and "." not in k[len("self."):] and isinstance(v, int)}
        for a_ in ast.walk(init):
            if isinstance(a_, ast.Assign) and len(a_.targets) == 1 and str(norm(a_.targets[0])).startswith("self.shram_reserved_") and str(norm(a_.targets[0]))[5:] not in fields_:
                v_ = ev(a_.value, env)
                if isinstance(v_, int):
                    fields_[str(norm(a_.targets[0]))[5:]] = v_
        for lut_, exp_ in ((True, banks - 2), (False, banks - unused)):
            ps_ = [p_ for p_ in _Interp(repo, af).run("ArchitectureFeatures.available_shram_banks", lambda: ([_AObj("self", dict(fields_), cls="ArchitectureFeatures"), lut_], {})) if p_.kind == "return"]
            if len(ps_) != 1 or not isinstance(ps_[0].value, int):
                raise AnalysisError(f"available_shram_banks({lut_}) not evaluable for {banks} banks")
            env[f"available_shram_banks({lut_})"] = ps_[0].value
            want_extra = exp_
            if ps_[0].value != want_extra:
                rep.bad("C15-c", "ethosu/vela/architecture_features.py:ArchitectureFeatures.available_shram_banks", f"{banks} banks: available_shram_banks({lut_}) = {ps_[0].value} (hardware: {want_extra})",
                        "the LUT address (bank size x available banks) falls inside the accumulator partition of the layout that the allocator builds up to `lut_start`: the partitions overlap")
            else:
                rep.ok("C15-c", "ethosu/vela/architecture_features.py:ArchitectureFeatures.available_shram_banks", f"{banks} banks: available_shram_banks({lut_}) = {want_extra}")
        diff = [f"{k} = {env.get(k)} (hardware: {w})" for k, w in want.items() if env.get(k) != w]
        rep.check(not diff, "C15-c", "ethosu/vela/architecture_features.py:ArchitectureFeatures.__init__", f"SHRAM constants for {banks} banks: 2 output banks, 1 KiB banks, {unused} banks reserved at the end, 2 KiB LUT",
                  "; ".join(diff) + ": with banks wrongly taken as reserved the LUT area is left out of the SHRAM extents that hazards are tracked on and of the bank budget of the block configuration search")
    bm = [st for st in ast.walk(init) if isinstance(st, ast.Assign) and str(norm(st.targets[0])) == "self.ofm_block_max"]
    if len(bm) != 1 or not (isinstance(bm[0].value, ast.Call) and call_name(bm[0].value) == "Block"):
        raise AnalysisError("ofm_block_max not recognised")
    call = bm[0].value
    order = [a.arg for a in af.func("Block.__init__").args.args[1:4]]
    vals = dict(zip(order, [try_fold(a) for a in call.args]))
    vals.update({k_.arg: try_fold(k_.value) for k_ in call.keywords})
    got = (vals.get("w"), vals.get("h"), vals.get("d"))
    rep.check(got == HW_BLOCK_MAX, "C15-c", "ethosu/vela/architecture_features.py:ArchitectureFeatures.__init__", "the maximum OFM block is 64 wide, 32 high, 128 deep (Block takes w, h, d)",
              f"ofm_block_max = (w, h, d) {got}: search, public query and validity check all read this value, so blocks beyond the hardware maximum are offered, selected and programmed")


def rule_conv1d_halving(repo, rep):
    """(g) fit_block_for_ofm may shrink the block to one row - which halves the accumulator partition - only for the Conv1D case of the
    256 / 512 MAC parts: a one-row OFM *and* a one-row kernel on a 2-row micro-block. With a taller kernel the hardware still accumulates a
    2-row block (OFM_BLK_HEIGHT stays 2) and the partition sized for one row is too small."""
    aa = repo.mod("architecture_allocator")
    f = aa.func("fit_block_for_ofm")
    site = "ethosu/vela/architecture_allocator.py:fit_block_for_ofm"
    ifs = [i for i in ast.walk(f) if isinstance(i, ast.If) and "ofm_ublock.height" in str(norm(i.test)) and any(isinstance(x, ast.Return) for x in i.body)]
    if len(ifs) != 1:
        raise AnalysisError(f"fit_block_for_ofm: {len(ifs)} Conv1D special cases")
    cj = {str(comparison(c)) if comparison(c) is not None else str(norm(c)) for c in conjuncts(ifs[0].test)}
    texts = " ; ".join(sorted(str(norm(c)) for c in conjuncts(ifs[0].test)))
    need = ("ofm_shape.height", "kernel.height", "ofm_ublock.height")
    rep.check(all(any(nm in str(norm(c)) for c in conjuncts(ifs[0].test)) for nm in need), "C15-g", site, "the one-row block (halved accumulators) needs OFM height 1, kernel height 1 and a 2-row micro-block",
              f"condition: {texts}: a one-row OFM under a taller kernel (3x3 VALID on 3 rows) gets AB_START 30 where a 2-row block needs 32 banks")


def rule_round8(repo, rep):
    """(h) the block configuration that is emitted (pass.block_config) is the one of the schedule finally applied: apply_schedule stores
    `op_info.block_config` of the chosen schedule in the pass of every operator - every proposal overwrites the same field while the
    search runs, so without it the pass keeps the block of the *last proposal*. (i) `_ifm_blockdepth` interpreted for 8 / 16 / 32-bit
    IFMs: 16 bits are the only case with the 16-deep block. (j) positional arguments of find_block_config that are named like one of its
    parameters sit at that parameter's position (lut_banks / scaled are adjacent ints / bools)."""
    from ..absint import AObj, Interp
    from .shared import swapped_argument_lint

    sch = repo.mod("scheduler")
    f = sch.func("Scheduler.apply_schedule")
    site = "ethosu/vela/scheduler.py:Scheduler.apply_schedule"
    loops = [l for l in ast.walk(f) if isinstance(l, ast.For) and str(norm(l.iter)) == "self.sched_ops"]
    if not loops:
        raise AnalysisError("apply_schedule: loop over the scheduled operators not found")
    st = [a for a in loops[0].body if isinstance(a, ast.Assign) and str(norm(a.targets[0])).endswith(".parent_ps.block_config")]
    ok = len(st) == 1 and "op_info.block_config" in str(norm(st[0].value)) and any(isinstance(a, ast.Assign) and str(norm(a.targets[0])) == "op_info" and "cost_map[" in str(norm(a.value)) and str(norm(a.value)).startswith("sched.") for a in loops[0].body)
    rep.check(ok, "C15-h", site, "every operator's pass takes the block configuration of the applied schedule (`parent_ps.block_config = op_info.block_config..` with op_info = sched.cost_map[sched_op])",
              "the pass keeps whatever the last proposal stored: a 1-row-stripe block found with the 1-D accumulator optimisation is emitted for the taller operation: 'block_config 2x50x64 does not fit' on the 256 / 512-MAC parts, silently different blocks elsewhere")
    aa = repo.mod("architecture_allocator")
    it = Interp(repo, aa, externs={"round_up": lambda i, a, k, n: -(-a[0] // a[1]) * a[1] if all(isinstance(x, int) for x in a) else None})
    wrong = []
    pts = 0
    for bits in (8, 16, 32):
        for depth in (1, 4, 8, 16, 17, 24, 32, 40, 64):
            for pk in (False, True):
                arch = AObj("arch", {"ifm_ublock": AObj("ub", {"depth": 8}, cls="Block")}, cls="ArchitectureFeatures")
                shape = AObj("shape", {"depth": depth}, cls="Shape4D")
                ps = [p_ for p_ in it.run("_ifm_blockdepth", lambda arch=arch, shape=shape, bits=bits, pk=pk: ([arch, shape, bits, pk], {})) if p_.kind == "return"]
                if len(ps) != 1 or not isinstance(ps[0].value, int):
                    raise AnalysisError(f"_ifm_blockdepth not evaluable for {bits} bits, depth {depth}: {[(p_.kind, p_.value) for p_ in ps][:2]}")
                want = -(-min(depth, 16) // 4) * 4 if bits == 16 else -(-min(depth, 16 if pk else 32) // 8) * 8
                pts += 1
                if ps[0].value != want:
                    wrong.append((bits, depth, pk, ps[0].value, want))
    rep.check(not wrong, "C15-i", "ethosu/vela/architecture_allocator.py:_ifm_blockdepth", f"IFM block depth: 16-bit -> round_up(min(d, 16), 4); 8- and 32-bit -> round_up(min(d, 16 | 32), ublock) ({pts} points)",
              (f"{wrong[0][0]}-bit IFM of depth {wrong[0][1]} (part-kernel {wrong[0][2]}): {wrong[0][3]}, the hardware reads {wrong[0][4]} channels per block: an INT32 REDUCE_SUM gets an IFM partition sized for half its block") if wrong else "")
    if swapped_argument_lint(repo, rep, "C15-j", ["scheduler", "api", "register_command_stream_generator"], strict=True) < 3:
        raise AnalysisError("fewer than 3 calls with parameter-named arguments in the block configuration clients")


def rule_scaled_operands(repo, rep):
    """(m) `_acc_type(.., scaled)` chooses 40-bit accumulators for a scaled 16-bit operation. `scaled` is derived three times:
    Operation.has_scaling (scheduler), api.npu_find_block_configs (query) and generate_block_config's caller in the generator. Each
    derivation tests `quantization is None` over a collection of operands; the collections are resolved (list display, list + append,
    or a `get_*` accessor of Operation whose return lists members) and must be the feature maps {ifm, ifm2, ofm} in all three - a
    synthesised zero bias has no quantisation."""
    opm = repo.mod("operation")

    def accessor_members(name):
        fn = opm.func(f"Operation.{name}")
        if fn is None:
            return None
        rets = [r for r in ast.walk(fn) if isinstance(r, ast.Return) and r.value is not None]
        if len(rets) != 1 or not isinstance(rets[0].value, (ast.Tuple, ast.List)):
            return None
        return {e.attr for e in rets[0].value.elts if isinstance(e, ast.Attribute)} | {"?" for e in rets[0].value.elts if not isinstance(e, ast.Attribute)}

    def operands(fn, coll):
        """attribute names of the elements of collection expression `coll` inside fn"""
        if isinstance(coll, (ast.List, ast.Tuple)):
            return {e.attr if isinstance(e, ast.Attribute) else "?" for e in coll.elts}
        if isinstance(coll, ast.Call) and isinstance(coll.func, ast.Attribute) and not coll.args:
            return accessor_members(coll.func.attr)
        if isinstance(coll, ast.Name):
            out = set()
            for st in ast.walk(fn):
                if isinstance(st, ast.Assign) and any(isinstance(t, ast.Name) and t.id == coll.id for t in st.targets):
                    sub = operands(fn, st.value)
                    if sub is None:
                        return None
                    out |= sub
                if isinstance(st, ast.Call) and isinstance(st.func, ast.Attribute) and st.func.attr == "append" and str(norm(st.func.value)) == coll.id and st.args:
                    out.add(st.args[0].attr if isinstance(st.args[0], ast.Attribute) else "?")
            return out or None
        return None

    def derivation(mname, q):
        m = repo.mod(mname)
        fn = m.func(q)
        if fn is None:
            raise AnalysisError(f"{mname}.{q} not found")
        for node in ast.walk(fn):
            gens = []
            if isinstance(node, ast.For):
                gens = [(node.iter, node.body)]
            elif isinstance(node, (ast.GeneratorExp, ast.ListComp)):
                gens = [(g.iter, [node.elt]) for g in node.generators]
            for it_, body in gens:
                txt = " ".join(str(norm(b)) for b in body)
                if "quantization is None" in txt:
                    return fn, it_
        raise AnalysisError(f"{mname}.{q}: no loop testing `quantization is None`")

    n = 0
    for mname, q in (("operation", "Operation.has_scaling"), ("api", "npu_find_block_configs"), ("register_command_stream_generator", "generate_block_config")):
        try:
            fn, coll = derivation(mname, q)
        except AnalysisError:
            if mname != "register_command_stream_generator":
                raise
            gm = repo.mod(mname)
            cands = [k for k, f_ in gm.functions.items() if any(isinstance(a, ast.Assign) and str(norm(a.targets[0])) == "all_fms_have_quant" for a in ast.walk(f_))]
            if not cands:
                raise
            fn, coll = derivation(mname, cands[0])
            q = cands[0]
        ops_ = operands(fn, coll)
        if ops_ is None:
            raise AnalysisError(f"{mname}.{q}: operand collection `{norm(coll)}` not resolvable")
        n += 1
        rep.check(ops_ == {"ifm", "ifm2", "ofm"}, "C15-m", f"ethosu/vela/{mname}.py:{q}", f"'scaled' ranges over {sorted(ops_)} (`{norm(coll)[:60]}`)",
                  f"`{norm(coll)[:80]}` ranges over {sorted(ops_)}: an operator without a bias in the model gets a synthesised zero bias without quantisation, counts as unscaled in the scheduler and is "
                  "sized for 32-bit accumulators while the generator programs 40-bit ones ('block_config does not fit')")
    if n < 3:
        raise AnalysisError("fewer than 3 derivations of 'scaled'")
    # (o) the public query and the generator work on the same API objects (NpuFeatureMap.quantization, whose scale_f32 is optional): the
    # per-operand test 'this operand has no scaling' must be the same predicate in both, otherwise the query sizes 40-bit accumulators where
    # the generator programs 32-bit ones (different bank granules) and offers configurations the generator rejects

    def absent_predicates(mname, q):
        m_ = repo.mod(mname)
        fn_ = m_.func(q)
        for node in ast.walk(fn_):
            gens = []
            if isinstance(node, ast.For) and isinstance(node.target, ast.Name):
                gens = [(node.target.id, node.body)]
            elif isinstance(node, (ast.GeneratorExp, ast.ListComp)):
                gens = [(g.target.id, [node.elt]) for g in node.generators if isinstance(g.target, ast.Name)]
            for var, body in gens:
                preds = set()
                for b in body:
                    for c_ in ast.walk(b):
                        if isinstance(c_, ast.Compare) and len(c_.ops) == 1 and isinstance(c_.ops[0], ast.Is) and str(norm(c_.comparators[0])) == "None" and str(norm(c_.left)).startswith(var + "."):
                            preds.add(str(norm(c_.left))[len(var) + 1:])
                if "quantization" in preds:
                    return preds
        raise AnalysisError(f"{mname}.{q}: per-operand scaling test not found")

    gm_ = repo.mod("register_command_stream_generator")
    gq = [k for k, f_ in gm_.functions.items() if any(isinstance(a, ast.Assign) and str(norm(a.targets[0])) == "all_fms_have_quant" for a in ast.walk(f_))]
    if len(gq) != 1:
        raise AnalysisError("generator: the derivation of all_fms_have_quant was not found")
    pg, pq = absent_predicates("register_command_stream_generator", gq[0]), absent_predicates("api", "npu_find_block_configs")
    rep.check(pg == pq, "C15-o", "ethosu/vela/api.py:npu_find_block_configs", f"an operand counts as unscaled under the same test as in the generator: absent {sorted(pg)}",
              f"the query tests {sorted(pq)}, the generator {sorted(pg)}: a 16-bit operation whose operand has NpuQuantization(scale_f32=None) is sized with 40-bit accumulators by the query and 32-bit ones "
              "by the generator (bank granules 12 / 8 on Ethos-U55-128): 12 of the 99 offered configurations are rejected with 'block_config does not fit'")


def rule_shram_register_guards(repo, rep):
    """(n) generate_shram_registers programs the layout try_block_config computed: IB_END, AB_START and ACC_FORMAT unconditionally, IFM2_IB_START
    whenever the operation has a second input in memory or as a scalar (has_ifm2) - the layout reserved the IFM2 partition under exactly that
    condition. A further conjunct leaves the register at its reset value / the previous operation's value."""
    from ..exprnorm import conjuncts as _cj

    m = repo.mod("register_command_stream_generator")
    fn = m.func("generate_shram_registers")
    site = "ethosu/vela/register_command_stream_generator.py:generate_shram_registers"
    seen = {}
    for c in ast.walk(fn):
        if isinstance(c, ast.Call) and (call_name(c) or "").endswith("cmd0_with_param") and c.args:
            reg = str(norm(c.args[0])).split(".")[-1]
            conds = []
            cur = c
            while cur is not fn and cur is not None:
                pp = m.parents.get(cur)
                if isinstance(pp, ast.If):
                    conds += [("" if cur in pp.body else "not ") + str(norm(x)) for x in _cj(pp.test)] if cur in pp.body or cur in pp.orelse else []
                cur = pp
            seen[reg] = conds
    want = {"NPU_SET_IFM_IB_END": [], "NPU_SET_AB_START": [], "NPU_SET_ACC_FORMAT": [], "NPU_SET_IFM2_IB_START": ["has_ifm2(npu_op)"]}
    for reg, w in want.items():
        if reg not in seen:
            rep.bad("C15-n", site, f"{reg} is emitted", "no emission found")
            continue
        rep.check(sorted(seen[reg]) == sorted(w), "C15-n", site, f"{reg} is emitted under {w or 'no condition'}",
                  f"emitted under {seen[reg]}: when the extra condition fails the register keeps its reset value or the previous operation's value while the layout still reserves the partition "
                  "(a 1x1x1 IFM2 in memory: IFM2_IB_START unordered / overlapping)")


def rule_round11(repo, rep):
    """(p) a shape object built for one operand takes all its components from that operand: `<x>_shape = Block(..)` / `Shape4D(..)` whose
    arguments read `npu_op.<y>.shape.*` uses y == x for every component (the query handed try_block_config an OFM shape with the IFM's
    height: the one-row accumulator optimisation was applied to a two-row OFM).
    (q) the IFM2 partition of the SHRAM is dropped only for a true scalar operand: _ew_usage (interpreted, unknown further arguments fork)
    returns Scalar only with uses_scalar, Full for every other elementwise operation, No otherwise."""
    n = 0
    for m in repo.core_modules():
        for q, fn in m.functions.items():
            for st in ast.walk(fn):
                if not (isinstance(st, ast.Assign) and isinstance(st.targets[0], ast.Name) and isinstance(st.value, ast.Call) and (call_name(st.value) or "").split(".")[-1] in ("Block", "Shape4D", "NpuShape3D")):
                    continue
                toks_ = st.targets[0].id.split("_")
                mt = re.match(r"^(ifm2|ifm|ofm)$", toks_[0]) if len(toks_) >= 2 and toks_[1] in ("shape", "block") else None
                if not mt:
                    continue
                stems = set()
                for a in ast.walk(st.value):
                    if isinstance(a, ast.Attribute) and a.attr in ("ifm", "ifm2", "ofm") and isinstance(a.value, ast.Name):
                        stems.add(a.attr)
                if not stems:
                    continue
                n += 1
                rep.check(stems == {mt.group(1)}, "C15-p", f"{m.rel}:{q}", f"`{str(norm(st))[:90]}` takes every component from the {mt.group(1).upper()}",
                          f"components come from {sorted(stems)}: the shape handed on as the {mt.group(1).upper()}'s is a mixture (OFM with the IFM's height: blocks that cannot be double-buffered are offered and the generator rejects them)")
    if n < 3:
        raise AnalysisError(f"operand shape constructions: {n} found")
    from ..absint import AObj, EnumMember, Interp

    aa = repo.mod("architecture_allocator")
    ops_mod = repo.mod("operation")
    cls = ops_mod.cls("NpuBlockType")
    fn = aa.func("_ew_usage")
    site = "ethosu/vela/architecture_allocator.py:_ew_usage"
    it = Interp(repo, aa)
    from ..astutil import enum_members as _em

    ew_names = {v_: k_ for k_, v_ in _em(aa.cls("ElementwiseUsage")).items() if isinstance(v_, int)}
    extra = len(fn.args.args) - 2
    m_ = 0
    for mem, scalar, want in (("ElementWise", True, "Scalar"), ("ElementWise", False, "Full"), ("Pooling", False, "No"), ("ConvolutionMxN", True, "No")):
        em = EnumMember(ops_mod, cls, mem, None)
        ps = [p for p in it.run("_ew_usage", lambda em=em, scalar=scalar: ([em, scalar] + [AObj(f"extra{i}") for i in range(extra)], {})) if p.kind == "return"]
        if not ps:
            raise AnalysisError("_ew_usage: no returning path")
        for p in ps:
            m_ += 1
            got = str(getattr(p.value, "name", p.value)).split(".")[-1]
            got = ew_names.get(p.value, got) if isinstance(p.value, int) else got
            rep.check(got == want, "C15-q", site, f"_ew_usage({mem}, uses_scalar={scalar}) = {want}" + (f" on the path {p.decisions}" if p.decisions else ""),
                      f"returns {got}: an elementwise operation whose IFM2 is a feature map (1x1xC) is laid out without an IFM2 partition - IFM2_IB_START .. IFM_IB_END smaller than the double-buffered block")
    if m_ < 4:
        raise AnalysisError("_ew_usage: grid not evaluated")

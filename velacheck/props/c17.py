"""C17 The driver payload frames the command stream correctly.

Decided by abstract interpretation (bit-provenance domain) of
driver_actions.py: every path of create_driver_payload is enumerated for a
symbolic command-stream list S and a symbolic architecture object, and the
resulting abstract word list is compared with the driver's framing ABI."""
import ast
import math

from ..absint import AFormat, ALen, AList, AObj, APack, BV, Interp, Seg, SymList, Unknown
from ..cfg import cfg_of
from ..astutil import call_name, norm, try_fold, walk_no_nested
from ..core import AnalysisError
from ..tables import bitfields, namedtuple_fields

# Frozen from the Ethos-U core driver ABI (ethosu_driver.c: enum DRIVER_ACTION_e,
# "COP1" magic, COMMAND_STREAM length = reserved << 16 | length). The driver is
# not in this repository; these four numbers are the external oracle.
DA_OPTIMIZER_CONFIG = 1
DA_COMMAND_STREAM = 2
DA_NOP = 5
FOURCC = int.from_bytes(b"COP1", "little")
SITE = "ethosu/vela/driver_actions.py"


def _tag_id(v, path):
    if isinstance(v, int):
        return v & 0xFF
    if isinstance(v, BV):
        v = path.refine(v)
        f = v.field(0, 8)
        if all(b in (0, 1) for b in f):
            return sum(b << i for i, b in enumerate(f))
    return None


def _check_header(rep, rule, site, word, path, lensym):
    """word must decode (driver view) to the full length: bits16..31 = L[0..15],
    bits 8..15 = L[16..23], and L must be known < 2^24 on this path."""
    if not isinstance(word, BV):
        rep.bad(rule, site, "command-stream header word", f"header is not a packed integer: {word!r}")
        return
    w = path.refine(word)
    ok_id = _tag_id(w, path) == DA_COMMAND_STREAM
    rep.check(ok_id, rule, site, "header tag id == COMMAND_STREAM(2)", f"tag byte is {w.field(0, 8)}")
    want = [("s", lensym, i) for i in range(16)]
    rep.check(list(w.field(16, 16)) == want, rule, site, "header bits 16..31 carry length[0..15]", f"got {w!r}")
    want_hi = [("s", lensym, 16 + i) for i in range(8)]
    rep.check(list(w.field(8, 8)) == want_hi, rule, site, "header bits 8..15 carry length[16..23]", f"got {w!r}")
    rep.check(all(b == 0 for b in w.bits[32:]), rule, site, "header fits 32 bits", f"got {w!r}")
    ub = path.upper.get(lensym)
    rep.check(
        ub is not None and ub < (1 << 24),
        rule,
        site,
        "length guard: declared length < 2^24 on every path that emits a header",
        f"on the emitting path the stream length is only known to be <= {ub}; the 24-bit length field cannot hold it",
    )


def m_parent_stmt(mod, node):
    cur = node
    while cur is not None and not isinstance(cur, ast.stmt):
        cur = mod.parents.get(cur)
    return cur if cur is not None else node


def rule_stateless(repo, rep, mod):
    from ..astutil import call_name

    # g: the payload builder keeps no state between calls
    rep.clause("C17-g", "driver_actions keeps no module-level mutable state: the payload depends only on the (stream, arch) of the call")
    mut = {}
    for st in mod.tree.body:
        if isinstance(st, (ast.Assign, ast.AnnAssign)):
            tg = st.targets[0] if isinstance(st, ast.Assign) else st.target
            v = st.value
            if isinstance(tg, ast.Name) and v is not None and (isinstance(v, (ast.Dict, ast.List, ast.Set, ast.DictComp, ast.ListComp, ast.SetComp)) or
                                                             (isinstance(v, ast.Call) and call_name(v) in ("dict", "list", "set", "defaultdict", "collections.defaultdict", "OrderedDict"))):
                mut[tg.id] = st
    n_fn = 0
    for q, fn in mod.functions.items():
        n_fn += 1
        bad = []
        for n_ in ast.walk(fn):
            if isinstance(n_, ast.Global):
                bad.append(f"global {', '.join(n_.names)}")
            if isinstance(n_, (ast.Subscript, ast.Attribute)) and isinstance(n_.ctx, (ast.Store, ast.Del)) and isinstance(n_.value, ast.Name) and n_.value.id in mut:
                bad.append(norm(n_))
            if isinstance(n_, ast.Call) and isinstance(n_.func, ast.Attribute) and isinstance(n_.func.value, ast.Name) and n_.func.value.id in mut and \
                    n_.func.attr in ("append", "extend", "update", "setdefault", "add", "pop", "clear", "insert", "remove", "popitem", "__setitem__"):
                bad.append(norm(n_)[:60])
            if isinstance(n_, ast.FunctionDef) and any("cache" in norm(d) for d in n_.decorator_list):
                bad.append(f"memoised: @{norm(n_.decorator_list[0])}")
        rep.check(not bad, "C17-g", f"{SITE}:{q}", "writes no module-level container, declares no global, is not memoised", "; ".join(bad) + ": a later payload can reuse words computed for another accelerator")
    rep.floor("C17-g", 8)



def run(repo, rep):
    mod = repo.mod("driver_actions")
    rep.clause("C17-a", "length field masks/shifts, 24-bit guard and tag layout are mutually consistent on every path of create_driver_payload")
    rep.clause("C17-b", "command words start at a 16-byte boundary for every residue of the header position")
    rep.clause("C17-c", "the words follow the header unmodified, packed little-endian as uint32, nothing after them")
    rep.clause("C17-d", "COP1 magic first; config action sets every non-reserved field of config_r; id word from ARCH_VER")
    rep.clause("C17-e", "product / MACs / SHRAM values for each of the accelerator rows fit and match")
    rep.assume("struct.pack and list.append/extend behave as documented; Python asserts are enabled")
    rep.assume("driver action ids (1,2,5), the COP1 magic and the reserved<<16|length decoding are frozen from the Ethos-U core driver ABI")

    rule_stateless(repo, rep, mod)
    rep.clause("C17-p", "every Ethos-U custom operator is wired to the memory tensors (command stream included) of its own callee subgraph, read in the same iteration")
    rep.clause("C17-q", "a tensor's data is written to the buffer the tensor table names for it; buffers are shared only under a key that covers the whole data")
    rule_round10(repo, rep)
    rep.clause("C17-r", "every stream is framed, the empty one included: the command-stream action and the copy of the words dominate the return of create_driver_payload")
    rep.clause("C17-s", "the writer's tensor table is keyed by tensor objects: a model tensor named like a generated command stream tensor cannot replace it")
    rule_round11(repo, rep)
    rep.clause("C17-l", "the size guard rejects exactly the lengths that do not fit 24 bits; the empty stream is accepted")
    rule_length_guard_exact(repo, rep, mod)
    rep.clause("C17-m", "buffers are 16-byte aligned in the written file (Prep(16)), so that the payload's own 16-byte alignment of the command words holds in the file")
    rep.clause("C17-n", "the fields of the configuration word (product flag, MACs per cycle, SHRAM size, core count) have one writer: ArchitectureFeatures.__init__, from the accelerator configuration; no subclass hook or later pass re-assigns them")
    rep.clause("C17-o", "every CPU subgraph has its Ethos-U call operators rewritten (command stream as the first operand): the driver applies rewrite_npu_call_ops to each CPU subgraph of the graph, not to the root alone")
    rule_round9(repo, rep)
    rule_file_alignment(repo, rep)
    externs = {}
    it = Interp(repo, mod, externs)

    # ---------------- a, c, d: whole-function paths with symbolic S and arch
    def mk():
        return [SymList("S"), AObj("arch")], {}

    site = SITE + ":create_driver_payload"
    # "contains those words unmodified": the caller's word list is only read (the compiler keeps using it for the
    # statistics and the public API may be called again with the same list)
    cdp = mod.func("create_driver_payload")
    pname = cdp.args.args[0].arg
    writes = []
    for x in ast.walk(cdp):
        if isinstance(x, (ast.Subscript, ast.Attribute)) and isinstance(x.ctx, (ast.Store, ast.Del)) and isinstance(x.value, ast.Name) and x.value.id == pname:
            writes.append(str(norm(m_parent_stmt(mod, x))))
        if isinstance(x, ast.AugAssign) and isinstance(x.target, ast.Name) and x.target.id == pname:
            writes.append(str(norm(x)))
        if isinstance(x, ast.Call) and isinstance(x.func, ast.Attribute) and isinstance(x.func.value, ast.Name) and x.func.value.id == pname and \
                x.func.attr in ("append", "extend", "insert", "pop", "remove", "clear", "sort", "reverse", "__setitem__", "__delitem__"):
            writes.append(str(norm(x)))
    rep.check(not writes, "C17-c", site, f"the caller's word list `{pname}` is only read", f"{writes[:2]}: the command stream the caller holds is changed by building the payload "
              "(a second payload built from it, or the words reported afterwards, are no longer the generated stream)")
    # chunked packing, if any, covers the whole list
    cdp_ = repo.mod("driver_actions").func("create_driver_payload")
    for rg in [c_ for c_ in ast.walk(cdp_) if isinstance(c_, ast.Call) and call_name(c_) == "range" and any("len(" in str(norm(a_)) for a_ in c_.args)]:
        stop = rg.args[1] if len(rg.args) >= 2 else rg.args[0]
        rep.check(isinstance(stop, ast.Call) and call_name(stop) == "len", "C17-c", "ethosu/vela/driver_actions.py:create_driver_payload", f"`{str(norm(rg))}` runs to the end of the list",
                  f"the bound is `{str(norm(stop))}`: for some lengths the last words are not packed although the header declares them")
    paths = it.run("create_driver_payload", mk)
    lensym = "len(S)"
    n_ret = 0
    raised_vela = False
    for p in paths:
        if p.kind == "raise":
            nm = p.value.name if isinstance(p.value, AObj) else str(p.value)
            guard = [t for t, d in p.decisions if lensym in t]
            if guard:
                raised_vela = raised_vela or nm == "VelaError"
                rep.check(nm == "VelaError", "C17-a", site, "oversize stream raises VelaError", f"raises {nm}")
            else:
                rep.bad("C17-a", site, f"unexpected raise {nm}", f"decisions {p.decisions}")
            continue
        n_ret += 1
        v = p.value
        if not isinstance(v, APack):
            rep.bad("C17-c", site, "return value", f"payload is not struct.pack(...): {v!r}")
            continue
        # c: format and arguments
        fmt = v.fmt
        ok_fmt = isinstance(fmt, AFormat) and fmt.template.replace("{0}", "{}") == "<{}I" and len(fmt.args) == 1
        rep.check(ok_fmt, "C17-c", site, "pack format is little-endian '<' + count + 'I'", f"format is {fmt!r}")
        if not (len(v.args) == 1 and isinstance(v.args[0], tuple) and v.args[0][0] == "*" and isinstance(v.args[0][1], AList)):
            rep.bad("C17-c", site, "pack arguments", f"expected *da_list, got {v.args!r}")
            continue
        alist = v.args[0][1]
        items = alist.items
        if ok_fmt:
            cnt = fmt.args[0]
            rep.check(
                isinstance(cnt, ALen) and cnt.alist is alist and len(cnt.items) == len(items),
                "C17-c", site, "pack count is len() of the packed list at pack time", f"count is {cnt!r}",
            )
        segs = [i for i, x in enumerate(items) if isinstance(x, Seg)]
        rep.check(segs == [len(items) - 1] and items[-1].name == "S", "C17-c", site,
                  "command words appended exactly once and last", f"list is {items!r}")
        if not segs:
            continue
        pos = segs[0]
        rep.check(pos % 4 == 0, "C17-b", site, "command words start at a multiple of 4 words (16 bytes)",
                  f"stream starts at word {pos}")
        # d: magic first
        rep.check(items[0] == FOURCC, "C17-d", site, "first word is the COP1 magic", f"first word is {items[0]!r}")
        # walk the actions the way the driver does
        i = 1
        seen_cfg = False
        ok_walk = True
        while i < pos:
            tid = _tag_id(items[i], p)
            if tid == DA_OPTIMIZER_CONFIG:
                seen_cfg = True
                cfgw, idw = items[i + 1 : i + 3] if i + 2 < pos else (None, None)
                rep.check(isinstance(cfgw, Unknown) and cfgw.text == "config_r().word", "C17-d", site,
                          "config action is followed by the config_r word", f"got {cfgw!r}")
                rep.check(isinstance(idw, Unknown) and idw.text == "id_r().word", "C17-d", site,
                          "config word is followed by the id_r word", f"got {idw!r}")
                i += 3
            elif tid == DA_NOP:
                i += 1
            elif tid == DA_COMMAND_STREAM:
                rep.check(i == pos - 1, "C17-a", site, "command-stream header immediately precedes the words",
                          f"header at word {i}, words at {pos}")
                _check_header(rep, "C17-a", site, items[i], p, lensym)
                i += 1
            else:
                rep.bad("C17-d", site, f"driver action at word {i}", f"unknown action word {items[i]!r}")
                ok_walk = False
                break
        if ok_walk:
            rep.check(seen_cfg, "C17-d", site, "an optimizer-config action precedes the command stream", "none found")
            rep.check(_tag_id(items[pos - 1], p) == DA_COMMAND_STREAM, "C17-a", site,
                      "word before the command words is the command-stream header", f"got {items[pos-1]!r}")
        # d: config_r fields set on this path
        fields = [f for f, w, o in bitfields(repo, "config_r") if not f.startswith("reserved")]
        cfg_objs = [o for o in p.objects if o.name == "config_r()"]
        if len(cfg_objs) != 1:
            rep.bad("C17-d", site, "config_r construction", f"{len(cfg_objs)} config_r objects on path")
        else:
            setters = {c[0] for c in cfg_objs[0].calls}
            for f in fields:
                rep.check(f"set_{f}" in setters, "C17-d", site + f" [{'u65' if _is_u65(p) else 'u55'} path]",
                          f"config_r.{f} is set", f"field {f} never set on the path with decisions {p.decisions}")
            prod = [c[1][0] for c in cfg_objs[0].calls if c[0] == "set_product"]
            want = 1 if _is_u65(p) else 0
            rep.check(prod == [want], "C17-d", site, f"product == {want} on the {'U65' if want else 'U55'} path", f"set_product{prod}")
        id_objs = [o for o in p.objects if o.name == "id_r()"]
        if len(id_objs) == 1:
            calls = {c[0]: c[1][0] for c in id_objs[0].calls}
            arch_ver = repo.mod("ethos_u55_regs.ethos_u55_regs").assign("ARCH_VER")
            ver = [int(x) for x in arch_ver.value.split(".")] if isinstance(arch_ver, ast.Constant) else None
            if ver is None or len(ver) != 3:
                raise AnalysisError("ARCH_VER is not a 'a.b.c' literal")
            for nm, want in zip(("arch_major_rev", "arch_minor_rev", "arch_patch_rev"), ver):
                rep.check(calls.get("set_" + nm) == want, "C17-d", site, f"id_r.{nm} == ARCH_VER component {want}",
                          f"set to {calls.get('set_' + nm)!r}")
        else:
            rep.bad("C17-d", site, "id_r construction", f"{len(id_objs)} id_r objects on path")
    rep.check(n_ret >= 1, "C17-c", site, "at least one path returns a payload", "no returning path")
    rep.check(raised_vela, "C17-a", site, "a path guarded by the stream length raises VelaError", "no guarded rejection path")

    # the guard must come before the header emission in program order: implied by
    # the path facts above (the bound is learnt on the path before the header is built)

    # ---------------- b: emit_cmd_stream_header for every residue
    site_b = SITE + ":emit_cmd_stream_header"
    for n in range(12):
        def mk2(n=n):
            return [AList([Unknown(f"w{i}") for i in range(n)], "data"), BV.sym("L")], {}

        ps = it.run("emit_cmd_stream_header", mk2)
        for p in ps:
            if p.kind != "return":
                rep.bad("C17-b", site_b, f"len(data)={n}", "header emission raises")
                continue
            data = p.args[0][0]
            rep.check(len(data.items) % 4 == 0, "C17-b", site_b, f"len(data) % 4 == {n % 4} (n={n}): words after header start 16-byte aligned",
                      f"list has {len(data.items)} words after the header")
            added = data.items[n:]
            rep.check(all(_tag_id(x, p) == DA_NOP for x in added[:-1]) and _tag_id(added[-1], p) == DA_COMMAND_STREAM,
                      "C17-b", site_b, f"n={n}: padding is NOP actions followed by one header", f"added {added!r}")
            rep.check(data.items[:n] == p.args[0][0].items[:n] and all(isinstance(x, Unknown) for x in data.items[:n]),
                      "C17-b", site_b, f"n={n}: existing words untouched", "prefix modified")

    # ---------------- e: per accelerator values
    af = repo.mod("architecture_features")
    cfgs = af.class_assigns("ArchitectureFeatures").get("accelerator_configs")
    nt = af.class_assigns("ArchitectureFeatures").get("ArchitectureConfig")
    names = namedtuple_fields(nt)
    if not isinstance(cfgs, ast.Dict) or not names:
        raise AnalysisError("accelerator_configs / ArchitectureConfig not recognised")
    bank_size = None
    for st in ast.walk(af.func("ArchitectureFeatures.__init__")):
        if isinstance(st, ast.Assign) and norm(st.targets[0]) == "self.shram_bank_size" and isinstance(st.value, ast.Constant):
            bank_size = st.value.value
    if bank_size is None:
        raise AnalysisError("shram_bank_size literal not found")
    # the per-core SHRAM size the config word multiplies by the core count: banks of this row x bank size
    from ..exprnorm import poly

    ssb = [st for st in ast.walk(af.func("ArchitectureFeatures.__init__")) if isinstance(st, ast.Assign) and norm(st.targets[0]) == "self.shram_size_bytes"]
    if len(ssb) != 1:
        raise AnalysisError("shram_size_bytes definition not found")
    rep.check(poly(ssb[0].value) == {tuple(sorted(("accel_config.shram_banks", "self.shram_bank_size"))): 1}, "C17-e", "ethosu/vela/architecture_features.py:ArchitectureFeatures.__init__",
              "shram_size_bytes = shram_banks * shram_bank_size (one core's SHRAM; build_config_word multiplies by the core count)",
              f"`{norm(ssb[0].value)}` = {poly(ssb[0].value)}: the configuration action declares a SHRAM size that does not match the accelerator (the driver rejects or mis-programs the stream)")
    u65_expr = None
    for st in ast.walk(af.func("ArchitectureFeatures.__init__")):
        if isinstance(st, ast.Assign) and norm(st.targets[0]) == "self.is_ethos_u65_system":
            u65_expr = norm(st.value)
    if u65_expr is None:
        raise AnalysisError("is_ethos_u65_system definition not found")
    widths = {f: w for f, w, o in bitfields(repo, "config_r")}
    macs_assert = any(isinstance(st, ast.Assert) and norm(st.test) == "self.num_macs_per_cycle == accel_config.macs"
                      for st in ast.walk(af.func("ArchitectureFeatures.__init__")))

    def log2(interp, args, kwargs, node):
        if isinstance(args[0], (int, float)):
            return math.log2(args[0])
        return Unknown("log2(?)")

    it2 = Interp(repo, mod, {"numpy.log2": log2})
    site_e = SITE + ":build_config_word"
    rows = 0
    for k, v in zip(cfgs.keys, cfgs.values):
        key = norm(k)
        if not (isinstance(v, ast.Call) and len(v.args) == len(names)):
            raise AnalysisError(f"accelerator row {key} not recognised")
        row = dict(zip(names, v.args))
        macs = row["macs"].value
        cores = row["cores"].value
        banks = row["shram_banks"].value
        is65 = key in u65_expr
        rows += 1

        def mk3():
            arch = AObj("arch", {"ncores": cores, "config": AObj("config", {"macs": macs}),
                                 "shram_size_bytes": banks * bank_size, "is_ethos_u65_system": is65})
            if macs_assert:
                arch.fields["num_macs_per_cycle"] = macs  # per-core count, by the assert in ArchitectureFeatures.__init__
            return [arch], {}

        for p in it2.run("build_config_word", mk3):
            o = [x for x in p.objects if x.name == "config_r()"]
            if p.kind != "return" or len(o) != 1:
                rep.bad("C17-e", site_e, key, "config word not built")
                continue
            calls = {c[0]: c[1][0] for c in o[0].calls}
            m = calls.get("set_macs_per_cc")
            rep.check(isinstance(m, int) and 2**m == cores * macs and m < 2 ** widths["macs_per_cc"], "C17-e", site_e,
                      f"{key}: macs_per_cc = log2({cores}*{macs}) fits {widths['macs_per_cc']} bits", f"got {m!r}")
            s = calls.get("set_shram_size")
            rep.check(isinstance(s, int) and s == cores * banks * bank_size // 1024 and s < 2 ** widths["shram_size"], "C17-e", site_e,
                      f"{key}: shram_size = {cores}*{banks} KiB fits {widths['shram_size']} bits", f"got {s!r}")
            rep.check(calls.get("set_product") == (1 if is65 else 0), "C17-e", site_e, f"{key}: product {'U65' if is65 else 'U55'}",
                      f"got {calls.get('set_product')!r}")
    rep.floor("C17-e", 18)
    rep.floor("C17-b", 36)
    rep.floor("C17-a", 6)
    rep.floor("C17-c", 4)
    rep.floor("C17-d", 10)

    # ---------------- d: serialisation uses the payload builder only
    ns = repo.mod("npu_serialisation")
    f = ns.func("serialise_npu_subgraph_into_tensors")
    from ..astutil import calls_in

    cs = calls_in(f, "create_driver_payload")
    ok = len(cs) == 1 and norm(cs[0].args[0]) == "sg.register_command_stream" if cs else False
    rep.check(ok, "C17-d", "ethosu/vela/npu_serialisation.py:serialise_npu_subgraph_into_tensors",
              "command-stream tensor built from create_driver_payload(sg.register_command_stream, arch)",
              "payload builder call not found or argument changed")

    # ---------------- f: the tensor written to the output model is the payload, byte for byte
    rep.clause("C17-f", "the command-stream tensor of the output model holds exactly the payload bytes: size = len(payload), values = the whole payload buffer (no padding, no partial copy)")
    site_f = "ethosu/vela/npu_serialisation.py:serialise_npu_subgraph_into_tensors"
    from ..astutil import single_assignments
    from ..exprnorm import linear

    sa = single_assignments(f)
    pay = [k for k, v in sa.items() if isinstance(v, ast.Call) and (call_name(v) or "").endswith("create_driver_payload")]
    if len(pay) != 1:
        raise AnalysisError("payload variable of serialise_npu_subgraph_into_tensors not found")
    pay = pay[0]
    mk = [s_ for s_ in ast.walk(f) if isinstance(s_, ast.Assign) and norm(s_.targets[0]) == "sg.command_stream_tensor" and call_name(s_.value) == "make_memory_tensor"]
    if len(mk) != 1 or len(mk[0].value.args) < 4:
        raise AnalysisError("creation of sg.command_stream_tensor not recognised")
    size = mk[0].value.args[3]
    while isinstance(size, ast.Name) and size.id in sa:
        size = sa[size.id]
    rep.check(linear(size) == {f"len({pay})": 1}, "C17-f", site_f, f"tensor size is len({pay})", f"size is `{norm(size)}`: the tensor is longer or shorter than the payload, so words follow (or are cut from) what the CmdStream action declares")
    vals = [s_ for s_ in ast.walk(f) if isinstance(s_, (ast.Assign, ast.AugAssign)) and "command_stream_tensor.values" in norm(s_.targets[0] if isinstance(s_, ast.Assign) else s_.target)]
    ok = len(vals) == 1 and isinstance(vals[0], ast.Assign) and norm(vals[0].targets[0]) == "sg.command_stream_tensor.values"
    if ok:
        v = vals[0].value
        ok = isinstance(v, ast.Call) and call_name(v) in ("np.frombuffer", "numpy.frombuffer", "np.array", "np.asarray") and v.args and norm(v.args[0]) == pay and \
            all(k.arg == "dtype" and norm(k.value) in ("np.uint8", "numpy.uint8") for k in v.keywords) and len(v.args) == 1
    rep.check(ok, "C17-f", site_f, f"values = the whole `{pay}` buffer viewed as uint8", "; ".join(norm(x) for x in vals) or "no assignment")
    rep.floor("C17-f", 2)
    # the 16 MiB hardware limit is checked on the emitter's size in bytes: one word per cmd0, two per cmd1
    rep.clause("C17-i", "the stream size the hardware-limit check sees counts words, not commands (a cmd1 is two words)")
    gen_ = repo.mod("register_command_stream_generator")
    it_s = Interp(repo, gen_)
    for label, stream, want in (("three cmd0", [(1,), (2,), (3,)], 12), ("mixed cmd0 / cmd1", [(1,), (2, 3), (4,), (5, 6)], 24), ("empty", [], 0)):
        ps_ = list(it_s.run("CommandStreamEmitter.size_in_bytes", lambda stream=stream: ([AObj("self", {"cmd_stream": AList(list(stream))}, cls="CommandStreamEmitter")], {})))
        ok = len(ps_) == 1 and ps_[0].kind == "return" and ps_[0].value == want
        rep.check(ok, "C17-i", "ethosu/vela/register_command_stream_generator.py:CommandStreamEmitter.size_in_bytes", f"size of a stream of {label} is {want} bytes",
                  f"returns {[p_.value for p_ in ps_]}: streams of up to twice the hardware limit pass the 16 MiB check and are framed")
    gcs = gen_.func("generate_command_stream")
    lim = [n_ for n_ in ast.walk(gcs) if isinstance(n_, ast.If) and "size_in_bytes" in str(norm(n_.test))]
    rep.check(len(lim) == 1 and any(isinstance(x, ast.Raise) for x in ast.walk(lim[0])), "C17-i", "ethosu/vela/register_command_stream_generator.py:generate_command_stream",
              "a stream above the hardware limit raises", str(norm(lim[0].test)) if lim else "check not found")
    # ... and it sees the whole stream: nothing is emitted after the check (the final NPU_OP_STOP is a word of the stream)
    if len(lim) == 1:
        c_g = cfg_of(gcs)
        ln = c_g.node_of(lim[0].test)
        emits = [x for x in ast.walk(gcs) if isinstance(x, ast.Call) and isinstance(x.func, ast.Attribute) and str(norm(x.func.value)) == "emit" and x.func.attr.startswith("cmd")]
        late = [str(norm(x))[:60] for x in emits if c_g.node_of(x) is not None and c_g.node_of(x) != ln and c_g.reaches(ln, c_g.node_of(x))]
        rep.check(bool(emits) and not late, "C17-i", "ethosu/vela/register_command_stream_generator.py:generate_command_stream", "the size check follows the last emission (NPU_OP_STOP included)",
                  f"emitted after the check: {late[:2]}: a stream that reaches the limit only with these words is returned instead of being rejected")
    # the public wrappers add nothing of their own: they build the architecture and delegate (an empty stream is a valid stream)
    for mod_, fn_ in ((repo.mod("api"), "npu_create_driver_payload"), (repo.mod("driver_actions"), "npu_create_driver_payload")):
        w_ = mod_.func(fn_)
        extra = [type(st).__name__ for st in w_.body if not (isinstance(st, (ast.Return, ast.Assign, ast.ImportFrom, ast.Import)) or (isinstance(st, ast.Expr) and isinstance(st.value, ast.Constant)))]
        rep.check(not extra, "C17-a", f"ethosu/vela/{mod_.name}.py:{fn_}", "the wrapper only builds the architecture and delegates to create_driver_payload",
                  f"contains {extra}: a precondition of its own can reject streams the payload builder accepts (e.g. the empty stream)")
    rep.clause("C17-h", "the accelerator named through the public API maps to the configuration of the same name (row-for-row map) [rule shared with C15-c]")
    from . import c15

    rep.run_borrowed(c15, {'C15-c': 'C17-h'}, repo)
    from . import c18

    rep.run_borrowed(c18, {'C18-c': 'C17-h'}, repo)
    rep.clause('C17-j', 'the command stream tensor of every subgraph keeps its data until the file is written: the writer\'s buffer list accumulates over all subgraphs [rule shared with C11-i]')
    from . import c11 as _c11

    rep.run_borrowed(_c11, {'C11-i': 'C17-j'}, repo, only_sites=('assign_buffers_to_tensors',))
    rule_custom_op_operand_readers(repo, rep)


def _is_u65(p):
    for t, d in p.decisions:
        if "is_ethos_u65_system" in t:
            return d
    return False


def rule_custom_op_operand_readers(repo, rep):
    """(k) readers of the ethos-u custom operator's fixed operands follow the order in which rewrite_npu_call_ops puts them (checked under C12-f:
    command stream, flash, scratch, fast scratch): an unpacking of `<op>.inputs[:4]` names its four targets in that order, so that what is
    saved as the command stream is the driver payload."""
    rep.clause("C17-k", "readers of the custom operator's first four operands unpack them as (command stream, weights / flash, scratch, fast scratch): the payload written to the raw output is the command stream tensor")
    n = 0
    for m in repo.core_modules():
        for q, fn in m.functions.items():
            if "." in q and q.split(".")[0] in m.functions:
                continue
            for st in walk_no_nested(fn):
                if isinstance(st, ast.Assign) and isinstance(st.targets[0], ast.Tuple) and len(st.targets[0].elts) == 4 and isinstance(st.value, ast.Subscript) and str(norm(st.value)).endswith(".inputs[:4]"):
                    n += 1
                    names = [e.id.lower() if isinstance(e, ast.Name) else "" for e in st.targets[0].elts]

                    def kind(nm):
                        if "cmd" in nm or "command" in nm:
                            return "command stream"
                        if "fast" in nm:
                            return "fast scratch"
                        if "scratch" in nm:
                            return "scratch"
                        if "weight" in nm or "flash" in nm or "const" in nm:
                            return "flash"
                        return "?"

                    got = [kind(x) for x in names]
                    rep.check(got == ["command stream", "flash", "scratch", "fast scratch"], "C17-k", f"{m.rel}:{q}", f"`{str(norm(st))[:90]}` names the operands in the driver's order",
                              f"targets denote {got}: the array saved as the command stream is another operand of the custom operator and the driver payload is not in the output")
    if n < 1:
        raise AnalysisError("no unpacking of <op>.inputs[:4] found (expected rawdata_writer)")
    rep.floor("C17-k", 1)


def rule_length_guard_exact(repo, rep, mod):
    """(l) create_driver_payload rejects a stream exactly when its length does not fit the 24-bit length field: the test in front of the
    raise is evaluated (own evaluator over comparisons, boolean operators, shifts and len()) for lengths 0, 1, 2, 2^16, 2^24 - 1, 2^24,
    2^24 + 1, 2^25: it raises iff length >= 2^24. In particular the empty stream is a legal payload (a header declaring 0 words)."""
    f = mod.func("create_driver_payload")
    site = "ethosu/vela/driver_actions.py:create_driver_payload"
    guards = [i for i in ast.walk(f) if isinstance(i, ast.If) and any(isinstance(x, ast.Raise) for x in i.body) and "len(" in str(norm(i.test))]
    if len(guards) == 0:
        rep.bad("C17-l", site, "a length guard precedes the header", "no test of the stream length raises: a stream of 2^24 words or more is framed with a truncated 24-bit length")
        return
    if len(guards) != 1:
        raise AnalysisError(f"create_driver_payload: {len(guards)} length guards")
    pname = f.args.args[0].arg

    def ev(e, L):
        if isinstance(e, ast.Constant):
            return e.value
        if isinstance(e, ast.Call) and call_name(e) == "len" and len(e.args) == 1 and isinstance(e.args[0], ast.Name) and e.args[0].id == pname:
            return L
        if isinstance(e, ast.BinOp):
            a, b = ev(e.left, L), ev(e.right, L)
            ops = {ast.LShift: lambda x, y: x << y, ast.RShift: lambda x, y: x >> y, ast.Add: lambda x, y: x + y, ast.Sub: lambda x, y: x - y, ast.Mult: lambda x, y: x * y,
                   ast.Pow: lambda x, y: x ** y, ast.FloorDiv: lambda x, y: x // y, ast.BitAnd: lambda x, y: x & y, ast.BitOr: lambda x, y: x | y}
            if type(e.op) in ops:
                return ops[type(e.op)](a, b)
        if isinstance(e, ast.UnaryOp) and isinstance(e.op, ast.Not):
            return not ev(e.operand, L)
        if isinstance(e, ast.UnaryOp) and isinstance(e.op, ast.USub):
            return -ev(e.operand, L)
        if isinstance(e, ast.BoolOp):
            vs = [ev(v, L) for v in e.values]
            return all(vs) if isinstance(e.op, ast.And) else any(vs)
        if isinstance(e, ast.Compare):
            left = ev(e.left, L)
            for op, c in zip(e.ops, e.comparators):
                r = ev(c, L)
                ok = {ast.Lt: left < r, ast.LtE: left <= r, ast.Gt: left > r, ast.GtE: left >= r, ast.Eq: left == r, ast.NotEq: left != r}.get(type(op))
                if ok is None:
                    raise AnalysisError("create_driver_payload: comparison operator not modelled")
                if not ok:
                    return False
                left = r
            return True
        if isinstance(e, ast.Attribute) or isinstance(e, ast.Name):
            t = str(norm(e))
            consts = {a.targets[0].id: a.value for a in mod.tree.body if isinstance(a, ast.Assign) and len(a.targets) == 1 and isinstance(a.targets[0], ast.Name)}
            if t in consts:
                return ev(consts[t], L)
        raise AnalysisError(f"create_driver_payload: length guard `{str(norm(e))[:60]}` not evaluable")

    wrong = []
    for L in (0, 1, 2, 1 << 16, (1 << 24) - 1, 1 << 24, (1 << 24) + 1, 1 << 25):
        got = bool(ev(guards[0].test, L))
        if got != (L >= (1 << 24)):
            wrong.append((L, got))
    rep.check(not wrong, "C17-l", site, "the length guard raises exactly for lengths >= 2^24 (8 probe lengths, 0 included)",
              f"`{str(norm(guards[0].test))[:60]}`: " + ", ".join(f"length {L}: {'rejected' if g else 'accepted'}" for L, g in wrong) + " (the empty stream is a legal payload: 32-byte header declaring 0 words)")


def rule_file_alignment(repo, rep):
    """(m) the payload pads its header so that the command words start on a 16-byte boundary *relative to the payload*; in the written
    file that holds only if the buffer data itself starts 16-byte aligned. TFLiteSerialiser.write_aligned_bytes reserves the vector with
    Prep(16, ..) (flatbuffers' own CreateByteVector / CreateNumpyVector align to 4) and every buffer is written through it."""
    tw = repo.mod("tflite_writer")
    f = tw.func("TFLiteSerialiser.write_aligned_bytes")
    site = "ethosu/vela/tflite_writer.py:TFLiteSerialiser.write_aligned_bytes"
    preps = [c for c in ast.walk(f) if isinstance(c, ast.Call) and isinstance(c.func, ast.Attribute) and c.func.attr == "Prep" and c.args]
    al = [try_fold(c.args[0]) for c in preps]
    rep.check(bool(preps) and all(isinstance(a, int) and a >= 16 and a % 16 == 0 for a in al), "C17-m", site, "buffer data is reserved with Prep(16, ..): 16-byte aligned in the file",
              f"alignment requests {al}: without Prep(16) a buffer starts at any multiple of 4, the command words of a payload at offset 844 begin at 876 = 12 mod 16")
    sb = tw.func("TFLiteSerialiser.serialise_buffer")
    uses = [c for c in ast.walk(sb) if isinstance(c, ast.Call) and str(norm(c.func)).endswith("write_aligned_bytes")]
    other = [c for c in ast.walk(sb) if isinstance(c, ast.Call) and isinstance(c.func, ast.Attribute) and c.func.attr in ("CreateByteVector", "CreateNumpyVector", "CreateString")]
    rep.check(bool(uses) and not other, "C17-m", "ethosu/vela/tflite_writer.py:TFLiteSerialiser.serialise_buffer", "buffer contents are written through write_aligned_bytes only", f"{[str(norm(c))[:40] for c in other]}")


def rule_round9(repo, rep):
    """(n) who-may-write: `is_ethos_u65_system`, `num_macs_per_cycle`, `shram_size_bytes`, `ncores` feed build_config_word; every store to
    an attribute of one of these names anywhere in the package is in ArchitectureFeatures.__init__. (o) must-cover: in
    compiler_driver.compiler_driver the call of rewrite_npu_call_ops sits in a loop over the graph's subgraphs (directly or through a
    local list built from `nng.subgraphs`) and receives the loop variable."""
    fields = ("is_ethos_u65_system", "num_macs_per_cycle", "shram_size_bytes", "ncores")
    n = 0
    for m in repo.core_modules():
        for node in ast.walk(m.tree):
            if isinstance(node, (ast.Assign, ast.AugAssign, ast.AnnAssign)):
                tgts = node.targets if isinstance(node, ast.Assign) else [node.target]
                for t in tgts:
                    for tt in (t.elts if isinstance(t, (ast.Tuple, ast.List)) else [t]):
                        if isinstance(tt, ast.Attribute) and tt.attr in fields:
                            fn = m.enclosing_function(node)
                            q = m.qualname_of(fn) if fn else "<module>"
                            n += 1
                            rep.check((m.name, q) == ("architecture_features", "ArchitectureFeatures.__init__"), "C17-n", f"ethosu/vela/{m.name}.py:{q}", f"`{norm(node)[:80]}` is the constructor's store",
                                      f"`{norm(node)[:80]}`: a second writer of `{tt.attr}`: the configuration word of a command stream compiled through this path declares another product / size than the accelerator "
                                      "selected (ethos-u55-128 under the built-in default configuration: 0x10001807 for 0x00001807)")
    if n < 4:
        raise AnalysisError(f"{n} stores to configuration-word fields found")
    cd = repo.mod("compiler_driver")
    f = cd.func("compiler_driver")
    site = "ethosu/vela/compiler_driver.py:compiler_driver"
    calls = [c for c in ast.walk(f) if isinstance(c, ast.Call) and (call_name(c) or "").endswith("rewrite_npu_call_ops")]
    if not calls:
        raise AnalysisError("compiler_driver: no call of rewrite_npu_call_ops")
    loc = {}
    for a in ast.walk(f):
        if isinstance(a, ast.Assign) and len(a.targets) == 1 and isinstance(a.targets[0], ast.Name):
            loc.setdefault(a.targets[0].id, []).append(a.value)
    for c in calls:
        loops = [l for l in ast.walk(f) if isinstance(l, ast.For) and any(x is c for x in ast.walk(l)) and isinstance(l.target, ast.Name)]
        ok = False
        for l in loops:
            it_ = l.iter
            src = str(norm(it_))
            if isinstance(it_, ast.Name) and len(loc.get(it_.id, [])) == 1:
                src = str(norm(loc[it_.id][0]))
            if "nng.subgraphs" in src and c.args and isinstance(c.args[0], ast.Name) and c.args[0].id == l.target.id:
                ok = True
        rep.check(ok, "C17-o", site, f"`{norm(c)}` runs for every CPU subgraph of `nng.subgraphs`",
                  f"`{norm(c)}` is not applied to each subgraph: an Ethos-U operator inside a WHILE body keeps its plain inputs, the written model has no command-stream tensor (COP1 payload) for it")


def rule_round10(repo, rep):
    """(p) every Ethos-U custom operator is wired to the four memory tensors of *its own* callee subgraph: the collection
    rewrite_npu_call_ops inserts in front of the operator's inputs is built, in the same iteration, from the `callee` that iteration read
    from `op.attrs["subgraph"]` - not kept from an earlier operator (the command stream tensor is per subgraph: a second NPU subgraph would be
    written with the first one's payload).
    (q) the payload bytes of a tensor reach the buffer the tensor table names for it: serialise_tensor stores the data under
    `self.buffer_map[tens]`; a redirection of the buffer index is accepted only through a table keyed by the *whole* data (exact sharing) -
    a key made of slices of the data lets two command streams that differ in the middle share one buffer."""
    ns = repo.mod("npu_serialisation")
    fn = ns.func("rewrite_npu_call_ops")
    site = "ethosu/vela/npu_serialisation.py:rewrite_npu_call_ops"
    blocks = [i for i in ast.walk(fn) if isinstance(i, ast.If) and "Op.CustomNpuOp" in str(norm(i.test))]
    if len(blocks) != 1:
        raise AnalysisError(f"rewrite_npu_call_ops: {len(blocks)} custom operator blocks")
    blk = blocks[0]
    callee_defs = [st for st in blk.body if isinstance(st, ast.Assign) and str(norm(st.targets[0])) == "callee"]
    rep.check(len(callee_defs) == 1 and "attrs['subgraph']" in str(norm(callee_defs[0].value)).replace('"', "'"), "C17-p", site, "`callee` is read from the operator at hand in every iteration", str([str(norm(d)) for d in callee_defs]))
    loops = [lp for lp in ast.walk(blk) if isinstance(lp, ast.For) and any(isinstance(c, ast.Call) and str(norm(c.func)) == "op.inputs.insert" for c in ast.walk(lp))]
    if len(loops) != 1:
        raise AnalysisError(f"rewrite_npu_call_ops: {len(loops)} loops that wire the memory tensors")
    it = loops[0].iter
    src = it
    why = ""
    if isinstance(it, ast.Name):
        defs = [st for st in ast.walk(fn) if isinstance(st, ast.Assign) and str(norm(st.targets[0])) == it.id]
        direct = [d for d in defs if d in blk.body]
        if len(defs) != 1 or len(direct) != 1:
            why = f"`{it.id}` is not (re)built unconditionally in the iteration that uses it ({len(defs)} definitions, {len(direct)} of them directly in the operator's block)"
        src = defs[-1].value if defs else it
    ok = not why and isinstance(src, (ast.List, ast.Tuple)) and len(src.elts) == 4 and all(isinstance(e, ast.Attribute) and str(norm(e.value)) == "callee" and e.attr.endswith("_tensor") for e in src.elts)
    rep.check(ok, "C17-p", site, "the four memory tensors wired to an Ethos-U operator are members of that operator's own callee",
              (why or f"`{str(norm(src))[:80]}` is not a display of four `callee.<x>_tensor` members") + ": a later Ethos-U operator is wired to an earlier subgraph's command stream tensor and its own payload never reaches the output model")
    wm = repo.mod("tflite_writer")
    g = wm.func("TFLiteSerialiser.serialise_tensor")
    gsite = "ethosu/vela/tflite_writer.py:TFLiteSerialiser.serialise_tensor"
    defs = [st for st in ast.walk(g) if isinstance(st, (ast.Assign, ast.AugAssign)) and any(str(norm(t)) == "buf_id" for t in (st.targets if isinstance(st, ast.Assign) else [st.target]))]
    first = [d for d in defs if str(norm(d.value)) == "self.buffer_map[tens]"]
    rep.check(len(first) == 1, "C17-q", gsite, "the buffer index of a tensor is `self.buffer_map[tens]`", str([str(norm(d))[:60] for d in defs]))
    for d in defs:
        if d in first:
            continue
        v = d.value
        key = v.args[0] if isinstance(v, ast.Call) and isinstance(v.func, ast.Attribute) and v.func.attr in ("setdefault", "get") and v.args else None
        key_defs = [s.value for s in ast.walk(g) if isinstance(s, ast.Assign) and isinstance(key, ast.Name) and str(norm(s.targets[0])) == key.id] if key is not None else []
        kexpr = key_defs[-1] if key_defs else key
        partial = kexpr is None or any(isinstance(x, ast.Subscript) and isinstance(x.slice, ast.Slice) for x in ast.walk(kexpr)) or not any(
            isinstance(x, ast.Call) and isinstance(x.func, ast.Attribute) and x.func.attr in ("tobytes", "tostring") for x in ast.walk(kexpr))
        rep.check(not partial, "C17-q", gsite, f"`{str(norm(d))[:80]}` redirects the buffer only for byte-identical data",
                  f"the sharing key `{str(norm(kexpr))[:80] if kexpr is not None else None}` does not cover the whole data: two command streams of equal length that agree at both ends share one buffer - one Ethos-U operator "
                  "carries the other's command words")
    stores = [st for st in ast.walk(g) if isinstance(st, ast.Assign) and isinstance(st.targets[0], ast.Subscript) and str(norm(st.targets[0].value)) == "self.buffers_to_write"]
    if not stores:
        raise AnalysisError("serialise_tensor: no store into buffers_to_write")
    for st in stores:
        rep.check(str(norm(st.targets[0].slice)) == "buf_id", "C17-q", gsite, f"`{str(norm(st))[:70]}` stores the data under the tensor's buffer index", "indexed by something else")


def rule_round11(repo, rep):
    """(r) create_driver_payload frames every stream, the empty one included: the command-stream action (NOP padding + tag word with the
    length) and the copy of the words are on every path that reaches the return (CFG: no path from entry to the return avoids
    emit_cmd_stream_header / the extend of the words).
    (s) the writer's table of tensors is keyed by the tensor objects, so that two tensors of the same name (a model tensor called like a
    generated command stream tensor) both reach the file: every store into serialise_subgraph's tensor collection uses the tensor itself as
    key, and its initialisation is dict.fromkeys(<tensors>) / a display of tensors."""
    m = repo.mod("driver_actions")
    fn = m.func("create_driver_payload")
    site = f"{DA}:create_driver_payload" if "DA" in globals() else "ethosu/vela/driver_actions.py:create_driver_payload"
    c = cfg_of(fn)
    rets = [n_ for n_ in c.nodes[3:] if n_.stmt is not None and isinstance(n_.stmt, ast.Return)]
    hdr = c.nodes_where(lambda n_: n_.stmt is not None and n_.kind != "test" and "emit_cmd_stream_header(" in str(norm(n_.stmt)))
    ext = c.nodes_where(lambda n_: n_.stmt is not None and n_.kind != "test" and "register_command_stream" in str(norm(n_.stmt)) and (
        ".extend(" in str(norm(n_.stmt)) or (isinstance(n_.stmt, (ast.Assign, ast.AugAssign)) and "da_list" in str(norm(n_.stmt)).split("=")[0])))
    if not rets:
        raise AnalysisError("create_driver_payload: no return")
    for r_ in rets:
        rep.check(bool(hdr) and any(c.dominates(h_, r_.id) for h_ in hdr), "C17-r", site, "the command-stream action precedes the return on every path", "a path reaches the return without emit_cmd_stream_header: an empty stream is framed as COP1 + configuration only, with no action declaring 0 words")
        rep.check(bool(ext) and any(c.dominates(e_, r_.id) for e_ in ext), "C17-r", site, "the words are appended on every path that returns", "a path reaches the return without appending the words")
    wm = repo.mod("tflite_writer")
    g = wm.func("TFLiteSerialiser.serialise_subgraph")
    gsite = "ethosu/vela/tflite_writer.py:TFLiteSerialiser.serialise_subgraph"
    inits = [st for st in ast.walk(g) if isinstance(st, ast.Assign) and str(norm(st.targets[0])) == "tensor_set"]
    if len(inits) != 1:
        raise AnalysisError(f"serialise_subgraph: {len(inits)} definitions of the tensor collection")
    v = inits[0].value
    ok_init = (isinstance(v, ast.Call) and str(norm(v.func)) == "dict.fromkeys") or (isinstance(v, ast.Dict) and not v.keys) or (
        isinstance(v, ast.DictComp) and isinstance(v.key, ast.Name) and len(v.generators) == 1 and str(norm(v.generators[0].target)) == v.key.id)
    rep.check(ok_init, "C17-s", gsite, f"`{str(norm(inits[0]))[:80]}` is keyed by the tensor objects", "the collection is keyed by something derived from the tensors (names): two tensors of one name collapse into one entry")
    n = 0
    for st in ast.walk(g):
        keys = []
        if isinstance(st, ast.Assign) and isinstance(st.targets[0], ast.Subscript) and str(norm(st.targets[0].value)) == "tensor_set":
            keys.append(st.targets[0].slice)
        if isinstance(st, ast.Expr) and isinstance(st.value, ast.Call) and isinstance(st.value.func, ast.Attribute) and str(norm(st.value.func.value)) == "tensor_set" and st.value.func.attr in ("setdefault", "update", "__setitem__") and st.value.args:
            keys.append(st.value.args[0])
        for k_ in keys:
            n += 1
            rep.check(isinstance(k_, ast.Name), "C17-s", gsite, f"`{str(norm(st))[:70]}` uses the tensor itself as key", f"key `{str(norm(k_))}`: a model tensor named like a generated command stream tensor replaces it - the Ethos-U operator is written with input -1 and no payload")
    if n < 1:
        raise AnalysisError("serialise_subgraph: no store into the tensor collection")

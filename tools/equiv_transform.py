#!/usr/bin/env python3
"""Robustness probe for the checker (development tool, not a check): applies behaviour-preserving source
transformations to a scratch copy of the analysed tree and runs every check on it. A VIOLATION on the transformed copy is
a false alarm of a text-bound rule.
  usage: equiv_transform.py rename|commute|augassign [PROP ...]
rename    : every function-local variable v (plain assigned names, not parameters / globals / nonlocals / names also used
            as attributes in the module's public interface) is renamed v__r consistently inside its function
commute   : operands of == / != comparisons and of + * & | on side-effect-free simple operands are swapped
augassign : `x += e` on plain names becomes `x = x + e`
"""
import ast
import json
import os
import shutil
import subprocess
import sys

sys.path.insert(0, "/verif")
from velacheck.mutate import make_copy  # noqa: E402


class Rename(ast.NodeTransformer):
    def visit_FunctionDef(self, node):
        # only outermost functions/methods without nested defs / lambdas / comprehensions sharing names are handled simply
        params = {a.arg for a in node.args.posonlyargs + node.args.args + node.args.kwonlyargs}
        if node.args.vararg:
            params.add(node.args.vararg.arg)
        if node.args.kwarg:
            params.add(node.args.kwarg.arg)
        declared = set()
        nested = False
        for n in ast.walk(node):
            if n is not node and isinstance(n, (ast.FunctionDef, ast.AsyncFunctionDef, ast.Lambda, ast.ClassDef)):
                nested = True
            if isinstance(n, (ast.Global, ast.Nonlocal)):
                declared |= set(n.names)
        if nested:
            self.generic_visit(node)
            return node
        stores = set()
        for n in ast.walk(node):
            if isinstance(n, ast.Name) and isinstance(n.ctx, (ast.Store, ast.Del)):
                stores.add(n.id)
        local = {v for v in stores if v not in params and v not in declared and v != "_" and not v.startswith("__")}
        for n in ast.walk(node):
            if isinstance(n, ast.Name) and n.id in local:
                n.id = n.id + "__r"
        return node

    visit_AsyncFunctionDef = visit_FunctionDef


def simple(e):
    return isinstance(e, (ast.Name, ast.Constant)) or (isinstance(e, ast.Attribute) and simple(e.value)) or \
        (isinstance(e, ast.Subscript) and simple(e.value) and simple(e.slice)) or (isinstance(e, ast.UnaryOp) and simple(e.operand))


class Commute(ast.NodeTransformer):
    def visit_Compare(self, node):
        self.generic_visit(node)
        if len(node.ops) == 1 and isinstance(node.ops[0], (ast.Eq, ast.NotEq)) and simple(node.left) and simple(node.comparators[0]):
            node.left, node.comparators[0] = node.comparators[0], node.left
        return node

    def visit_BinOp(self, node):
        self.generic_visit(node)
        if isinstance(node.op, (ast.Add, ast.Mult, ast.BitAnd, ast.BitOr)) and simple(node.left) and simple(node.right) and \
                not any(isinstance(x, ast.Constant) and isinstance(x.value, (str, bytes)) for x in (node.left, node.right)):
            node.left, node.right = node.right, node.left
        return node


class Aug(ast.NodeTransformer):
    def visit_AugAssign(self, node):
        if isinstance(node.target, ast.Name):
            return ast.copy_location(ast.Assign(targets=[ast.Name(id=node.target.id, ctx=ast.Store())],
                                                value=ast.BinOp(left=ast.Name(id=node.target.id, ctx=ast.Load()), op=node.op, right=node.value)), node)
        return node


def main():
    kind = sys.argv[1]
    props = sys.argv[2:]
    tr = {"rename": Rename, "commute": Commute, "augassign": Aug}[kind]
    d = make_copy()
    try:
        n = 0
        for root, _, files in os.walk(os.path.join(d, "ethosu", "vela")):
            if "/test" in root or "/tflite" in root.replace(os.path.join(d, "ethosu", "vela"), "") or "/tosa" in root.replace(os.path.join(d, "ethosu", "vela"), "") or "ethos_u55_regs" in root:
                continue
            for f in files:
                if f.endswith(".py"):
                    p = os.path.join(root, f)
                    src = open(p).read()
                    tree = tr().visit(ast.parse(src))
                    ast.fix_missing_locations(tree)
                    open(p, "w").write(ast.unparse(tree) + "\n")
                    n += 1
        r = subprocess.run([sys.executable, "-c", "import ast,sys,glob\n[compile(open(f).read(), f, 'exec') for f in glob.glob(sys.argv[1] + '/ethosu/vela/*.py')]", d], capture_output=True, text=True)
        if r.returncode != 0:
            print("transformed tree does not compile:", r.stderr[-300:])
            return 2
        if not props:
            props = [c["property_id"] for c in json.load(open("/verif/MANIFEST.json"))["checks"]]
        from concurrent.futures import ThreadPoolExecutor

        def one(p):
            r = subprocess.run([sys.executable, "-m", "velacheck", p, "--repo", d], capture_output=True, text=True, cwd="/verif", env={**os.environ, "VELACHECK_NO_EVIDENCE": "1"})
            lines = [l for l in r.stdout.splitlines() if l.startswith("  rule=") or "ANALYSIS-ERROR" in l]
            return p, r.returncode, lines

        print(f"{kind}: {n} files transformed")
        with ThreadPoolExecutor(max_workers=9) as ex:
            for p, rc, lines in ex.map(one, props):
                print(p, "exit", rc, f"({len(lines)} reports)")
                for l in lines[:400]:
                    print("    ", l[:230])
    finally:
        shutil.rmtree(d, ignore_errors=True)


if __name__ == "__main__":
    sys.exit(main())

"""Observation 1 (unmodified tree): a SPLIT_V that runs on the NPU rewrites its size_splits constant in place.

Operation.get_split_inputs_axis() replaces the -1 entry of size_splits by the inferred size IN the constant tensor
(`sizes[idx] = ...` on size_tens.values).  When the same constant is also an operand of an operator that stays on the CPU,
that operator is written with changed constant data ([2, -1] becomes [2, 6])."""
from obs_common import *  # noqa: F401,F403

m = ModelB()
sg = m.subgraph()
x = fm(sg, "x", [1, 8, 8, 8])
ax = sg.const("axis", [3], TT.INT32, shape=[])
sz = sg.const("sizes", [2, -1], TT.INT32)
ys = [fm(sg, "y0", [1, 8, 8, 2]), fm(sg, "y1", [1, 8, 8, 6])]
sg.op(BO.SPLIT_V, [x, sz, ax], ys, ("SplitVOptions", {"NumSplits": 2}))
a = conv(sg, ys[0], "a")
b = conv(sg, ys[1], "b")
z = custom(sg, [x, sz, ax], "z")  # a third-party operator that reads the same constants
sg.inputs = [x]
sg.outputs = [a, b, z]
buf = m.build()
errs, res = run(buf, must_stay=["z"])
out = parse(res.out)["subgraphs"][0]
for t in out["tensors"]:
    if t["name"] == "sizes":
        print("   'sizes' in the output model:", np.frombuffer(t["data"], np.int32).tolist(), "(source: [2, -1])")
sys.exit(1 if report("SPLIT_V size_splits shared with a CPU operator", errs) else 0)

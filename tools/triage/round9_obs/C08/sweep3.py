import os, sys
sys.path.insert(0, os.getcwd()); sys.path.insert(0, os.path.dirname(os.path.abspath(__file__)))
import numpy as np
import c08_harness as H
from sweep import run, chain_model, res_model
from ethosu.vela.data_type import DataType

INI = [os.path.join(os.getcwd(), "ethosu/config_files/Arm/vela.ini")]
CFGS = [
    ("ethos-u55-128", dict(config_files=INI, system_config="Ethos_U55_High_End_Embedded", memory_mode="Shared_Sram")),
    ("ethos-u55-64", dict(config_files=INI, system_config="Ethos_U55_Deep_Embedded", memory_mode="Sram_Only")),
    ("ethos-u55-256", dict(config_files=INI, system_config="Ethos_U55_High_End_Embedded", memory_mode="Shared_Sram", arena_cache_size=64 * 1024)),
    ("ethos-u65-512", dict(config_files=INI, system_config="Ethos_U65_High_End", memory_mode="Dedicated_Sram")),
    ("ethos-u65-512", dict(config_files=INI, system_config="Ethos_U65_High_End", memory_mode="Dedicated_Sram", arena_cache_size=96 * 1024)),
    ("ethos-u65-256", dict(config_files=INI, system_config="Ethos_U65_Mid_End", memory_mode="Shared_Sram")),
    ("ethos-u65-256", dict(config_files=INI, system_config="Ethos_U65_Embedded", memory_mode="Sram_Only")),
    ("ethos-u65-512", dict(config_files=INI, system_config="Ethos_U65_Client_Server", memory_mode="Dedicated_Sram_512KB")),
    ("ethos-u55-128", dict(config_files=INI, system_config="Ethos_U55_High_End_Embedded", memory_mode="Shared_Sram", optimise="Size")),
    ("ethos-u65-512", dict(config_files=INI, system_config="Ethos_U65_High_End", memory_mode="Dedicated_Sram", optimise="Size")),
]
if __name__ == "__main__":
    rng = np.random.default_rng(21)
    models = [
        ("chainA", chain_model(rng, [32, 64, 96], hw=32)),
        ("chainB", chain_model(rng, [256, 300, 130], hw=10, in_c=64)),
        ("chainC-dw", chain_model(rng, [48, 48, 96, 96, 160], hw=24, kinds=["conv", "dw", "conv", "dw", "conv"])),
        ("chain16", chain_model(rng, [64, 80, 200], hw=12, dtype=DataType.int16, in_c=24)),
        ("res", res_model(rng, 40, 32, 2)),
        ("res-wide", res_model(rng, 16, 128, 2)),
        ("chain1x1", chain_model(rng, [512, 1000, 17], hw=4, k=1, in_c=128)),
    ]
    n = 0
    for name, tfl in models:
        for acc, kw in CFGS:
            n += run(name, tfl, accs=(acc,), **kw)
    print("checked", n)

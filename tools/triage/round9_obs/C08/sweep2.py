import os, sys, traceback
sys.path.insert(0, os.getcwd()); sys.path.insert(0, os.path.dirname(os.path.abspath(__file__)))
import numpy as np
import c08_harness as H
from sweep import run
from ethosu.vela.data_type import DataType
from ethosu.vela.operation import Padding, Op

ACCS = ("ethos-u55-32", "ethos-u55-64", "ethos-u55-128", "ethos-u55-256", "ethos-u65-256", "ethos-u65-512")

def single(rng, kind, in_c, out_c, k, hw=12, dtype=DataType.int8, stride=(1, 1), dil=(1, 1), wdt=np.int8, wzp=0, per_ch=True, pad=Padding.SAME, bias=True, big_bias=False):
    b = H.ModelBuilder()
    x = b.input([1, hw, hw, in_c], dtype=dtype, scale=0.02, zero_point=0 if dtype != DataType.uint8 else 3)
    bdt = np.int64 if dtype == DataType.int16 else np.int32
    kh, kw = k if isinstance(k, tuple) else (k, k)
    def wv(shape):
        return (rng.integers(-127, 128, size=shape).astype(np.int8) if wdt == np.int8 else rng.integers(0, 256, size=shape).astype(np.uint8))
    lim = (1 << 38) if big_bias else 100000
    if kind == "conv":
        ws = list(rng.uniform(0.0005, 0.01, out_c)) if per_ch else 0.004
        bv = rng.integers(-lim, lim, size=(out_c,)).astype(bdt) if bias else None
        y = b.conv2d(x, wv((out_c, kh, kw, in_c)), ws, bv, w_zp=wzp, stride=stride, dilation=dil, padding=pad)
    elif kind == "dw":
        ws = list(rng.uniform(0.0005, 0.01, in_c)) if per_ch else 0.004
        bv = rng.integers(-lim, lim, size=(in_c,)).astype(bdt) if bias else None
        y = b.depthwise(x, wv((1, kh, kw, in_c)), ws, bv, w_zp=wzp, stride=stride, dilation=dil, padding=pad)
    elif kind == "fc":
        b = H.ModelBuilder()
        x = b.input([1, in_c], dtype=dtype, scale=0.02)
        bv = rng.integers(-lim, lim, size=(out_c,)).astype(bdt) if bias else None
        y = b.fully_connected(x, wv((out_c, in_c)), 0.004, bv, w_zp=wzp)
    elif kind == "tconv":
        bv = rng.integers(-lim, lim, size=(out_c,)).astype(bdt) if bias else None
        y = b.transpose_conv(x, wv((out_c, kh, kw, in_c)), 0.004, bv, stride=stride, padding=pad)
    return b.tflite_bytes([y])

if __name__ == "__main__":
    rng = np.random.default_rng(11)
    n = 0
    cases = []
    for in_c, out_c in [(3, 16), (8, 1), (16, 17), (40, 33), (1, 8), (24, 130), (64, 64), (5, 3)]:
        for k in [1, 3, (1, 7), (9, 2), 5]:
            cases.append(("conv", in_c, out_c, k, {}))
    for c in [1, 7, 16, 33, 96]:
        for k in [1, 3, (2, 5), 9]:
            cases.append(("dw", c, c, k, {}))
    for i, o in [(16, 10), (100, 1), (7, 300), (512, 64), (33, 17)]:
        cases.append(("fc", i, o, 1, {}))
    for i, o in [(8, 8), (16, 5), (3, 20)]:
        for k in [2, 3, 4]:
            cases.append(("tconv", i, o, k, dict(stride=(2, 2))))
    extra = [
        ("conv", 16, 24, 3, dict(dil=(2, 2))), ("conv", 16, 24, 5, dict(dil=(1, 2))), ("conv", 8, 40, 3, dict(dil=(3, 3))), ("conv", 8, 40, 3, dict(dil=(4, 2))),
        ("conv", 16, 24, 3, dict(stride=(2, 2))), ("conv", 16, 24, 3, dict(stride=(3, 3))), ("conv", 16, 24, 2, dict(stride=(2, 2), pad=Padding.VALID)),
        ("dw", 24, 24, 3, dict(dil=(2, 2))), ("dw", 24, 24, 3, dict(stride=(2, 2))),
        ("conv", 16, 24, 3, dict(dtype=DataType.uint8, wdt=np.uint8, wzp=121, per_ch=False)),
        ("dw", 16, 16, 3, dict(dtype=DataType.uint8, wdt=np.uint8, wzp=7, per_ch=False)),
        ("fc", 64, 24, 1, dict(dtype=DataType.uint8, wdt=np.uint8, wzp=200)),
        ("conv", 16, 24, 3, dict(dtype=DataType.int16)), ("conv", 3, 24, 3, dict(dtype=DataType.int16, big_bias=True)), ("dw", 24, 24, 3, dict(dtype=DataType.int16)),
        ("fc", 40, 24, 1, dict(dtype=DataType.int16)), ("conv", 40, 48, (1, 3), dict(dtype=DataType.int16, per_ch=False)),
        ("conv", 16, 24, 3, dict(bias=False)), ("dw", 16, 16, 3, dict(bias=False)), ("fc", 16, 24, 1, dict(bias=False)),
        ("conv", 32, 256, 3, dict(hw=6)), ("conv", 128, 96, 3, dict(hw=6)), ("dw", 200, 200, 3, dict(hw=6)),
    ]
    cases += extra
    for kind, i, o, k, kw in cases:
        try:
            tfl = single(rng, kind, i, o, k, **kw)
        except Exception as e:
            print("BUILD FAIL", kind, i, o, k, kw, type(e).__name__, e); continue
        n += run(f"{kind} {i}->{o} k{k} {kw}", tfl, accs=ACCS)
    print("fetches checked", n)

"""Observation 2 (UNMODIFIED tree violates C08): the CompressedWeightCache key does not distinguish a transpose
convolution (whose kernel is encoded mirrored in H and W) from an ordinary convolution.

Model: ONE int8 weight constant [8,3,3,8] (OHWI) is the filter of a CONV_2D and of a TRANSPOSE_CONV (stride 2, SAME)
that read the same IFM.  Both map to NpuBlockType.ConvolutionMxN, so the second encode request returns the cached
tensor of the first: one of the two operators fetches the other one's weight order (mirrored / not mirrored kernel).

Run: cd /tmp/seed9/C08 && /venv/bin/python out/observation2.py   (exit 1 = violation reproduced)"""
import os
import sys

sys.path.insert(0, os.path.dirname(os.path.abspath(__file__)))
sys.path.insert(0, os.getcwd())

import numpy as np  # noqa: E402

import c08_harness as H  # noqa: E402
from demo_common import check_models, finish  # noqa: E402
from ethosu.vela.data_type import DataType  # noqa: E402
from ethosu.vela.operation import Op  # noqa: E402
from ethosu.vela.operation import Operation  # noqa: E402
from ethosu.vela.operation import Padding  # noqa: E402


def model(rng, in_c=8, out_c=8, k=3):
    b = H.ModelBuilder()
    x = b.input([1, 8, 8, in_c], dtype=DataType.int8, scale=0.02)
    w = rng.integers(-127, 128, size=(out_c, k, k, in_c)).astype(np.int8)
    wt = b.const("shared_w", w, 0.004, 0)
    bias = rng.integers(-1000, 1000, size=(out_c,)).astype(np.int32)
    y1 = b.conv2d(x, None, 0.004, bias, share_weights=wt, name="conv")
    n = "tconv"
    shape_t = b.const(n + "_shape", np.array([1, 16, 16, out_c], dtype=np.int32))
    op = Operation(Op.Conv2DBackpropInput, n)
    op.attrs.update({"padding": Padding.SAME, "stride_h": 2, "stride_w": 2, "fused_activation_function": None})
    op.add_input_tensor(shape_t)
    op.add_input_tensor(wt)
    op.add_input_tensor(x)
    op.add_input_tensor(b.const(n + "_b", bias, 0.004 * 0.02, 0))
    ofm = b._out([1, 16, 16, out_c], x.dtype, 0.5, 0, n + "_ofm")
    op.set_output_tensor(ofm)
    b.ops.append(op)
    return b.tflite_bytes([y1, ofm])


if __name__ == "__main__":
    rng = np.random.default_rng(2)
    models = [("conv + transpose conv sharing an 8x3x3x8 filter", model(rng)), ("... 16x2x2x16 filter", model(rng, 16, 16, 2))]
    finish(*check_models(models, accelerators=("ethos-u55-128", "ethos-u65-512")))

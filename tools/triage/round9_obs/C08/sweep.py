"""Pristine-tree sweeps used while hunting for C08 violations (not needed by the demos)"""
import os, sys, itertools, traceback
sys.path.insert(0, os.getcwd())
sys.path.insert(0, os.path.dirname(os.path.abspath(__file__)))
import numpy as np
import c08_harness as H
from ethosu.vela.data_type import DataType
from ethosu.vela.operation import Padding

def rand_w(rng, shape, dtype=np.int8):
    if dtype == np.int8:
        return rng.integers(-127, 128, size=shape).astype(np.int8)
    return rng.integers(0, 256, size=shape).astype(np.uint8)

def chain_model(rng, depths, hw=16, k=3, in_c=8, dtype=DataType.int8, per_ch=True, kinds=None):
    b = H.ModelBuilder()
    x = b.input([1, hw, hw, in_c], dtype=dtype, scale=0.02)
    c = in_c
    for i, d in enumerate(depths):
        kind = (kinds or ["conv"] * len(depths))[i]
        bias_dt = np.int64 if dtype == DataType.int16 else np.int32
        if kind == "conv":
            w = rand_w(rng, (d, k, k, c))
            ws = list(rng.uniform(0.001, 0.01, d)) if per_ch else 0.005
            bias = rng.integers(-1000, 1000, size=(d,)).astype(bias_dt)
            x = b.conv2d(x, w, ws, bias, ofm_scale=0.05)
            c = d
        elif kind == "dw":
            w = rand_w(rng, (1, k, k, c))
            ws = list(rng.uniform(0.001, 0.01, c)) if per_ch else 0.005
            bias = rng.integers(-1000, 1000, size=(c,)).astype(bias_dt)
            x = b.depthwise(x, w, ws, bias, ofm_scale=0.05)
    return b.tflite_bytes([x])


def res_model(rng, hw, c, nblocks, k=3, cmid=None):
    from ethosu.vela.operation import Op
    b = H.ModelBuilder()
    x = b.input([1, hw, hw, c], scale=0.02)

    def conv(x, o, k):
        i = x.shape[-1]
        w = rng.integers(-127, 128, size=(o, k, k, i)).astype(np.int8)
        bias = rng.integers(-1000, 1000, size=(o,)).astype(np.int32)
        return b.conv2d(x, w, list(rng.uniform(0.001, 0.01, o)), bias, ofm_scale=0.05)

    x = conv(x, c, 1)
    for _ in range(nblocks):
        y = conv(x, cmid or c, k)
        y = conv(y, c, k)
        x = b.binary(Op.Add, x, y, ofm_scale=0.05)
    x = conv(x, c, 1)
    return b.tflite_bytes([x])

def run(name, tfl, accs=("ethos-u55-128", "ethos-u65-512", "ethos-u55-32", "ethos-u65-256"), **kw):
    tot = 0
    for acc in accs:
        try:
            c = H.compile_tflite(tfl, accelerator=acc, **kw)
            probs, n = H.check_network(c, acc)
        except Exception as e:
            traceback.print_exc()
            probs, n = [f"EXC {type(e).__name__}: {e}"], 0
        tot += n
        for p in probs[:6]:
            print(f"  [{name} {acc} {kw}] {p}")
    return tot

if __name__ == "__main__":
    rng = np.random.default_rng(5)
    n = 0
    n += run("chain3", chain_model(rng, [32, 48, 64], hw=32))
    n += run("chain-dw", chain_model(rng, [32, 32, 64, 64], hw=24, kinds=["conv", "dw", "conv", "dw"]))
    n += run("chain-big", chain_model(rng, [96, 128, 200], hw=8, in_c=40))
    n += run("chain-int16", chain_model(rng, [32, 48], hw=16, dtype=DataType.int16))
    n += run("chain-1x1", chain_model(rng, [64, 17, 130], hw=20, k=1, in_c=3))
    n += run("chain-size", chain_model(rng, [32, 48, 64], hw=32), optimise="Size")
    print("fetches checked", n)

"""Observation 1 (UNMODIFIED tree violates C08): the process-wide CompressedWeightCache key (WeightCompressionConfig =
block type, OFM block depth, depth slices, dilation, weight value_id) does not contain the IFM bit depth.

Model: ONE int8 weight constant [16,3,3,16] is the filter of two CONV_2D operators, one with an int8 IFM (int32 bias)
and one with an int16 IFM (int64 bias). Valid TFLite (8x8 and 16x8 quantisation use int8 filters).
The weight stream order depends on the IFM precision (IFM block depth 32 vs 16, part-kernel padding 4 vs 2, and the
traversal choice), but the second encode request hits the cache entry of the first one: the int8 convolution is
programmed with the stream that was encoded for the 16-bit convolution (or the other way round, depending on the
order in which the scheduler visits them).  The stream decodes to a different number of weights than the hardware
consumes for the programmed IFM precision / kernel / block depth.

Run: cd /tmp/seed9/C08 && /venv/bin/python out/observation1.py   (exit 1 = violation reproduced)"""
import os
import sys

sys.path.insert(0, os.path.dirname(os.path.abspath(__file__)))
sys.path.insert(0, os.getcwd())

import numpy as np  # noqa: E402

import c08_harness as H  # noqa: E402
from demo_common import check_models, finish  # noqa: E402
from ethosu.vela.data_type import DataType  # noqa: E402


def model(rng, in_c=16, out_c=16, k=3):
    b = H.ModelBuilder()
    x8 = b.input([1, 8, 8, in_c], dtype=DataType.int8, scale=0.02)
    x16 = b.input([1, 8, 8, in_c], dtype=DataType.int16, scale=0.02)
    w = rng.integers(-127, 128, size=(out_c, k, k, in_c)).astype(np.int8)
    wt = b.const("shared_w", w, 0.004, 0)
    b8 = b.const("b8", rng.integers(-1000, 1000, size=(out_c,)).astype(np.int32), 0.004 * 0.02, 0)
    b16 = b.const("b16", rng.integers(-1000, 1000, size=(out_c,)).astype(np.int64), 0.004 * 0.02, 0)
    y8 = b.conv2d(x8, None, 0.004, None, share_weights=wt, share_bias=b8, name="conv8")
    y16 = b.conv2d(x16, None, 0.004, None, share_weights=wt, share_bias=b16, name="conv16")
    return b.tflite_bytes([y8, y16])


if __name__ == "__main__":
    rng = np.random.default_rng(2)
    models = [("int8 + int16 conv sharing a 16x3x3x16 filter", model(rng)), ("... 24x1x1x40 filter", model(rng, 40, 24, 1))]
    finish(*check_models(models, accelerators=("ethos-u55-128", "ethos-u65-512")))

"""Small driver shared by the demos: compile models for several accelerators and report what the oracle finds"""
import traceback

import c08_harness as H


def check_models(models, accelerators=("ethos-u55-128", "ethos-u65-256", "ethos-u65-512", "ethos-u55-32"), **compile_kw):
    """models: list of (label, tflite bytes). Returns (number of (op, slice, core) fetches checked, list of problems)"""
    problems = []
    checked = 0
    for label, tfl in models:
        for acc in accelerators:
            try:
                compiled = H.compile_tflite(tfl, accelerator=acc, **compile_kw)
                probs, n = H.check_network(compiled, acc)
            except Exception as e:  # noqa: B902
                tb = traceback.format_exc().strip().splitlines()[-1]
                probs, n = [f"compilation / check raised {type(e).__name__}: {tb}"], 0
            checked += n
            problems += [f"[{label} on {acc}] {p}" for p in probs]
    return checked, problems


def finish(checked, problems, min_checked=1):
    if checked < min_checked and not problems:
        problems = [f"only {checked} weight/scale fetches were checked: the models did not reach the NPU"]
    if problems:
        print(f"FAIL: {len(problems)} violation(s) of C08 in what the NPU fetches ({checked} fetches checked)")
        for p in problems[:12]:
            print("  " + p)
        raise SystemExit(1)
    print(f"PASS ({checked} (operator, depth slice, core) fetches decoded and compared)")
    raise SystemExit(0)

"""Helpers shared by the C08 demos / observations.

 * build small TFLite models in memory (with Vela's own classes),
 * compile them in-process with Vela,
 * replay the generated register command stream over a model of the memories (flash / scratch / fast scratch),
   and at every convolution-like NPU operation read back the weight and scale streams the hardware would fetch,
 * decode them (mlw_codec.decode + an independent python re-implementation of the hardware weight order) and compare
   against the operator's weights / biases / scales.
"""
import contextlib
import io
import math
import os
import struct
import sys
import tempfile

import numpy as np

from ethosu import mlw_codec
from ethosu.vela import architecture_features
from ethosu.vela import compiler_driver
from ethosu.vela import model_reader
from ethosu.vela import scheduler
from ethosu.vela import tflite_writer
from ethosu.vela.data_type import DataType
from ethosu.vela.debug_database import DebugDatabase
from ethosu.vela.nn_graph import Graph
from ethosu.vela.nn_graph import Pass
from ethosu.vela.nn_graph import PassPlacement
from ethosu.vela.nn_graph import Subgraph
from ethosu.vela.nn_graph import TensorAllocator
from ethosu.vela.operation import Op
from ethosu.vela.operation import Operation
from ethosu.vela.operation import Padding
from ethosu.vela.tensor import create_const_tensor
from ethosu.vela.tensor import QuantizationParameters
from ethosu.vela.tensor import Tensor
from ethosu.vela.tensor import TensorAddressMap
from ethosu.vela.weight_compressor import CompressedWeightCache

# --------------------------------------------------------------------------------------------------------------------
# Model building
# --------------------------------------------------------------------------------------------------------------------


def quant(scale, zero_point=0, dtype=None):
    qp = QuantizationParameters()
    if isinstance(scale, (list, tuple, np.ndarray)):
        qp.scale_f32 = np.array(scale, dtype=np.float32)
        qp.zero_point = np.zeros(len(scale), dtype=np.int64) + np.array(zero_point, dtype=np.int64)
        qp.quant_dim = 0
    else:
        qp.scale_f32 = np.float32(scale)
        qp.zero_point = int(zero_point)
    return qp


_np2dt = {
    np.dtype(np.int8): DataType.int8,
    np.dtype(np.uint8): DataType.uint8,
    np.dtype(np.int16): DataType.int16,
    np.dtype(np.int32): DataType.int32,
    np.dtype(np.int64): DataType.int64,
}


class ModelBuilder:
    """Builds a single-subgraph TFLite model; tensors are given/returned as Vela Tensor objects"""

    def __init__(self, name="m"):
        self.name = name
        self.ops = []
        self.inputs = []
        self.count = 0

    def input(self, shape, dtype=DataType.int8, scale=0.5, zero_point=0, name=None):
        t = Tensor(list(shape), dtype, name or f"input{len(self.inputs)}")
        t.quantization = quant(scale, zero_point)
        op = Operation(Op.Placeholder, t.name + "_ph")
        op.set_output_tensor(t)
        self.ops.append(op)
        self.inputs.append(t)
        return t

    def const(self, name, values, scale=None, zero_point=0, quant_dim=None):
        values = np.asarray(values)
        t = create_const_tensor(name, list(values.shape), _np2dt[values.dtype], values)
        if scale is not None:
            t.quantization = quant(scale, zero_point)
            if quant_dim is not None:
                t.quantization.quant_dim = quant_dim
        self.ops.append(t.ops[0])
        return t

    def _out(self, shape, dtype, scale, zero_point, name):
        t = Tensor(list(shape), dtype, name)
        t.quantization = quant(scale, zero_point)
        return t

    def _conv_like(self, op_type, ifm, weights, bias, ofm_shape, attrs, ofm_scale, ofm_zp, name, act=None):
        self.count += 1
        name = name or f"op{self.count}"
        op = Operation(op_type, name)
        op.attrs.update(attrs)
        op.attrs["fused_activation_function"] = act
        op.add_input_tensor(ifm)
        op.add_input_tensor(weights)
        if bias is not None:
            op.add_input_tensor(bias)
        ofm = self._out(ofm_shape, ifm.dtype, ofm_scale, ofm_zp, name + "_ofm")
        op.set_output_tensor(ofm)
        self.ops.append(op)
        return ofm

    @staticmethod
    def _out_hw(ih, iw, kh, kw, sh, sw, dh, dw, padding):
        ekh, ekw = (kh - 1) * dh + 1, (kw - 1) * dw + 1
        if padding == Padding.SAME:
            return -(-ih // sh), -(-iw // sw)
        return (ih - ekh) // sh + 1, (iw - ekw) // sw + 1

    def conv2d(
        self,
        ifm,
        w_ohwi,
        w_scale,
        bias,
        w_zp=0,
        stride=(1, 1),
        dilation=(1, 1),
        padding=Padding.SAME,
        ofm_scale=0.5,
        ofm_zp=0,
        name=None,
        share_weights=None,
        share_bias=None,
    ):
        """w_ohwi: numpy array [O, H, W, I]; bias: numpy int32/int64 [O] or None; stride/dilation are (h, w)"""
        self.count += 0
        n = name or f"op{self.count + 1}"
        per_ch = isinstance(w_scale, (list, tuple, np.ndarray))
        wt = share_weights or self.const(n + "_w", w_ohwi, w_scale, w_zp, 0 if per_ch else None)
        bt = share_bias
        if bt is None and bias is not None:
            b_scale = np.array(w_scale, dtype=np.float32) * np.float32(ifm.quantization.scale_f32)
            bt = self.const(n + "_b", bias, list(b_scale) if per_ch else float(b_scale), 0, 0 if per_ch else None)
        o, kh, kw, _ = wt.shape
        oh, ow = self._out_hw(ifm.shape[1], ifm.shape[2], kh, kw, stride[0], stride[1], dilation[0], dilation[1], padding)
        attrs = {
            "padding": padding,
            "stride_h": stride[0],
            "stride_w": stride[1],
            "dilation_h_factor": dilation[0],
            "dilation_w_factor": dilation[1],
        }
        return self._conv_like(Op.Conv2DBias, ifm, wt, bt, [1, oh, ow, o], attrs, ofm_scale, ofm_zp, n)

    def depthwise(
        self,
        ifm,
        w_1hwc,
        w_scale,
        bias,
        w_zp=0,
        stride=(1, 1),
        dilation=(1, 1),
        padding=Padding.SAME,
        ofm_scale=0.5,
        ofm_zp=0,
        name=None,
        depth_multiplier=1,
    ):
        n = name or f"op{self.count + 1}"
        per_ch = isinstance(w_scale, (list, tuple, np.ndarray))
        wt = self.const(n + "_w", w_1hwc, w_scale, w_zp, 3 if per_ch else None)
        bt = None
        if bias is not None:
            b_scale = np.array(w_scale, dtype=np.float32) * np.float32(ifm.quantization.scale_f32)
            bt = self.const(n + "_b", bias, list(b_scale) if per_ch else float(b_scale), 0, 0 if per_ch else None)
        _, kh, kw, c = wt.shape
        oh, ow = self._out_hw(ifm.shape[1], ifm.shape[2], kh, kw, stride[0], stride[1], dilation[0], dilation[1], padding)
        attrs = {
            "padding": padding,
            "stride_h": stride[0],
            "stride_w": stride[1],
            "dilation_h_factor": dilation[0],
            "dilation_w_factor": dilation[1],
            "depth_multiplier": depth_multiplier,
        }
        return self._conv_like(Op.DepthwiseConv2DBias, ifm, wt, bt, [1, oh, ow, c], attrs, ofm_scale, ofm_zp, n)

    def fully_connected(self, ifm, w_oi, w_scale, bias, w_zp=0, ofm_scale=0.5, ofm_zp=0, name=None):
        n = name or f"op{self.count + 1}"
        wt = self.const(n + "_w", w_oi, w_scale, w_zp)
        bt = None
        if bias is not None:
            bt = self.const(n + "_b", bias, float(np.float32(w_scale) * np.float32(ifm.quantization.scale_f32)), 0)
        attrs = {"weights_format": 0, "keep_num_dims": False, "asymmetric_quantize_inputs": False}
        return self._conv_like(Op.FullyConnected, ifm, wt, bt, [ifm.shape[0], wt.shape[0]], attrs, ofm_scale, ofm_zp, n)

    def transpose_conv(self, ifm, w_ohwi, w_scale, bias, stride=(2, 2), padding=Padding.SAME, ofm_scale=0.5, name=None):
        self.count += 1
        n = name or f"op{self.count}"
        wt = self.const(n + "_w", w_ohwi, w_scale, 0)
        o, kh, kw, _ = wt.shape
        if padding == Padding.SAME:
            oh, ow = ifm.shape[1] * stride[0], ifm.shape[2] * stride[1]
        else:
            oh, ow = (ifm.shape[1] - 1) * stride[0] + kh, (ifm.shape[2] - 1) * stride[1] + kw
        shape_t = self.const(n + "_shape", np.array([1, oh, ow, o], dtype=np.int32))
        op = Operation(Op.Conv2DBackpropInput, n)
        op.attrs.update({"padding": padding, "stride_h": stride[0], "stride_w": stride[1]})
        op.attrs["fused_activation_function"] = None
        op.add_input_tensor(shape_t)
        op.add_input_tensor(wt)
        op.add_input_tensor(ifm)
        if bias is not None:
            bt = self.const(n + "_b", bias, float(np.float32(w_scale) * np.float32(ifm.quantization.scale_f32)), 0)
            op.add_input_tensor(bt)
        ofm = self._out([1, oh, ow, o], ifm.dtype, ofm_scale, 0, n + "_ofm")
        op.set_output_tensor(ofm)
        self.ops.append(op)
        return ofm

    def binary(self, op_type, a, b, ofm_scale=0.5, name=None):
        self.count += 1
        n = name or f"op{self.count}"
        op = Operation(op_type, n)
        op.attrs["fused_activation_function"] = None
        op.add_input_tensor(a)
        op.add_input_tensor(b)
        ofm = self._out(a.shape, a.dtype, ofm_scale, 0, n + "_ofm")
        op.set_output_tensor(ofm)
        self.ops.append(op)
        return ofm

    def unary(self, op_type, a, ofm_shape=None, attrs=None, extra_inputs=(), ofm_scale=None, name=None):
        self.count += 1
        n = name or f"op{self.count}"
        op = Operation(op_type, n)
        op.attrs.update(attrs or {})
        op.add_input_tensor(a)
        for t in extra_inputs:
            op.add_input_tensor(t)
        ofm = self._out(
            ofm_shape or a.shape,
            a.dtype,
            a.quantization.scale_f32 if ofm_scale is None else ofm_scale,
            a.quantization.zero_point,
            n + "_ofm",
        )
        op.set_output_tensor(ofm)
        self.ops.append(op)
        return ofm

    def tflite_bytes(self, outputs):
        nng = Graph(self.name)
        sg = Subgraph("main", PassPlacement.Cpu)
        sg.input_tensors = list(self.inputs)
        sg.original_inputs = list(self.inputs)
        sg.output_tensors = list(outputs)
        ps = Pass("all", PassPlacement.Cpu, False, None)
        ps.ops = list(self.ops)
        sg.passes = [ps]
        nng.subgraphs.append(sg)
        with _quiet_stdout(True):
            buf = bytes(tflite_writer.write_tflite_buffer(nng))
        return buf


# --------------------------------------------------------------------------------------------------------------------
# Compiling
# --------------------------------------------------------------------------------------------------------------------


@contextlib.contextmanager
def _quiet_stdout(enable):
    """Silence everything written to stdout (also by code that captured sys.stdout at import time)"""
    if not enable:
        yield
        return
    sys.stdout.flush()
    saved = os.dup(1)
    devnull = os.open(os.devnull, os.O_WRONLY)
    os.dup2(devnull, 1)
    try:
        with contextlib.redirect_stdout(io.StringIO()):
            yield
    finally:
        sys.stdout.flush()
        os.dup2(saved, 1)
        os.close(saved)
        os.close(devnull)


class Compiled:
    def __init__(self, nng, arch):
        self.nng = nng
        self.arch = arch


def compile_tflite(
    tfl_bytes,
    accelerator="ethos-u55-128",
    system_config=None,
    memory_mode=None,
    arena_cache_size=None,
    optimise="Performance",
    quiet=True,
    config_files=None,
    clear_state=True,
):
    """Compile the model the same way vela.main()/process() does, but keep everything in memory; returns Compiled"""
    from ethosu.vela import vela as vela_main

    if system_config is None:
        system_config = architecture_features.ArchitectureFeatures.DEFAULT_CONFIG
    if memory_mode is None:
        memory_mode = architecture_features.ArchitectureFeatures.DEFAULT_CONFIG
    with tempfile.TemporaryDirectory() as tmp:
        path = os.path.join(tmp, "model.tflite")
        with open(path, "wb") as f:
            f.write(tfl_bytes)
        with _quiet_stdout(quiet):
            arch = architecture_features.ArchitectureFeatures(
                vela_config_files=config_files,
                system_config=system_config,
                memory_mode=memory_mode,
                accelerator_config=accelerator,
                max_blockdep=architecture_features.ArchitectureFeatures.MAX_BLOCKDEP,
                verbose_config=False,
                arena_cache_size=arena_cache_size,
            )
            compiler_options = compiler_driver.CompilerOptions(
                tensor_allocator=TensorAllocator.HillClimb, output_dir=os.path.join(tmp, "output")
            )
            scheduler_options = scheduler.SchedulerOptions(
                optimization_strategy=scheduler.OptimizationStrategy.Performance
                if optimise == "Performance"
                else scheduler.OptimizationStrategy.Size,
                sram_target=arch.arena_cache_size,
                verbose_schedule=False,
                verbose_progress=False,
            )
            nng = vela_main.process(
                path, False, arch, model_reader.ModelReaderOptions(), compiler_options, scheduler_options, False
            )
    return Compiled(nng, arch)


# --------------------------------------------------------------------------------------------------------------------
# Independent model of the hardware weight order and of the scale records
# --------------------------------------------------------------------------------------------------------------------


def hw_weight_order(
    ohwi, ifm_ublock_depth, ofm_ublock_depth, ofm_block_depth, is_depthwise, is_partkernel, ifm_bitdepth, decomp_h, decomp_w
):
    """The order (incl. zero padding) in which the hardware expects the weights of a volume [O, H, W, I]"""
    ofm_depth, kh, kw, ifm_depth = ohwi.shape
    res = []
    ifm_block_depth = 16 if (is_partkernel or ifm_bitdepth == 16) else 32
    for ofm_block_z in range(0, ofm_depth, ofm_block_depth):
        clipped_ofm_block_depth = min(ofm_block_depth, ofm_depth - ofm_block_z)
        for ifm_block_z in range(0, 1 if is_depthwise else ifm_depth, ifm_block_depth):
            if is_depthwise:
                clipped_ifm_block_depth = ifm_ublock_depth
            elif is_partkernel:
                clipped_ifm_block_depth = min(ifm_block_depth, ifm_depth - ifm_block_z)
            else:
                clipped_ifm_block_depth = ifm_block_depth
            for sky in range(0, kh, decomp_h):
                sub_h = min(kh - sky, decomp_h)
                for skx in range(0, kw, decomp_w):
                    sub_w = min(kw - skx, decomp_w)
                    elems = sub_w * sub_h
                    if is_partkernel:
                        elems = -(-elems // (2 if ifm_bitdepth == 16 else 4)) * (2 if ifm_bitdepth == 16 else 4)
                    elif is_depthwise:
                        elems = -(-elems // 4) * 4
                    outer = clipped_ifm_block_depth if is_partkernel else 1
                    inner = 1 if is_partkernel else clipped_ifm_block_depth
                    for ifm_ublk_outer in range(0, outer, ifm_ublock_depth):
                        for ofm_ublk in range(0, clipped_ofm_block_depth, ofm_ublock_depth):
                            for element in range(elems):
                                kx = element % sub_w
                                ky = element // sub_w
                                for ifm_ublk_inner in range(0, inner, ifm_ublock_depth):
                                    for ofm_ublock_z in range(ofm_ublock_depth):
                                        for ifm_ublock_z in range(1 if is_depthwise else ifm_ublock_depth):
                                            ifm_z = ifm_block_z + ifm_ublk_inner + ifm_ublk_outer + ifm_ublock_z
                                            ofm_z = ofm_block_z + ofm_ublk + ofm_ublock_z
                                            if ifm_z < ifm_depth and ofm_z < ofm_depth and ky < sub_h:
                                                res.append(int(ohwi[ofm_z, sky + ky, skx + kx, ifm_z]))
                                            else:
                                                res.append(0)
    return res


def safe_decode(data):
    """mlw_codec.decode in a forked child: the C decoder terminates the process on some malformed streams"""
    import pickle

    r, w = os.pipe()
    sys.stdout.flush()
    sys.stderr.flush()
    pid = os.fork()
    if pid == 0:
        code = 1
        try:
            os.close(r)
            devnull = os.open(os.devnull, os.O_WRONLY)
            os.dup2(devnull, 1)
            os.dup2(devnull, 2)
            res = [int(v) for v in mlw_codec.decode(bytearray(data))]
            payload = pickle.dumps(res)
            view = memoryview(payload)
            while len(view):
                n = os.write(w, view)
                view = view[n:]
            code = 0
        finally:
            os._exit(code)
    os.close(w)
    chunks = []
    while True:
        chunk = os.read(r, 1 << 16)
        if not chunk:
            break
        chunks.append(chunk)
    os.close(r)
    _, status = os.waitpid(pid, 0)
    if status != 0 or not chunks:
        raise ValueError("the weight decoder rejected the stream")
    return pickle.loads(b"".join(chunks))


def decode_scale_records(data):
    """list of (bias, multiplier, shift) from a scale stream of 10-byte records"""
    res = []
    for i in range(0, len(data) - len(data) % 10, 10):
        rec = bytes(data[i : i + 10])
        bias = int.from_bytes(rec[0:5], "little", signed=True)
        mult = int.from_bytes(rec[5:9], "little", signed=False)
        shift = rec[9] & 0x3F
        res.append((bias, mult, shift, rec[9] >> 6))
    return res


def ref_quantise_scale(scale):
    """TFLite QuantizeMultiplier on a double; returns multiplier, right shift (as used by the hardware)"""
    if scale == 0:
        return 0, 0
    sig, exp = math.frexp(scale)
    q = int(math.floor(abs(sig) * (1 << 31) + 0.5))
    if q == (1 << 31):
        q //= 2
        exp += 1
    shift = 31 - exp
    if not (0 <= shift < 64):
        return 0, 16
    return q, shift


def ref_reduced_quantise_scale(scale):
    q, shift = ref_quantise_scale(scale)
    rq = ((q + (1 << 15)) >> 16) if q < 0x7FFF0000 else 0x7FFF
    rs = shift - 16
    if not (0 <= rs < 64):
        return 0, 16
    return rq, rs


# --------------------------------------------------------------------------------------------------------------------
# Replaying a register command stream
# --------------------------------------------------------------------------------------------------------------------

from ethosu.vela.ethos_u55_regs.ethos_u55_regs import cmd0, cmd1  # noqa: E402


class Fetch:
    """What one convolution-like NPU operation fetches"""

    def __init__(self):
        self.kind = None  # 'conv' | 'depthwise'
        self.regs = {}
        self.weight_streams = []  # per core bytes
        self.scale_streams = []  # per core bytes
        self.weight_addrs = []
        self.scale_addrs = []
        self.index = 0


def iter_commands(words):
    i = 0
    while i < len(words):
        w = int(words[i])
        code = w & 0x3FF
        is_cmd1 = (w >> 14) & 0x3 == 1
        param = (w >> 16) & 0xFFFF
        if is_cmd1:
            payload = int(words[i + 1])
            i += 2
            yield True, code, param, payload
        else:
            i += 1
            yield False, code, param, 0


def replay(words, memories, region_to_mem, ncores):
    """memories: dict name -> bytearray ; region_to_mem: region index -> name. Returns list of Fetch"""
    c0 = {c.value: c.name for c in cmd0}
    c1 = {c.value: c.name for c in cmd1}
    regs = {}
    fetches = []

    def mem_for(region):
        return memories[region_to_mem[region]]

    def read(region, addr, length):
        m = mem_for(region)
        if addr + length > len(m):
            m.extend(bytearray(addr + length - len(m)))
        return bytes(m[addr : addr + length])

    def write(region, addr, data):
        m = mem_for(region)
        if addr + len(data) > len(m):
            m.extend(bytearray(addr + len(data) - len(m)))
        m[addr : addr + len(data)] = data

    for is1, code, param, payload in iter_commands(words):
        if is1:
            name = c1[code]
            regs[name] = (param << 32) | payload
        else:
            name = c0[code]
            if name == "NPU_OP_DMA_START":
                length = regs["NPU_SET_DMA0_LEN"]
                data = read(regs["NPU_SET_DMA0_SRC_REGION"] & 0x7, regs["NPU_SET_DMA0_SRC"], length)
                dst_region = regs["NPU_SET_DMA0_DST_REGION"]
                if (dst_region >> 8) & 1:
                    pass  # internal (LUT) destination
                else:
                    write(dst_region & 0x7, regs["NPU_SET_DMA0_DST"], data)
            elif name in ("NPU_OP_CONV", "NPU_OP_DEPTHWISE"):
                f = Fetch()
                f.kind = "conv" if name == "NPU_OP_CONV" else "depthwise"
                f.regs = dict(regs)
                f.index = len(fetches)
                wr = regs["NPU_SET_WEIGHT_REGION"]
                sr = regs["NPU_SET_SCALE_REGION"]
                for core in range(ncores):
                    sfx = "" if core == 0 else "1"
                    wb = regs.get(f"NPU_SET_WEIGHT{sfx}_BASE", 0)
                    wl = regs.get(f"NPU_SET_WEIGHT{sfx}_LENGTH", 0)
                    sb = regs.get(f"NPU_SET_SCALE{sfx}_BASE", 0)
                    sl = regs.get(f"NPU_SET_SCALE{sfx}_LENGTH", 0)
                    f.weight_addrs.append((wr, wb, wl))
                    f.scale_addrs.append((sr, sb, sl))
                    f.weight_streams.append(read(wr, wb, wl))
                    f.scale_streams.append(read(sr, sb, sl))
                fetches.append(f)
            else:
                regs[name] = param
    return fetches


# --------------------------------------------------------------------------------------------------------------------
# Checking a compiled network
# --------------------------------------------------------------------------------------------------------------------

# accelerator -> (ifm ublock depth, ofm ublock depth, cores); from the Ethos-U technical reference manuals
HW = {
    "ethos-u55-32": (8, 4, 1),
    "ethos-u55-64": (8, 8, 1),
    "ethos-u55-128": (8, 8, 1),
    "ethos-u55-256": (8, 8, 1),
    "ethos-u65-256": (8, 8, 1),
    "ethos-u65-512": (8, 8, 2),
}


def expected_scales(op):
    """Reference (bias, multiplier, shift) per output channel of a convolution-like Vela operation"""
    from ethosu.vela.operation import RoundingMode

    bias_t = op.bias
    biases = [int(b) for b in np.asarray(bias_t.values).flatten()]
    ifm_dtype = op.ifm.dtype
    iq = op.get_input_quantization()
    oq = op.get_output_quantization()
    ifm_scale = np.float32(1.0) if iq is None or iq.scale_f32 is None else iq.scale_f32
    ofm_scale = np.float32(1.0) if oq is None or oq.scale_f32 is None else oq.scale_f32
    w_scales = op.weights.quantization.scale_f32
    if not hasattr(w_scales, "__iter__"):
        w_scales = [w_scales]
    if op.explicit_scaling:
        qs = [(int(m), int(s)) for s, m in zip(op.explicit_scaling.shift, op.explicit_scaling.multiplier)]
    else:
        scales = []
        for ws in w_scales:
            if ifm_dtype == DataType.uint8 or op.original_type == Op.FullyConnected:
                s = float(np.double(np.float32(ifm_scale) * np.float32(ws)) / np.double(ofm_scale))
            else:
                s = float(np.double(ifm_scale) * np.double(ws) / np.double(ofm_scale))
            scales.append(s)
        if ifm_dtype == DataType.int16 and bias_t.dtype == DataType.int64:
            qs = [ref_reduced_quantise_scale(s) for s in scales]
        else:
            qs = [ref_quantise_scale(s) for s in scales]
    if op.rounding_mode == RoundingMode.AwayZero:
        qs = [(m + 1, s) for m, s in qs]
    if len(qs) == 1:
        qs = qs * len(biases)
    return [(b, m, s) for b, (m, s) in zip(biases, qs)]


def expected_weights_ohwi(op):
    """zero-point corrected weights of a Vela operation (after graph optimisation) as [O, H, W, I] int array"""
    w = np.asarray(op.weights.values).astype(np.int64)
    zp = op.weights.quantization.zero_point
    w = w - (np.asarray(zp).astype(np.int64) if zp is not None else 0)
    if w.ndim == 2:
        w = w.reshape((1, 1) + w.shape)
    if op.type == Op.Conv2DBackpropInputSwitchedBias:
        w = np.flip(w, axis=(0, 1))
    return np.transpose(w, (3, 0, 1, 2))


def round_up(a, b):
    return -(-a // b) * b


def check_network(compiled, accelerator, verbose=False):
    """Returns a list of violation strings (empty when everything the NPU fetches is right)"""
    from ethosu.vela.high_level_command_stream import DMA
    from ethosu.vela.high_level_command_stream import NpuStripe
    from ethosu.vela.operation import NpuBlockType

    ifm_ub, ofm_ub, ncores = HW[accelerator]
    problems = []
    nchecked = 0
    for sg in compiled.nng.subgraphs:
        if sg.placement != PassPlacement.Npu:
            continue
        words = list(sg.register_command_stream)
        memories = {
            "flash": bytearray(bytes(np.asarray(sg.flash_tensor.values, dtype=np.uint8).tobytes())),
            "scratch": bytearray(),
            "fast": bytearray(),
        }
        fetches = replay(words, memories, {0: "flash", 1: "scratch", 2: "fast"}, ncores)
        stripes = [
            cmd
            for cmd in sg.high_level_command_stream
            if isinstance(cmd, NpuStripe)
            and cmd.ps.primary_op.type.npu_block_type
            in (NpuBlockType.ConvolutionMxN, NpuBlockType.VectorProduct, NpuBlockType.ConvolutionDepthWise)
        ]
        if len(stripes) != len(fetches):
            problems.append(f"{sg.name}: {len(stripes)} conv stripes but {len(fetches)} conv operations in the stream")
            continue
        for cmd, f in zip(stripes, fetches):
            op = cmd.ps.primary_op
            where = f"{op.name}[{f.index}]"
            c0, c1 = cmd.ofm_box.start_coord[-1], cmd.ofm_box.end_coord[-1]
            if op.write_offset is not None:
                c0 -= op.write_offset.depth
                c1 -= op.write_offset.depth
            depth = f.regs["NPU_SET_OFM_DEPTH_M1"] + 1
            if depth != c1 - c0:
                problems.append(f"{where}: OFM depth register {depth} != box depth {c1 - c0}")
            blk_depth = f.regs["NPU_SET_OFM_BLK_DEPTH_M1"] + 1
            kstride = f.regs["NPU_SET_KERNEL_STRIDE"]
            part_kernel = bool((kstride >> 2) & 1)
            dil_x = ((kstride >> 3) & 1) + 1
            dil_y = ((kstride >> 4) & 1) + 1
            is_dw = f.kind == "depthwise"
            ifm_bits = op.ifm.dtype.size_in_bits()
            ohwi = expected_weights_ohwi(op)
            exp_scales = expected_scales(op) if op.bias is not None else None
            kh_reg = f.regs["NPU_SET_KERNEL_HEIGHT_M1"]
            kw_reg = f.regs["NPU_SET_KERNEL_WIDTH_M1"]
            if kh_reg != dil_y * (ohwi.shape[1] - 1) or kw_reg != dil_x * (ohwi.shape[2] - 1):
                problems.append(f"{where}: kernel registers {kh_reg},{kw_reg} do not match weights {ohwi.shape}")
            ranges = []
            for core in range(ncores):
                chans = list(range(c0 + core, c1, ncores))
                wreg, wbase, wlen = f.weight_addrs[core]
                sreg, sbase, slen = f.scale_addrs[core]
                if not chans:
                    if wlen != 0 or slen != 0:
                        problems.append(f"{where} core {core}: no channels but lengths {wlen}/{slen}")
                    continue
                nchecked += 1
                if wbase % 16 or sbase % 16 or wlen % 16 or slen % 16:
                    problems.append(f"{where} core {core}: unaligned range w=({wbase},{wlen}) s=({sbase},{slen})")
                ranges.append((wreg, wbase, wbase + wlen))
                ranges.append((sreg, sbase, sbase + slen))
                # scales
                if slen != round_up(10 * len(chans), 16):
                    problems.append(
                        f"{where} core {core}: scale length {slen} but {len(chans)} channels need "
                        f"{round_up(10 * len(chans), 16)}"
                    )
                recs = decode_scale_records(f.scale_streams[core])[: len(chans)]
                if exp_scales is not None:
                    want = [exp_scales[c] for c in chans]
                    got = [r[:3] for r in recs]
                    if got != want:
                        bad = [i for i in range(min(len(got), len(want))) if got[i] != want[i]]
                        i = bad[0] if bad else min(len(got), len(want))
                        problems.append(
                            f"{where} core {core}: scale record of channel {chans[i] if i < len(chans) else '?'} is "
                            f"{got[i] if i < len(got) else None}, expected {want[i] if i < len(want) else None}"
                            f" ({len(bad)} of {len(want)} differ)"
                        )
                # weights
                core_blk = (blk_depth + ncores - 1 - core) // ncores
                want_w = hw_weight_order(
                    ohwi[chans], ifm_ub, ofm_ub, core_blk, is_dw, part_kernel, ifm_bits, 8 // dil_y, 8 // dil_x
                )
                try:
                    got_w = safe_decode(f.weight_streams[core])
                except Exception as e:  # noqa: B902
                    got_w = None
                    problems.append(f"{where} core {core}: weight stream does not decode ({e})")
                if got_w is not None and got_w != want_w:
                    n = sum(1 for a, b in zip(got_w, want_w) if a != b)
                    problems.append(
                        f"{where} core {core}: weight stream at {wreg}:{wbase}+{wlen} decodes to {len(got_w)} weights, "
                        f"expected {len(want_w)} for channels {chans[0]}..{chans[-1]} (block depth {core_blk}); "
                        f"{n} values differ"
                    )
            # ranges of one operation must not overlap
            ranges.sort()
            for a, b in zip(ranges, ranges[1:]):
                if a[0] == b[0] and b[1] < a[2]:
                    problems.append(f"{where}: overlapping ranges {a} {b}")
        # weight DMAs must stay inside the buffer they target
        dma_cmds = [cmd for cmd in sg.high_level_command_stream if isinstance(cmd, DMA)]
        dmas = list(iter_dmas(words))
        if len(dma_cmds) == len(dmas):
            for cmd, (src_region, src, dst_region, dst, length) in zip(dma_cmds, dmas):
                if cmd.out_tensor.purpose.name == "Weights":
                    lo = cmd.out_tensor.address
                    hi = lo + cmd.out_tensor.storage_size()
                    if dst < lo or dst + length > hi:
                        problems.append(
                            f"DMA of {length} bytes to {dst} leaves buffer {cmd.out_tensor.name} [{lo},{hi})"
                        )
        else:
            problems.append(f"{sg.name}: {len(dma_cmds)} DMA commands but {len(dmas)} DMA operations")
    if verbose:
        print(f"checked {nchecked} (op, slice, core) fetches, {len(problems)} problems")
    return problems, nchecked


def iter_dmas(words):
    c0 = {c.value: c.name for c in cmd0}
    c1 = {c.value: c.name for c in cmd1}
    regs = {}
    for is1, code, param, payload in iter_commands(words):
        if is1:
            regs[c1[code]] = (param << 32) | payload
        else:
            name = c0[code]
            if name == "NPU_OP_DMA_START":
                yield (
                    regs["NPU_SET_DMA0_SRC_REGION"] & 7,
                    regs["NPU_SET_DMA0_SRC"],
                    regs["NPU_SET_DMA0_DST_REGION"] & 7,
                    regs["NPU_SET_DMA0_DST"],
                    regs["NPU_SET_DMA0_LEN"],
                )
            else:
                regs[name] = param

"""
Random search for C04 violations: builds random operation lists through the public API, generates the
command stream and runs the independent oracle over it.
Usage: cd /tmp/seed9/C04 && /venv/bin/python out/fuzz_c04.py [n_iterations] [seed]
"""
import os
import random
import sys

sys.path.insert(0, os.getcwd())
sys.path.insert(0, os.path.dirname(os.path.abspath(__file__)))

from c04_build import *  # noqa: E402,F401,F403
from c04_oracle import check_stream  # noqa: E402
from ethosu.vela.api import npu_find_block_configs  # noqa: E402
from ethosu.vela.api import npu_generate_register_command_stream  # noqa: E402
from ethosu.vela.api import NpuResamplingMode  # noqa: E402

DTYPES = [NpuDataType.INT8, NpuDataType.UINT8, NpuDataType.INT16]


def round_up16(v):
    return (v + 15) // 16 * 16


def rand_fm(rnd, h, w, d, dtype, arena):
    """Feature map somewhere in a small arena; sometimes NHCWB16, sometimes split in tiles"""
    es = dtype.size_in_bytes()
    layout = NpuLayout.NHCWB16 if rnd.random() < 0.3 else NpuLayout.NHWC
    region = rnd.choice([0, 1, 1, 2])
    if layout == NpuLayout.NHWC:
        row = w * d * es
        align = es
    else:
        row = w * ((d + 15) // 16) * 16 * es
        align = 16
    base = rnd.randrange(0, arena, 16)
    f = fm(h, w, d, region, base, dtype, layout)
    mode = rnd.random()
    if mode < 0.15 and h > 1:
        # two tiles stacked vertically (rolling buffer): rows >= h0 wrap to another address
        h0 = rnd.randrange(1, h)
        a2 = base + round_up16(h * row) + rnd.randrange(0, 512, 16)  # tiles of one feature map never alias
        f.tiles = NpuTileBox(height_0=h0, height_1=h0, width_0=w, addresses=[base, 0, a2, 0])
    elif mode < 0.25 and w > 1 and layout == NpuLayout.NHWC:
        w0 = rnd.randrange(1, w)
        a1 = base + round_up16(h * row) + rnd.randrange(0, 512, 16)
        h1 = rnd.randrange(1, h + 1)
        a3 = a1 + round_up16(h * row) + rnd.randrange(0, 512, 16)
        f.tiles = NpuTileBox(height_0=h, height_1=h1, width_0=w0, addresses=[base, a1, 0, a3])
    return f


def rand_kernel_op(rnd, arena, accel, prev_ofm):
    kind = rnd.choice(["ew", "ew", "pool", "dw", "conv", "conv"])
    dtype = rnd.choice(DTYPES)
    d = rnd.choice([1, 3, 8, 16, 17, 24, 32, 40])
    if kind == "ew":
        h, w = rnd.randrange(1, 20), rnd.randrange(1, 20)
        ifm = rand_fm(rnd, h, w, d, dtype, arena)
        if prev_ofm is not None and rnd.random() < 0.6:
            ifm = prev_ofm
            h, w, d, dtype = ifm.shape.height, ifm.shape.width, ifm.shape.depth, ifm.data_type
        ofm = rand_fm(rnd, h, w, d, dtype, arena)
        r = rnd.random()
        if r < 0.3:
            op = elementwise(NpuElementWiseOp.ABS, ifm, None, ofm, (1, 1, 1))
        elif r < 0.5:
            ifm2 = rand_fm(rnd, 1, 1, 1, dtype, arena)
            op = elementwise(NpuElementWiseOp.ADD, ifm, ifm2, ofm, (1, 1, 1), scalar=3.0)
        else:
            bh, bw = rnd.random() < 0.2, rnd.random() < 0.2
            ifm2 = rand_fm(rnd, 1 if bh else h, 1 if bw else w, d, dtype, arena)
            if prev_ofm is not None and ifm is not prev_ofm and rnd.random() < 0.5 and not bh and not bw:
                if (prev_ofm.shape, prev_ofm.data_type) == (ifm.shape, ifm.data_type):
                    ifm2 = prev_ofm
            op = elementwise(rnd.choice([NpuElementWiseOp.ADD, NpuElementWiseOp.MIN]), ifm, ifm2, ofm, (1, 1, 1))
    else:
        kw, kh = rnd.randrange(1, 4), rnd.randrange(1, 4)
        sx, sy = rnd.randrange(1, 3), rnd.randrange(1, 3)
        dx, dy = (rnd.randrange(1, 3), rnd.randrange(1, 3)) if kind in ("conv", "dw") else (1, 1)
        dkw, dkh = (kw - 1) * dx + 1, (kh - 1) * dy + 1
        pt, pl, pb, pr = [rnd.randrange(0, 2) for _ in range(4)]
        pt, pb, pl, pr = min(pt, dkh - 1), min(pb, dkh - 1), min(pl, dkw - 1), min(pr, dkw - 1)
        ih, iw = rnd.randrange(dkh, dkh + 18), rnd.randrange(dkw, dkw + 18)
        ifm = rand_fm(rnd, ih, iw, d, dtype, arena)
        if prev_ofm is not None and rnd.random() < 0.6 and prev_ofm.shape.height >= dkh and prev_ofm.shape.width >= dkw:
            ifm = prev_ofm
            ih, iw, d, dtype = ifm.shape.height, ifm.shape.width, ifm.shape.depth, ifm.data_type
        up = 2 if (kind in ("pool", "conv") and rnd.random() < float(os.environ.get("FUZZ_UPSCALE", "0"))) else 1
        oh = (ih * up + pt + pb - dkh) // sy + 1
        ow = (iw * up + pl + pr - dkw) // sx + 1
        # make the IFM exactly as large as the hardware will read
        od = d if kind in ("pool", "dw") else rnd.choice([8, 16, 24])
        ofm = rand_fm(rnd, oh, ow, od, dtype, arena)
        kernel = NpuKernel(kw, kh, sx, sy, dx, dy)
        if kind == "pool":
            op = pool(rnd.choice([NpuPoolingOp.MAX, NpuPoolingOp.AVERAGE]), ifm, ofm, kernel, (1, 1, 1), (pt, pl, pb, pr))
        else:
            wlen = 16 * rnd.randrange(1, 8)
            weights = [NpuAddressRange(rnd.choice([0, 1]), rnd.randrange(0, arena, 16), wlen)]
            biases = [NpuAddressRange(rnd.choice([0, 1]), rnd.randrange(0, arena, 16), 16 * rnd.randrange(1, 4))]
            if accel == "u65-512":
                weights.append(NpuAddressRange(weights[0].region, rnd.randrange(0, arena, 16), wlen))
                biases.append(NpuAddressRange(biases[0].region, rnd.randrange(0, arena, 16), 16))
            op = conv(ifm, ofm, kernel, (1, 1, 1), weights, biases, (pt, pl, pb, pr), depthwise=(kind == "dw"))
    if kind != "ew" and up == 2:
        op.ifm_upscale = NpuResamplingMode.NEAREST
    if rnd.random() < 0.15 and op.ofm.data_type != NpuDataType.INT16:
        op.activation = lut_activation(rnd.randrange(0, 8))
    try:
        cfgs = npu_find_block_configs(op, ACCELS[accel])
    except AssertionError:
        return None
    op.block_config = rnd.choice(cfgs)
    return op


def rand_dma(rnd, arena, accel, ops):
    length = 16 * rnd.randrange(1, 40)
    r = rnd.random()
    src = (rnd.choice([0, 1, 2]), rnd.randrange(0, arena, 16))
    dst = (rnd.choice([0, 1, 2]), rnd.randrange(0, arena, 16))
    kernels = [o for o in ops if not isinstance(o, NpuDmaOperation)]
    if r < 0.15:
        # LUT transfer into SHRAM
        banks = {"u55-32": 16, "u55-64": 16, "u55-128": 24}.get(accel, 48)
        slot = rnd.randrange(0, 8)
        return dma(src[0], src[1], 0x103, (banks - 2) * 1024 + slot * 256, 256)
    if r < 0.5 and kernels:
        k = rnd.choice(kernels)
        if k.weights and rnd.random() < 0.5:
            w = rnd.choice(k.weights)
            return dma(src[0], src[1], w.region, w.address, w.length)
    return dma(src[0], src[1], dst[0], dst[1], length)


def rand_program(rnd, accel):
    arena = rnd.choice([2048, 8192, 65536])
    ops = []
    prev_ofm = None
    for _ in range(rnd.randrange(2, 9)):
        if rnd.random() < 0.4:
            ops.append(rand_dma(rnd, arena, accel, ops))
        else:
            op = rand_kernel_op(rnd, arena, accel, prev_ofm)
            if op is not None:
                ops.append(op)
                prev_ofm = op.ofm
    return ops


def main():
    n = int(sys.argv[1]) if len(sys.argv) > 1 else 300
    seed = int(sys.argv[2]) if len(sys.argv) > 2 else 1
    rnd = random.Random(seed)
    bad = 0
    errors = 0
    for it in range(n):
        accel = rnd.choice(list(ACCELS))
        ops = rand_program(rnd, accel)
        if not ops:
            continue
        try:
            words = npu_generate_register_command_stream(ops, ACCELS[accel])
        except Exception as e:  # invalid program (alignment, limits ...)
            errors += 1
            if os.environ.get("FUZZ_VERBOSE"):
                print("gen error", type(e).__name__, str(e)[:100])
            continue
        v = check_stream(words, accel, ops)
        if v:
            bad += 1
            print(f"iteration {it} accel {accel}: {len(v)} violation(s)")
            for msg in v[:3]:
                print("   ", msg)
            for i, op in enumerate(ops):
                if isinstance(op, NpuDmaOperation):
                    print(f"    #{i} DMA {op.src} -> {op.dest}")
                else:
                    f = lambda m: None if m is None else (tuple(m.shape), m.region, m.tiles, m.layout.name, m.data_type.name)  # noqa
                    print(f"    #{i} {type(op).__name__} ifm={f(op.ifm)} ifm2={f(op.ifm2) if op.ifm2_scalar is None else 'scalar'} ofm={f(op.ofm)} blk={tuple(op.block_config)} k={vars(op.kernel) if op.kernel else None} pad={op.padding} w={op.weights} b={op.biases} lut={op.activation is not None}")
    print(f"done: {n} programs, {bad} with violations, {errors} rejected by the generator")
    return 1 if bad else 0


if __name__ == "__main__":
    sys.exit(main())

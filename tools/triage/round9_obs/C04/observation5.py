"""
Observation 5 (unmodified tree): observation 1 happens in streams compiled from ordinary networks.

A chain of three int8 CONV_2D operators is written as a .tflite file, compiled with ethosu.vela.vela.main
(default options) and the command stream is taken out of the resulting *_vela.tflite:

    input 1x24x12x16 -> CONV 1x1 (8 ch) -> CONV 1x1 stride 2 (48 ch) -> CONV 3x3 (24 ch)

The tensor allocator re-uses the memory of a feature map as soon as its last consumer has been ISSUED (live ranges
are per operation), so the OFM of kernel k+1 is placed on top of the IFM of kernel k. calc_blockdep() only
considers read-after-write (previous OFM -> current IFM), programs BLOCKDEP 1..3 and nothing orders the first
OFM block writes of kernel k+1 after the last IFM block reads of kernel k (write-after-read, see observation 1).
More networks: the same check fails for 9 of 60 random CONV_2D chains over all six accelerator configurations.

Run: cd /tmp/seed9/C04 && /venv/bin/python out/observation5.py   (prints the violation, exit code 1)
"""
import os
import sys

sys.path.insert(0, os.getcwd())
sys.path.insert(0, os.path.dirname(os.path.abspath(__file__)))
from c04_e2e import build_conv_chain, compile_network, extract_streams  # noqa: E402
from c04_oracle import check_stream, decode, Dma, Kernel  # noqa: E402

here = os.path.dirname(os.path.abspath(__file__))
work = os.path.join(here, "_obs5")
os.makedirs(work, exist_ok=True)
model = os.path.join(work, "chain.tflite")
build_conv_chain(model, [1, 24, 12, 16], [(8, 1, 1), (48, 1, 2), (24, 3, 1)])
compile_network(model, "ethos-u55-128", work)
rc = 0
for words in extract_streams(os.path.join(work, "chain_vela.tflite")):
    for e in decode(words):
        if e.kind == "kernel":
            k = Kernel(e, "u55-128", True, True)
            print(
                f"#{e.index} kernel BLOCKDEP={k.blockdep} IFM region {k.ifm.region} @{k.ifm.base[0]:#x} "
                f"{k.ifm.height}x{k.ifm.width}x{k.ifm.depth}  OFM region {k.ofm.region} @{k.ofm.base[0]:#x} "
                f"{k.ofm.height}x{k.ofm.width}x{k.ofm.depth} block {k.blk}"
            )
        elif e.kind == "dma":
            d = Dma(e)
            print(f"#{e.index} dma {d.src} -> {d.dst}")
        else:
            print("    ", e.kind, e.param)
    v = check_stream(words, "u55-128", None, strict=True)
    for msg in v:
        print("  VIOLATION:", msg)
    rc |= 1 if v else 0
print("FAIL (property violated on the unmodified tree)" if rc else "PASS")
sys.exit(rc)

"""
End-to-end helpers: build a small int8 CONV_2D chain as a .tflite file with Vela's own classes, compile it with
ethosu.vela.vela.main and pull the register command stream(s) out of the resulting *_vela.tflite.
"""
import contextlib
import io
import os
import struct
import sys
import types

import numpy as np

from ethosu.vela import tflite_reader
from ethosu.vela import vela
from ethosu.vela.data_type import DataType
from ethosu.vela.nn_graph import Graph
from ethosu.vela.nn_graph import PassPlacement
from ethosu.vela.nn_graph import Subgraph
from ethosu.vela.operation import Op
from ethosu.vela.operation import Operation
from ethosu.vela.operation import Padding
from ethosu.vela.tensor import create_const_tensor
from ethosu.vela.tensor import QuantizationParameters
from ethosu.vela.tensor import Tensor
from ethosu.vela.tflite_writer import write_tflite


def _qp(scale=0.5, zp=0):
    q = QuantizationParameters()
    q.scale_f32 = np.float32(scale)
    q.zero_point = zp
    q.quant_min = -128
    q.quant_max = 127
    return q


def _fm(name, shape):
    t = Tensor(shape, DataType.int8, name)
    t.quantization = _qp()
    return t


def _conv(name, ifm, ofm_c, k, stride, rng):
    ic = ifm.shape[-1]
    wshape = [ofm_c, k, k, ic]  # TensorFlow Lite layout OHWI
    w = create_const_tensor(name + "_w", wshape, DataType.int8, rng.integers(-5, 5, wshape).astype(np.int8), quantization=_qp(0.01))
    b = create_const_tensor(name + "_b", [ofm_c], DataType.int32, np.zeros([ofm_c], np.int32), quantization=_qp(0.005))
    h = (ifm.shape[1] + stride - 1) // stride
    wd = (ifm.shape[2] + stride - 1) // stride
    ofm = _fm(name + "_out", [1, h, wd, ofm_c])
    op = Operation(Op.Conv2DBias, name)
    op.add_input_tensor(ifm)
    op.add_input_tensor(w)
    op.add_input_tensor(b)
    op.set_output_tensor(ofm)
    op.attrs = {
        "padding": Padding.SAME, "stride_w": stride, "stride_h": stride, "dilation_w_factor": 1,
        "dilation_h_factor": 1, "strides": (1, stride, stride, 1), "fused_activation_function": None,
    }
    return op, ofm


def build_conv_chain(path, input_shape, layers, seed=1):
    """layers: list of (ofm channels, kernel size, stride); all convolutions use SAME padding"""
    rng = np.random.default_rng(seed)
    inp = _fm("input", input_shape)
    ops = []
    cur = inp
    for i, (c, k, s) in enumerate(layers):
        op, cur = _conv(f"conv{i}", cur, c, k, s, rng)
        ops.append(op)
    sg = Subgraph("main", PassPlacement.Cpu)
    sg.input_tensors = [inp]
    sg.original_inputs = [inp]
    sg.output_tensors = [cur]
    sg.passes = [types.SimpleNamespace(ops=ops)]
    nng = Graph("net")
    nng.subgraphs.append(sg)
    write_tflite(nng, path)


def compile_network(path, accelerator, output_dir, extra_args=()):
    """Runs the Vela driver; its report on stdout is discarded"""
    sys.stdout.flush()
    saved = os.dup(1)
    devnull = os.open(os.devnull, os.O_WRONLY)
    try:
        os.dup2(devnull, 1)
        with contextlib.redirect_stdout(io.StringIO()):
            vela.main([path, "--accelerator-config", accelerator, "--output-dir", output_dir] + list(extra_args))
    finally:
        sys.stdout.flush()
        os.dup2(saved, 1)
        os.close(saved)
        os.close(devnull)


def extract_streams(vela_tflite_path):
    """Returns the register command streams (lists of 32 bit words) of all Ethos-U custom operators"""
    nng = tflite_reader.read_tflite(vela_tflite_path, 1, None, None, None)
    res = []
    for sg in nng.subgraphs:
        for op in sg.get_all_ops():
            if op.type != Op.CustomNpuOp and op.type != Op.Custom:
                continue
            data = np.asarray(op.inputs[0].values).astype(np.uint8).tobytes()
            words = list(struct.unpack("<%dI" % (len(data) // 4), data[: len(data) // 4 * 4]))
            if words[0] != struct.unpack("<I", b"COP1")[0]:
                continue
            i = 1
            while i < len(words):
                tag = words[i] & 0xFF
                if tag == 0x01:  # config
                    i += 3
                elif tag == 0x05:  # nop
                    i += 1
                elif tag == 0x02:  # command stream
                    length = (((words[i] >> 8) & 0xFF) << 16) | (words[i] >> 16)
                    res.append(words[i + 1: i + 1 + length])
                    break
                else:
                    raise ValueError(f"unknown driver action {words[i]:#x}")
    return res

"""
Observation 1 (unmodified tree): write-after-read between two consecutive kernels is not covered by BLOCKDEP.

calc_blockdep() only looks at "previous OFM -> current IFM/IFM2" (read-after-write). If the current kernel's OFM
aliases memory that the previous kernel still READS (its IFM), BLOCKDEP stays 3, so the first block jobs of the
current kernel may overwrite rows that the last block jobs of the previous kernel have not read yet.
Such aliasing is legal: the IFM of op1 is dead after op1, so a tensor allocator may place op2's OFM on top of it.

  op1: ABS  IFM A = 16x16x16 @0x0000 -> OFM B @0x2000, block 4x16x16 (4 jobs, job 3 reads rows 12..15 of A)
  op2: ABS  IFM C @0x4000 -> OFM D = 4x16x16 @0x0C00 (= rows 12..15 of A), block 4x16x16
Emitted: BLOCKDEP 3 for op2 and no wait -> op2's job 0 writes A rows 12..15 while op1's job 3 may still read them.

Run: cd /tmp/seed9/C04 && /venv/bin/python out/observation1.py   (prints the violation, exit code 1)
"""
import os
import sys

sys.path.insert(0, os.getcwd())
sys.path.insert(0, os.path.dirname(os.path.abspath(__file__)))
from c04_build import ACCELS, elementwise, fm, NpuElementWiseOp  # noqa: E402
from c04_oracle import check_stream, decode  # noqa: E402
from ethosu.vela.api import npu_generate_register_command_stream  # noqa: E402

a = fm(16, 16, 16, 1, 0x0000)
b = fm(16, 16, 16, 1, 0x2000)
c = fm(4, 16, 16, 1, 0x4000)
d = fm(4, 16, 16, 1, 0x0C00)  # rows 12..15 of A
op1 = elementwise(NpuElementWiseOp.ABS, a, None, b, (4, 16, 16))
op2 = elementwise(NpuElementWiseOp.ABS, c, None, d, (4, 16, 16))
ops = [op1, op2]
rc = 0
for accel in ("u55-128", "u65-256"):
    words = npu_generate_register_command_stream(ops, ACCELS[accel])
    kernels = [e for e in decode(words) if e.kind == "kernel"]
    print(accel, "BLOCKDEP of op2 =", kernels[1].regs["BLOCKDEP"])
    v = check_stream(words, accel, ops, strict=True)
    for msg in v:
        print("  VIOLATION:", msg)
    rc |= 1 if v else 0
print("FAIL (property violated on the unmodified tree)" if rc else "PASS")
sys.exit(rc)

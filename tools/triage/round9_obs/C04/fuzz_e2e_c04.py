"""
Random end-to-end search: compiles random int8 CONV_2D chains with the Vela driver and runs the C04 oracle over
the command streams found in the output file.
Usage: cd /tmp/seed9/C04 && /venv/bin/python out/fuzz_e2e_c04.py [n] [seed] [strict]
(strict also reports write-after-read / write-after-write between consecutive kernels, see observation 1 and 5)
"""
import os
import random
import sys

sys.path.insert(0, os.getcwd())
sys.path.insert(0, os.path.dirname(os.path.abspath(__file__)))
from c04_e2e import build_conv_chain, compile_network, extract_streams  # noqa: E402
from c04_oracle import check_stream  # noqa: E402


def main():
    n = int(sys.argv[1]) if len(sys.argv) > 1 else 20
    rnd = random.Random(int(sys.argv[2]) if len(sys.argv) > 2 else 1)
    strict = len(sys.argv) > 3
    work = os.path.join(os.path.dirname(os.path.abspath(__file__)), "_fuzz_e2e")
    os.makedirs(work, exist_ok=True)
    model = os.path.join(work, "m.tflite")
    bad = 0
    for it in range(n):
        shape = [1, rnd.choice([8, 12, 16, 24, 32]), rnd.choice([8, 12, 16, 24]), rnd.choice([8, 16, 24, 32])]
        layers = [
            (rnd.choice([8, 16, 24, 32, 48]), rnd.choice([1, 1, 3]), rnd.choice([1, 1, 2]))
            for _ in range(rnd.randrange(2, 7))
        ]
        accel = rnd.choice(["u55-32", "u55-64", "u55-128", "u55-256", "u65-256", "u65-512"])
        extra = rnd.choice([[], ["--optimise", "Size"], ["--optimise", "Performance"], ["--arena-cache-size", "20000"]])
        build_conv_chain(model, shape, layers)
        try:
            compile_network(model, "ethos-" + accel, work, extra)
        except BaseException as e:  # noqa: B902
            print("compile error", it, type(e).__name__, str(e)[:100])
            continue
        for words in extract_streams(os.path.join(work, "m_vela.tflite")):
            v = check_stream(words, accel, None, strict=strict)
            if v:
                bad += 1
                print(f"iteration {it}: {accel} {extra} input {shape} layers {layers}")
                for m in v[:4]:
                    print("   ", m)
    print(f"done: {n} networks, {bad} with violations")
    return 1 if bad else 0


if __name__ == "__main__":
    sys.exit(main())

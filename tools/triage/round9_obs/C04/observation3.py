"""
Observation 3 (unmodified tree): DMA_WAIT is always emitted for channel 0, whatever the channel of the DMA.

generate_operation_code() starts the transfer with NPU_OP_DMA_START param = channel * 16 + mode, but
generate_cmd_waits() always calls emit.cmd_wait(cmd0.NPU_OP_DMA_WAIT, 0, n) - channel 0. With the encoding used
by cmd_wait() itself (param = 16 * channel + outstanding count) the wait names another channel than the one the
conflicting transfer runs on, so (if waits are per channel, as the encoding says) it does not wait for it.

  DMA (channel 1)  region 0 0x1000 -> region 1 0x0000, 256 bytes
  ABS  IFM @ region 1 0x0000 -> OFM @0x4000

Run: cd /tmp/seed9/C04 && /venv/bin/python out/observation3.py   (prints the violation, exit code 1)
"""
import os
import sys

sys.path.insert(0, os.getcwd())
sys.path.insert(0, os.path.dirname(os.path.abspath(__file__)))
from c04_build import ACCELS, elementwise, fm, NpuElementWiseOp, dma  # noqa: E402
from c04_oracle import check_stream, decode  # noqa: E402
from ethosu.vela.api import npu_generate_register_command_stream  # noqa: E402

dma_op = dma(0, 0x1000, 1, 0x0000, 256)
dma_op.channel = 1
op = elementwise(NpuElementWiseOp.ABS, fm(1, 16, 16, 1, 0x0), None, fm(1, 16, 16, 1, 0x4000), (2, 16, 16))
ops = [dma_op, op]
words = npu_generate_register_command_stream(ops, ACCELS["u55-256"])
for ev in decode(words):
    if ev.kind == "dma":
        print("DMA_START param", ev.param, "-> channel", ev.param >> 4)
    elif ev.kind == "dma_wait":
        print("DMA_WAIT  outstanding", ev.param, "-> channel", ev.channel)
v = check_stream(words, "u55-256", ops)
for msg in v:
    print("  VIOLATION:", msg)
print("FAIL (property violated on the unmodified tree)" if v else "PASS")
sys.exit(1 if v else 0)

"""
Independent hazard oracle for Ethos-U register command streams (property C04).

It decodes the 32-bit words returned by npu_generate_register_command_stream, rebuilds for every
NPU_OP_* the byte ranges the hardware reads and writes from the *programmed registers*, replays the
KERNEL_WAIT / DMA_WAIT / BLOCKDEP protocol of the execution model and reports every pair of operations that
may be in flight together although they have a RAW / WAR / WAW conflict.

Execution model (the one the property is stated for):
  * kernels and DMAs run in two asynchronous in-order queues; at most MAX_KERNELS kernels and
    MAX_DMA[accelerator family] DMAs are outstanding;
  * NPU_OP_KERNEL_WAIT n / NPU_OP_DMA_WAIT n block until at most n operations of that queue are outstanding;
  * consecutive kernels overlap by at most BLOCKDEP block jobs: job f of the current kernel may start when
    all but the last (BLOCKDEP - f) jobs of the previous kernel are finished; OFM blocks are traversed
    depth first, then width, then height; depth reducing kernels (CONV, REDUCE_SUM) need one job per IFM depth
    block for each OFM block.
Nothing in this file imports the code under test.
"""
import math

# ---- opcodes (Ethos-U55/U65 TRM) -------------------------------------------------------------------------
OP_STOP, OP_CONV, OP_DEPTHWISE, OP_POOL, OP_ELEMENTWISE = 0x000, 0x002, 0x003, 0x005, 0x006
OP_DMA_START, OP_DMA_WAIT, OP_KERNEL_WAIT = 0x010, 0x011, 0x012

CMD0 = {
    0x100: "IFM_PAD_TOP", 0x101: "IFM_PAD_LEFT", 0x102: "IFM_PAD_RIGHT", 0x103: "IFM_PAD_BOTTOM",
    0x104: "IFM_DEPTH_M1", 0x105: "IFM_PRECISION", 0x107: "IFM_UPSCALE", 0x109: "IFM_ZERO_POINT",
    0x10A: "IFM_WIDTH0_M1", 0x10B: "IFM_HEIGHT0_M1", 0x10C: "IFM_HEIGHT1_M1", 0x10D: "IFM_IB_END",
    0x10F: "IFM_REGION", 0x111: "OFM_WIDTH_M1", 0x112: "OFM_HEIGHT_M1", 0x113: "OFM_DEPTH_M1",
    0x114: "OFM_PRECISION", 0x115: "OFM_BLK_WIDTH_M1", 0x116: "OFM_BLK_HEIGHT_M1", 0x117: "OFM_BLK_DEPTH_M1",
    0x118: "OFM_ZERO_POINT", 0x11A: "OFM_WIDTH0_M1", 0x11B: "OFM_HEIGHT0_M1", 0x11C: "OFM_HEIGHT1_M1",
    0x11F: "OFM_REGION", 0x120: "KERNEL_WIDTH_M1", 0x121: "KERNEL_HEIGHT_M1", 0x122: "KERNEL_STRIDE",
    0x123: "PARALLEL_MODE", 0x124: "ACC_FORMAT", 0x125: "ACTIVATION", 0x126: "ACTIVATION_MIN",
    0x127: "ACTIVATION_MAX", 0x128: "WEIGHT_REGION", 0x129: "SCALE_REGION", 0x12D: "AB_START",
    0x12F: "BLOCKDEP", 0x130: "DMA0_SRC_REGION", 0x131: "DMA0_DST_REGION", 0x180: "IFM2_BROADCAST",
    0x181: "IFM2_SCALAR", 0x185: "IFM2_PRECISION", 0x189: "IFM2_ZERO_POINT", 0x18A: "IFM2_WIDTH0_M1",
    0x18B: "IFM2_HEIGHT0_M1", 0x18C: "IFM2_HEIGHT1_M1", 0x18D: "IFM2_IB_START", 0x18F: "IFM2_REGION",
}
CMD1 = {
    0x000: "IFM_BASE0", 0x001: "IFM_BASE1", 0x002: "IFM_BASE2", 0x003: "IFM_BASE3", 0x004: "IFM_STRIDE_X",
    0x005: "IFM_STRIDE_Y", 0x006: "IFM_STRIDE_C", 0x010: "OFM_BASE0", 0x011: "OFM_BASE1", 0x012: "OFM_BASE2",
    0x013: "OFM_BASE3", 0x014: "OFM_STRIDE_X", 0x015: "OFM_STRIDE_Y", 0x016: "OFM_STRIDE_C",
    0x020: "WEIGHT_BASE", 0x021: "WEIGHT_LENGTH", 0x022: "SCALE_BASE", 0x023: "SCALE_LENGTH",
    0x024: "OFM_SCALE", 0x025: "OPA_SCALE", 0x026: "OPB_SCALE", 0x030: "DMA0_SRC", 0x031: "DMA0_DST",
    0x032: "DMA0_LEN", 0x080: "IFM2_BASE0", 0x081: "IFM2_BASE1", 0x082: "IFM2_BASE2", 0x083: "IFM2_BASE3",
    0x084: "IFM2_STRIDE_X", 0x085: "IFM2_STRIDE_Y", 0x086: "IFM2_STRIDE_C", 0x090: "WEIGHT1_BASE",
    0x091: "WEIGHT1_LENGTH", 0x092: "SCALE1_BASE", 0x093: "SCALE1_LENGTH",
}

MAX_KERNELS = 2
MAX_DMA = {"u55": 1, "u65": 2}
SHRAM_BANKS = {"u55-32": 16, "u55-64": 16, "u55-128": 24, "u55-256": 48, "u65-256": 48, "u65-512": 48}
SHRAM_REGION = 0x103  # DMA region value of the internal (SHRAM) address space
POOL_REDUCE_SUM = 2
MAX_BLOCKDEP = 3


class Event:
    def __init__(self, kind, index, param, regs):
        self.kind = kind  # "kernel" / "dma" / "kernel_wait" / "dma_wait"
        self.channel = 0
        self.index = index  # position in the list of NPU_OP_* start commands
        self.param = param
        self.regs = regs
        self.opcode = None

    def __repr__(self):
        return f"<{self.kind} #{self.index} param={self.param}>"


def decode(words):
    """Splits the stream into start/wait events; every start event carries a snapshot of all registers"""
    regs = {}
    events = []
    i = 0
    n_ops = 0
    while i < len(words):
        w = words[i]
        code = w & 0xFFFF
        param = (w >> 16) & 0xFFFF
        opcode = code & 0x3FF
        if code & 0x4000:
            payload = words[i + 1]
            i += 2
            name = CMD1.get(opcode)
            assert name is not None, f"unknown cmd1 {opcode:#x}"
            regs[name] = (param << 32) | payload
            continue
        i += 1
        if opcode in (OP_CONV, OP_DEPTHWISE, OP_POOL, OP_ELEMENTWISE):
            ev = Event("kernel", n_ops, param, dict(regs))
            ev.opcode = opcode
            events.append(ev)
            n_ops += 1
        elif opcode == OP_DMA_START:
            events.append(Event("dma", n_ops, param, dict(regs)))
            n_ops += 1
        elif opcode == OP_DMA_WAIT:
            ev = Event("dma_wait", -1, param & 0xF, None)
            ev.channel = (param >> 4) & 0xF
            events.append(ev)
        elif opcode == OP_KERNEL_WAIT:
            events.append(Event("kernel_wait", -1, param & 0xF, None))
        elif opcode == OP_STOP:
            break
        else:
            name = CMD0.get(opcode)
            assert name is not None, f"unknown cmd0 {opcode:#x}"
            regs[name] = param
    return events


# ---- interval helpers ------------------------------------------------------------------------------------


def normalise(ivs):
    """ivs: list of (region, start, end) -> dict region -> sorted merged [(start, end)]"""
    res = {}
    for region, s, e in ivs:
        if e > s:
            res.setdefault(region, []).append((s, e))
    for region, lst in res.items():
        lst.sort()
        merged = [lst[0]]
        for s, e in lst[1:]:
            if s <= merged[-1][1]:
                merged[-1] = (merged[-1][0], max(merged[-1][1], e))
            else:
                merged.append((s, e))
        res[region] = merged
    return res


def first_overlap(a, b):
    """a, b: normalised dicts. Returns (region, start, end) of a common byte range or None"""
    for region in a.keys() & b.keys():
        la, lb = a[region], b[region]
        i = j = 0
        while i < len(la) and j < len(lb):
            s = max(la[i][0], lb[j][0])
            e = min(la[i][1], lb[j][1])
            if s < e:
                return (region, s, e)
            if la[i][1] <= lb[j][1]:
                i += 1
            else:
                j += 1
    return None


# ---- feature maps as seen by the hardware -----------------------------------------------------------------


class FM:
    def __init__(self, regs, prefix, height, width, depth, elem_size, nhcwb16):
        self.region = regs.get(prefix + "_REGION", 0)
        self.base = [regs.get(f"{prefix}_BASE{i}", 0) for i in range(4)]
        self.height0 = regs.get(prefix + "_HEIGHT0_M1", 0xFFFF) + 1
        self.height1 = regs.get(prefix + "_HEIGHT1_M1", 0xFFFF) + 1
        self.width0 = regs.get(prefix + "_WIDTH0_M1", 0xFFFF) + 1
        self.stride_x = regs.get(prefix + "_STRIDE_X", 0)
        self.stride_y = regs.get(prefix + "_STRIDE_Y", 0)
        self.stride_c = regs.get(prefix + "_STRIDE_C", 0)
        self.height, self.width, self.depth = height, width, depth
        self.es = elem_size
        self.nhcwb16 = nhcwb16

    def tile_origin(self, y, x):
        if x >= self.width0:
            x -= self.width0
            if y >= self.height1:
                return self.base[3], y - self.height1, x
            return self.base[1], y, x
        if y >= self.height0:
            return self.base[2], y - self.height0, x
        return self.base[0], y, x

    def intervals(self, y0, y1, x0, x1, c0, c1):
        """Bytes of the inclusive area (y0..y1, x0..x1, c0..c1), clipped to the feature map"""
        y0, x0, c0 = max(y0, 0), max(x0, 0), max(c0, 0)
        y1, x1, c1 = min(y1, self.height - 1), min(x1, self.width - 1), min(c1, self.depth - 1)
        res = []
        if y1 < y0 or x1 < x0 or c1 < c0:
            return res
        for y in range(y0, y1 + 1):
            for x in range(x0, x1 + 1):
                base, ty, tx = self.tile_origin(y, x)
                if self.nhcwb16:
                    for brick in range(c0 // 16, c1 // 16 + 1):
                        ca = max(c0, brick * 16)
                        cb = min(c1, brick * 16 + 15)
                        a = base + ty * self.stride_y + brick * self.stride_c + tx * 16 * self.es
                        res.append((self.region, a + (ca % 16) * self.es, a + (cb % 16 + 1) * self.es))
                else:
                    a = base + ty * self.stride_y + tx * self.stride_x
                    res.append((self.region, a + c0 * self.es, a + (c1 + 1) * self.es))
        return res

    def all_intervals(self):
        return self.intervals(0, self.height - 1, 0, self.width - 1, 0, self.depth - 1)


def round_up(a, b):
    return ((a + b - 1) // b) * b


class Kernel:
    """Hardware view of one NPU_OP_CONV/DEPTHWISE/POOL/ELEMENTWISE"""

    def __init__(self, ev, accel, has_weights, has_scales):
        r = ev.regs
        self.ev = ev
        self.index = ev.index
        self.opcode = ev.opcode
        self.blockdep = r.get("BLOCKDEP", 0)
        ofm_prec = r.get("OFM_PRECISION", 0)
        ofm_es = 1 << ((ofm_prec >> 1) & 3)
        oh, ow, od = r["OFM_HEIGHT_M1"] + 1, r["OFM_WIDTH_M1"] + 1, r["OFM_DEPTH_M1"] + 1
        self.ofm = FM(r, "OFM", oh, ow, od, ofm_es, bool(ofm_prec & (1 << 6)))
        ifm_prec = r.get("IFM_PRECISION", 0)
        self.ifm_bits = 8 << ((ifm_prec >> 2) & 3)
        ifm_es = self.ifm_bits // 8
        idepth = r["IFM_DEPTH_M1"] + 1
        self.upscale = 2 if r.get("IFM_UPSCALE", 0) != 0 else 1
        self.elementwise = ev.opcode == OP_ELEMENTWISE
        if self.elementwise:
            self.sx = self.sy = 1
            self.kw_m1 = self.kh_m1 = 0
            self.pad_top = self.pad_left = self.pad_bottom = self.pad_right = 0
            ih, iw = oh, ow
        else:
            ks = r.get("KERNEL_STRIDE", 0)
            self.sx = 1 + (ks & 1) + 2 * ((ks >> 6) & 7)
            self.sy = 1 + ((ks >> 1) & 1) + 2 * ((ks >> 9) & 7)
            self.kw_m1 = r.get("KERNEL_WIDTH_M1", 0)
            self.kh_m1 = r.get("KERNEL_HEIGHT_M1", 0)
            self.pad_top, self.pad_left = r.get("IFM_PAD_TOP", 0), r.get("IFM_PAD_LEFT", 0)
            self.pad_bottom, self.pad_right = r.get("IFM_PAD_BOTTOM", 0), r.get("IFM_PAD_RIGHT", 0)
            ih = ((oh - 1) * self.sy + self.kh_m1 + 1 - self.pad_top - self.pad_bottom + self.upscale - 1) // self.upscale
            iw = ((ow - 1) * self.sx + self.kw_m1 + 1 - self.pad_left - self.pad_right + self.upscale - 1) // self.upscale
            ih, iw = max(ih, 1), max(iw, 1)
        self.ifm = FM(r, "IFM", ih, iw, idepth, ifm_es, bool(ifm_prec & (1 << 6)))
        self.ifm2 = None
        self.ifm2_bcast = (False, False, False)
        unary = self.elementwise and ev.param in (5, 6, 7)  # ABS, LRELU, CLZ
        if self.elementwise and not unary:
            bc = r.get("IFM2_BROADCAST", 0)
            if not bc & 0x80:  # not a scalar
                bh, bw, bcd = bool(bc & 1), bool(bc & 2), bool(bc & 4)
                prec2 = r.get("IFM2_PRECISION", 0)
                self.ifm2 = FM(
                    r, "IFM2", 1 if bh else oh, 1 if bw else ow, 1 if bcd else idepth,
                    1 << ((prec2 >> 2) & 3), bool(prec2 & (1 << 6)),
                )
                self.ifm2_bcast = (bh, bw, bcd)
        self.reduces_depth = ev.opcode == OP_CONV or (ev.opcode == OP_POOL and ev.param == POOL_REDUCE_SUM)
        self.blk = (r["OFM_BLK_HEIGHT_M1"] + 1, r["OFM_BLK_WIDTH_M1"] + 1, r["OFM_BLK_DEPTH_M1"] + 1)
        act = r.get("ACTIVATION", 0)
        self.uses_lut = (act & 0x1F) >= 16
        # other reads: weights, scales, LUT
        other = []
        if ev.opcode in (OP_CONV, OP_DEPTHWISE) and has_weights:
            other.append((r.get("WEIGHT_REGION", 0), r.get("WEIGHT_BASE", 0), r.get("WEIGHT_BASE", 0) + r.get("WEIGHT_LENGTH", 0)))
            if accel == "u65-512":
                other.append((r.get("WEIGHT_REGION", 0), r.get("WEIGHT1_BASE", 0), r.get("WEIGHT1_BASE", 0) + r.get("WEIGHT1_LENGTH", 0)))
        if has_scales:
            other.append((r.get("SCALE_REGION", 0), r.get("SCALE_BASE", 0), r.get("SCALE_BASE", 0) + r.get("SCALE_LENGTH", 0)))
            if accel == "u65-512":
                other.append((r.get("SCALE_REGION", 0), r.get("SCALE1_BASE", 0), r.get("SCALE1_BASE", 0) + r.get("SCALE1_LENGTH", 0)))
        banks = SHRAM_BANKS[accel]
        lut_base = (banks - 2) * 1024
        if self.uses_lut:
            other.append((SHRAM_REGION, lut_base, lut_base + 2048))
        self.other_reads = other
        # SHRAM working area of the kernel: everything below the LUT, and the LUT banks too when the
        # configuration has no reserved banks and the kernel does not use the LUT
        work_end = banks * 1024 if (banks <= 16 and not self.uses_lut) else lut_base
        self.shram_write = (SHRAM_REGION, 0, work_end)
        self._reads = None
        self._writes = None

    # -- whole-operation access sets ------------------------------------------------------------------
    def reads(self):
        if self._reads is None:
            ivs = self.ifm.all_intervals() + list(self.other_reads)
            if self.ifm2 is not None:
                ivs += self.ifm2.all_intervals()
            self._reads = normalise(ivs)
        return self._reads

    def writes(self):
        if self._writes is None:
            self._writes = normalise(self.ofm.all_intervals() + [self.shram_write])
        return self._writes

    # -- block jobs -----------------------------------------------------------------------------------
    def ofm_blocks(self):
        bh, bw, bd = self.blk
        res = []
        for y in range(0, self.ofm.height, bh):
            for x in range(0, self.ofm.width, bw):
                for z in range(0, self.ofm.depth, bd):
                    res.append((y, x, z))
        return res

    def ifm_block_depth(self):
        return min(256 // self.ifm_bits, round_up(self.ifm.depth, 8))

    def jobs_per_block(self):
        if self.reduces_depth:
            return math.ceil(self.ifm.depth / self.ifm_block_depth())
        return 1

    def ofm_block_bytes(self, blk):
        y, x, z = blk
        bh, bw, bd = self.blk
        return normalise(self.ofm.intervals(y, y + bh - 1, x, x + bw - 1, z, z + bd - 1))

    def job_read_bytes(self, blk, sub_job):
        """IFM (+IFM2) bytes needed by the given job of the given OFM block"""
        y, x, z = blk
        bh, bw, bd = self.blk
        oy1 = min(y + bh, self.ofm.height) - 1
        ox1 = min(x + bw, self.ofm.width) - 1
        oz1 = min(z + bd, self.ofm.depth) - 1
        if self.elementwise:
            iy0, iy1, ix0, ix1 = y, oy1, x, ox1
        else:
            iy0 = (y * self.sy - self.pad_top) // self.upscale
            iy1 = (oy1 * self.sy - self.pad_top + self.kh_m1) // self.upscale
            ix0 = (x * self.sx - self.pad_left) // self.upscale
            ix1 = (ox1 * self.sx - self.pad_left + self.kw_m1) // self.upscale
        if self.reduces_depth:
            ibd = self.ifm_block_depth()
            c0, c1 = sub_job * ibd, sub_job * ibd + ibd - 1
        else:
            c0, c1 = z, oz1
        ivs = self.ifm.intervals(iy0, iy1, ix0, ix1, c0, c1)
        if self.ifm2 is not None:
            bh_, bw_, bc_ = self.ifm2_bcast
            ivs += self.ifm2.intervals(
                0 if bh_ else iy0, 0 if bh_ else iy1, 0 if bw_ else ix0, 0 if bw_ else ix1,
                0 if bc_ else c0, 0 if bc_ else c1,
            )
        return normalise(ivs)


class Dma:
    def __init__(self, ev):
        r = ev.regs
        self.ev = ev
        self.index = ev.index
        self.channel = (ev.param >> 4) & 0xF
        length = r.get("DMA0_LEN", 0)
        self.src = (r.get("DMA0_SRC_REGION", 0), r.get("DMA0_SRC", 0), r.get("DMA0_SRC", 0) + length)
        self.dst = (r.get("DMA0_DST_REGION", 0), r.get("DMA0_DST", 0), r.get("DMA0_DST", 0) + length)

    def reads(self):
        return normalise([self.src])

    def writes(self):
        return normalise([self.dst])


def conflict(a, b):
    """a is issued before b. Returns a description of the first hazard found, or None"""
    hit = first_overlap(a.writes(), b.reads())
    if hit:
        return ("RAW", hit)
    hit = first_overlap(a.reads(), b.writes())
    if hit:
        return ("WAR", hit)
    hit = first_overlap(a.writes(), b.writes())
    if hit:
        return ("WAW", hit)
    return None


def check_blockdep(prev, cur):
    """RAW check between consecutive kernels under the programmed BLOCKDEP. Returns violation text or None"""
    b = cur.blockdep
    if b <= 0:
        return None
    if first_overlap(prev.writes(), cur.reads()) is None:
        return None
    prev_blocks = prev.ofm_blocks()
    n_prev = prev.jobs_per_block()
    cur_blocks = cur.ofm_blocks()
    n_cur = cur.jobs_per_block()
    for f in range(min(b, len(cur_blocks) * n_cur)):
        allowed = b - f  # jobs of prev that may still be running when job f of cur starts
        n_blocks = min(len(prev_blocks), math.ceil(allowed / n_prev))
        rd = cur.job_read_bytes(cur_blocks[f // n_cur], f % n_cur)
        for k in range(1, n_blocks + 1):
            blk = prev_blocks[-k]
            hit = first_overlap(prev.ofm_block_bytes(blk), rd)
            if hit:
                return (
                    f"BLOCKDEP {b}: job {f} of op #{cur.index} reads region {hit[0]} bytes [{hit[1]:#x},{hit[2]:#x}) "
                    f"that OFM block {blk} (number {k} from the end) of op #{prev.index} may not have written yet"
                )
    return None


def check_blockdep_strict(prev, cur):
    """WAR / WAW check between consecutive kernels at block job granularity (not done by default)"""
    b = cur.blockdep
    if b <= 0:
        return None
    prev_blocks = prev.ofm_blocks()
    n_prev = prev.jobs_per_block()
    cur_blocks = cur.ofm_blocks()
    n_cur = cur.jobs_per_block()
    n_prev_jobs = len(prev_blocks) * n_prev
    # weights / scales of the current kernel are fetched from its first job on
    side_reads = normalise([r for r in cur.other_reads if r[0] != SHRAM_REGION])
    for k in range(1, min(b, n_prev_jobs) + 1):
        j = n_prev_jobs - k
        hit = first_overlap(prev.ofm_block_bytes(prev_blocks[j // n_prev]), side_reads)
        if hit:
            return (
                f"RAW hazard under BLOCKDEP {b}: op #{cur.index} reads weights/scales in region {hit[0]} bytes "
                f"[{hit[1]:#x},{hit[2]:#x}) that job {j} (number {k} from the end) of op #{prev.index} still writes"
            )
    for f in range(min(b, len(cur_blocks) * n_cur)):
        wr = cur.ofm_block_bytes(cur_blocks[f // n_cur])
        for k in range(1, min(b - f, n_prev_jobs) + 1):
            j = n_prev_jobs - k
            hit = first_overlap(prev.job_read_bytes(prev_blocks[j // n_prev], j % n_prev), wr)
            kind = "WAR"
            if not hit:
                hit = first_overlap(prev.ofm_block_bytes(prev_blocks[j // n_prev]), wr)
                kind = "WAW"
            if hit:
                return (
                    f"{kind} hazard under BLOCKDEP {b}: job {f} of op #{cur.index} writes region {hit[0]} bytes "
                    f"[{hit[1]:#x},{hit[2]:#x}) which job {j} (number {k} from the end) of op #{prev.index} still uses"
                )
    return None


def check_stream(words, accel, ops=None, strict=False):
    """
    words: the generated command stream, accel: e.g. "u55-256", "u65-512".
    ops: optional list of the NpuOperations given to the generator; only used to know which kernels
         have weights / scales at all (the values come from the registers).
    Returns a list of violation strings (empty = property holds for this stream).
    """
    family = accel[:3]
    events = decode(words)
    violations = []
    out_k, out_d = [], []
    last_kernel = None
    for ev in events:
        if ev.kind == "kernel_wait":
            out_k = out_k[len(out_k) - ev.param:] if ev.param > 0 else []
        elif ev.kind == "dma_wait":
            # only transfers of the channel named in the wait are waited for
            same = [d for d in out_d if d.channel == ev.channel]
            keep = same[len(same) - ev.param:] if ev.param > 0 else []
            out_d = [d for d in out_d if d.channel != ev.channel or d in keep]
        elif ev.kind == "dma":
            d = Dma(ev)
            for k in out_k:
                hz = conflict(k, d)
                if hz:
                    violations.append(
                        f"{hz[0]} hazard: DMA #{d.index} started while kernel #{k.index} may be running; "
                        f"region {hz[1][0]} bytes [{hz[1][1]:#x},{hz[1][2]:#x})"
                    )
            out_d.append(d)
            out_d = out_d[-MAX_DMA[family]:]
        else:
            has_w = has_s = True
            if ops is not None:
                op = ops[ev.index]
                has_w, has_s = len(op.weights) > 0, len(op.biases) > 0
            k = Kernel(ev, accel, has_w, has_s)
            for d in out_d:
                hz = conflict(d, k)
                if hz:
                    violations.append(
                        f"{hz[0]} hazard: kernel #{k.index} started while DMA #{d.index} may be running; "
                        f"region {hz[1][0]} bytes [{hz[1][1]:#x},{hz[1][2]:#x})"
                    )
            if last_kernel is not None and last_kernel in out_k:
                msg = check_blockdep(last_kernel, k)
                if msg:
                    violations.append(msg)
                if strict:
                    msg = check_blockdep_strict(last_kernel, k)
                    if msg:
                        violations.append(msg)
            out_k.append(k)
            out_k = out_k[-MAX_KERNELS:]
            last_kernel = k
    return violations

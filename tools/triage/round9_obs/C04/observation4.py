"""
Observation 4 (unmodified tree): BLOCKDEP ignores the weight / scale streams of the current kernel.

calc_blockdep() compares the OFM of the previous kernel only with IFM and IFM2 of the current kernel. If the
previous kernel produces the bytes that the current kernel fetches as WEIGHTS (or scales) - accepted by the
public generator, e.g. weights computed on the NPU - BLOCKDEP is 3 and no wait is emitted, although the current
kernel starts fetching its weight stream while the last blocks of the previous kernel are still being written.

  op1: ABS   IFM @0x0000 -> OFM 8x8x16 @0x2000, block 2x8x16 (4 jobs)
  op2: CONV  IFM @0x4000, weights = region 1 [0x2000, 0x2400) (= op1's OFM), OFM @0x6000

Run: cd /tmp/seed9/C04 && /venv/bin/python out/observation4.py   (prints the violation, exit code 1)
"""
import os
import sys

sys.path.insert(0, os.getcwd())
sys.path.insert(0, os.path.dirname(os.path.abspath(__file__)))
from c04_build import ACCELS, conv, elementwise, fm, NpuAddressRange, NpuElementWiseOp, NpuKernel  # noqa: E402
from c04_oracle import check_stream, decode  # noqa: E402
from ethosu.vela.api import npu_generate_register_command_stream  # noqa: E402

op1 = elementwise(NpuElementWiseOp.ABS, fm(8, 8, 16, 1, 0x0), None, fm(8, 8, 16, 1, 0x2000), (2, 8, 16))
op2 = conv(
    fm(8, 8, 16, 1, 0x4000), fm(8, 8, 16, 1, 0x6000), NpuKernel(1, 1), (2, 8, 16),
    [NpuAddressRange(1, 0x2000, 0x400)], [NpuAddressRange(0, 0x100, 160)],
)
ops = [op1, op2]
words = npu_generate_register_command_stream(ops, ACCELS["u55-128"])
print("BLOCKDEP of op2 =", [e for e in decode(words) if e.kind == "kernel"][1].regs["BLOCKDEP"])
v = check_stream(words, "u55-128", ops, strict=True)
for msg in v:
    print("  VIOLATION:", msg)
print("FAIL (property violated on the unmodified tree)" if v else "PASS")
sys.exit(1 if v else 0)

"""
Observation 2 (unmodified tree): the write set of a DMA is taken from dest.length, the hardware uses src.length.

generate_dma_op() programs NPU_SET_DMA0_LEN with dma_op.src.length only; get_dma_memory_accesses() records
[dest.address, dest.address + dest.length) as written. An NpuDmaOperation whose dest.length is smaller than
src.length is accepted, the transfer writes src.length bytes, and a kernel reading the bytes behind
dest.address + dest.length is started without DMA_WAIT.

  DMA  src (region 0, 0x1000, 256 bytes) -> dest (region 1, 0x0000, 16 bytes)
  ABS  IFM 1x8x16 int8 @ region 1, 0x0080 (inside the 256 bytes really written) -> OFM @0x4000

Run: cd /tmp/seed9/C04 && /venv/bin/python out/observation2.py   (prints the violation, exit code 1)
"""
import os
import sys

sys.path.insert(0, os.getcwd())
sys.path.insert(0, os.path.dirname(os.path.abspath(__file__)))
from c04_build import ACCELS, elementwise, fm, NpuElementWiseOp, NpuAddressRange, NpuDmaOperation  # noqa: E402
from c04_oracle import check_stream, decode  # noqa: E402
from ethosu.vela.api import npu_generate_register_command_stream  # noqa: E402

dma_op = NpuDmaOperation(NpuAddressRange(0, 0x1000, 256), NpuAddressRange(1, 0x0000, 16))
op = elementwise(NpuElementWiseOp.ABS, fm(1, 8, 16, 1, 0x80), None, fm(1, 8, 16, 1, 0x4000), (2, 8, 16))
ops = [dma_op, op]
rc = 0
for accel in ("u55-256", "u65-256"):
    words = npu_generate_register_command_stream(ops, ACCELS[accel])
    print(accel, "events:", [(e.kind, e.param) for e in decode(words)])
    v = check_stream(words, accel, ops)
    for msg in v:
        print("  VIOLATION:", msg)
    rc |= 1 if v else 0
print("FAIL (property violated on the unmodified tree)" if rc else "PASS")
sys.exit(rc)

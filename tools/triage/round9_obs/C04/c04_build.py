"""Small helpers to build NpuOperations through the public API (used by the demos and observations)"""
from ethosu.vela.api import NpuAccelerator
from ethosu.vela.api import NpuActivation
from ethosu.vela.api import NpuActivationOp
from ethosu.vela.api import NpuAddressRange
from ethosu.vela.api import NpuBlockTraversal
from ethosu.vela.api import NpuConv2DOperation
from ethosu.vela.api import NpuConvDepthWiseOperation
from ethosu.vela.api import NpuDataType
from ethosu.vela.api import NpuDmaOperation
from ethosu.vela.api import NpuElementWiseOp
from ethosu.vela.api import NpuElementWiseOperation
from ethosu.vela.api import NpuFeatureMap
from ethosu.vela.api import NpuKernel
from ethosu.vela.api import NpuLayout
from ethosu.vela.api import NpuPadding
from ethosu.vela.api import NpuPoolingOp
from ethosu.vela.api import NpuPoolingOperation
from ethosu.vela.api import NpuQuantization
from ethosu.vela.api import NpuShape3D
from ethosu.vela.api import NpuTileBox

ACCELS = {
    "u55-32": NpuAccelerator.Ethos_U55_32,
    "u55-64": NpuAccelerator.Ethos_U55_64,
    "u55-128": NpuAccelerator.Ethos_U55_128,
    "u55-256": NpuAccelerator.Ethos_U55_256,
    "u65-256": NpuAccelerator.Ethos_U65_256,
    "u65-512": NpuAccelerator.Ethos_U65_512,
}


def fm(h, w, d, region, address, dtype=NpuDataType.INT8, layout=NpuLayout.NHWC, strides=None, tiles=None):
    f = NpuFeatureMap()
    f.data_type = dtype
    f.shape = NpuShape3D(height=h, width=w, depth=d)
    if tiles is None:
        f.tiles = NpuTileBox(height_0=h, height_1=h, width_0=w, addresses=[address, 0, 0, 0])
    else:
        f.tiles = tiles
    f.region = region
    f.layout = layout
    f.quantization = NpuQuantization(scale_f32=1.0, zero_point=0)
    f.strides = strides
    return f


def dma(src_region, src_addr, dst_region, dst_addr, length):
    return NpuDmaOperation(
        NpuAddressRange(src_region, src_addr, length), NpuAddressRange(dst_region, dst_addr, length)
    )


def elementwise(op_type, ifm, ifm2, ofm, block, scalar=None):
    op = NpuElementWiseOperation(op_type)
    op.ifm, op.ifm2, op.ofm = ifm, ifm2, ofm
    op.ifm2_scalar = scalar
    op.block_config = NpuShape3D(height=block[0], width=block[1], depth=block[2])
    return op


def pool(op_type, ifm, ofm, kernel, block, padding=(0, 0, 0, 0)):
    op = NpuPoolingOperation(op_type)
    op.ifm, op.ofm = ifm, ofm
    op.kernel = kernel
    op.padding = NpuPadding(top=padding[0], left=padding[1], bottom=padding[2], right=padding[3])
    op.block_config = NpuShape3D(height=block[0], width=block[1], depth=block[2])
    return op


def conv(ifm, ofm, kernel, block, weights, biases=None, padding=(0, 0, 0, 0), depthwise=False):
    op = NpuConvDepthWiseOperation() if depthwise else NpuConv2DOperation()
    op.ifm, op.ofm = ifm, ofm
    op.kernel = kernel
    op.weights = list(weights)
    op.biases = list(biases) if biases else []
    op.padding = NpuPadding(top=padding[0], left=padding[1], bottom=padding[2], right=padding[3])
    if not depthwise:
        op.block_traversal = NpuBlockTraversal.DEPTH_FIRST
    op.block_config = NpuShape3D(height=block[0], width=block[1], depth=block[2])
    return op


def lut_activation(index=0):
    act = NpuActivation(NpuActivationOp.TABLE_LOOKUP)
    act.lookup_table_index = index
    return act

# Independent reference derivations used by the C09 demos / observations.
# Nothing in here imports the code under test.
import math
from fractions import Fraction


def tfl_quantize_multiplier(d):
    """TensorFlow Lite QuantizeMultiplier(double) -> (int32 multiplier, tflite shift)"""
    d = float(d)
    if d == 0.0:
        return 0, 0
    q, shift = math.frexp(d)
    q_fixed = int(math.floor(q * (1 << 31) + 0.5))  # TfLiteRound of a positive value
    assert q_fixed <= (1 << 31)
    if q_fixed == (1 << 31):
        q_fixed //= 2
        shift += 1
    if shift < -31:
        return 0, 0
    if shift > 30:
        return (1 << 31) - 1, 30
    return q_fixed, shift


def ref_vela_pair(d):
    """The (multiplier, right-shift) pair that denotes the same value as the TFLite derivation (value = m * 2^-s);
    out of range for the 6 bit shift field -> zero multiplier"""
    m, tfl_shift = tfl_quantize_multiplier(d)
    shift = 31 - tfl_shift
    if m == 0 or not (0 <= shift < 64):
        return 0, None
    return m, shift


def pair_value(multiplier, shift):
    return Fraction(int(multiplier), 1 << int(shift))


def rel_err(multiplier, shift, real):
    real = Fraction(real)
    return abs(pair_value(multiplier, shift) - real) / real


def decode_scale_records(buf):
    """Splits a stream of 10 byte [bias(40) scale(32) shift(6)] records"""
    recs = []
    for i in range(0, len(buf) - 9, 10):
        r = bytes(buf[i : i + 10])
        bias = int.from_bytes(r[0:5], "little", signed=True)
        scale = int.from_bytes(r[5:9], "little", signed=False)
        shift = r[9] & 0x3F
        recs.append((bias, scale, shift))
    return recs


def round_half_up_div(acc, n):
    """floor(acc / n + 1/2) in exact arithmetic"""
    return (2 * acc + n) // (2 * n)


def apply_scale_half_up(acc, multiplier, shift):
    """What the NPU / TOSA apply_scale_32 does with the global OFM scale with 'natural' rounding"""
    assert shift >= 1
    return (acc * multiplier + (1 << (shift - 1))) >> shift

# Helpers to build a tiny .tflite with Vela's own classes, compile it with the Vela driver and decode the
# register command stream of the produced Ethos-U custom operator.  (Test harness only - no oracle logic here.)
import os
import struct
import sys
import tempfile
import io
import contextlib

import numpy as np

from ethosu.vela import vela
from ethosu.vela.data_type import DataType
from ethosu.vela.nn_graph import Graph
from ethosu.vela.nn_graph import PassPlacement
from ethosu.vela.nn_graph import Subgraph
from ethosu.vela.operation import Op
from ethosu.vela.operation import Operation
from ethosu.vela.tensor import create_const_tensor
from ethosu.vela.tensor import QuantizationParameters
from ethosu.vela.tensor import Tensor
from ethosu.vela.tflite_writer import write_tflite_buffer
from ethosu.vela.ethos_u55_regs.ethos_u55_regs import cmd0
from ethosu.vela.ethos_u55_regs.ethos_u55_regs import cmd1


def quant(scale, zero_point=0, dtype=DataType.int8):
    q = QuantizationParameters()
    if np.ndim(scale) == 0:
        q.scale_f32 = np.float32(scale)
        q.zero_point = np.int64(zero_point)
    else:
        q.scale_f32 = np.array(scale, np.float32)
        q.zero_point = np.zeros(len(scale), np.int64) + zero_point
    if dtype == DataType.uint8:
        q.quant_min, q.quant_max = 0, 255
    else:
        q.quant_min, q.quant_max = -(1 << (dtype.bits - 1)), (1 << (dtype.bits - 1)) - 1
    return q


def fm(name, shape, dtype, scale, zero_point=0):
    t = Tensor(list(shape), dtype, name)
    t.quantization = quant(scale, zero_point, dtype)
    return t


def const(name, shape, dtype, values, scale=None, zero_point=0):
    q = None if scale is None else quant(scale, zero_point, dtype)
    t = create_const_tensor(name, list(shape), dtype, values, quantization=q)
    t.name = name
    return t


def make_op(op_type, name, inputs, outputs, attrs=None, version=1):
    op = Operation(op_type, name)
    op.version = version
    for t in inputs:
        if t is None:
            op.inputs.append(None)
        else:
            op.add_input_tensor(t)
    for t in outputs:
        t.ops = [op]
    op.outputs = list(outputs)
    op.attrs = dict(attrs or {})
    return op


class _Pass:
    def __init__(self, ops):
        self.ops = ops


def build_tflite(ops, inputs, outputs):
    sg = Subgraph("main", PassPlacement.Cpu)
    sg.passes = [_Pass(list(ops))]
    sg.original_inputs = list(inputs)
    sg.input_tensors = list(inputs)
    sg.output_tensors = list(outputs)
    for t in inputs:
        if not t.ops:
            ph = Operation(Op.Placeholder, t.name + "_ph")
            ph.set_output_tensor(t)
    nng = Graph("model")
    nng.subgraphs = [sg]
    nng.metadata = []
    return bytes(write_tflite_buffer(nng))


def compile_tflite(buf, accel="ethos-u55-128", extra_args=()):
    """Runs the Vela driver; returns the bytes of the optimised network"""
    d = tempfile.mkdtemp(prefix="c09_")
    src = os.path.join(d, "net.tflite")
    with open(src, "wb") as f:
        f.write(buf)
    log = os.path.join(d, "stdout.txt")
    sys.stdout.flush()
    saved = os.dup(1)
    with open(log, "w") as lf:
        os.dup2(lf.fileno(), 1)
        try:
            with contextlib.redirect_stdout(lf):
                rc = vela.main([src, "--output-dir", d, "--accelerator-config", accel, *extra_args])
        finally:
            sys.stdout.flush()
            os.dup2(saved, 1)
            os.close(saved)
    with open(log) as lf:
        text = lf.read()
    dst = os.path.join(d, "net_vela.tflite")
    if not os.path.exists(dst):
        raise RuntimeError(f"vela produced no output (rc={rc}):\n{text}")
    with open(dst, "rb") as f:
        return f.read(), text


def read_vela_output(buf):
    """Returns a list with, per Ethos-U custom operator, (command_stream_words, list of constant input byte arrays)"""
    from ethosu.vela.tflite.Model import Model

    model = Model.GetRootAsModel(bytearray(buf), 0)
    res = []
    for si in range(model.SubgraphsLength()):
        sg = model.Subgraphs(si)
        for oi in range(sg.OperatorsLength()):
            op = sg.Operators(oi)
            code = model.OperatorCodes(op.OpcodeIndex())
            cc = code.CustomCode()
            if cc is None or cc.decode() != "ethos-u":
                continue
            datas = []
            for ii in range(op.InputsLength()):
                t = sg.Tensors(op.Inputs(ii))
                b = model.Buffers(t.Buffer())
                datas.append(None if b.DataLength() == 0 else bytes(b.DataAsNumpy()))
            res.append(datas)
    return res


def decode_command_stream(payload):
    """Decodes a driver payload ('COP1' header + register commands) into [(name, param, payload or None)]"""
    words = struct.unpack("<%dI" % (len(payload) // 4), payload[: len(payload) // 4 * 4])
    assert words[0] == int.from_bytes(b"COP1", "little"), "not a driver payload"
    i = 1
    cmds = []
    n = len(words)
    while i < n:
        w = words[i]
        cmd = w & 0xFF
        if cmd == 1:  # CONFIG: tag + config word + id word
            i += 3
        elif cmd == 5:  # NOP
            i += 1
        elif cmd == 2:  # COMMAND_STREAM: tag carries the length in words
            length = ((w >> 8) & 0xFF) << 16 | (w >> 16) & 0xFFFF
            i += 1
            end = i + length
            while i < end:
                c = words[i]
                code = c & 0x3FF
                has_payload = (c >> 14) & 1
                param = c >> 16
                if has_payload:
                    cmds.append((cmd1(code).name, param, words[i + 1]))
                    i += 2
                else:
                    cmds.append((cmd0(code).name, param, None))
                    i += 1
        else:
            raise ValueError(f"unexpected driver action {cmd} at word {i}")
    return cmds


def split_ops(cmds):
    """Splits decoded commands at the NPU_OP_* kick-off commands"""
    ops = []
    cur = []
    for c in cmds:
        cur.append(c)
        if c[0].startswith("NPU_OP_") and c[0] not in ("NPU_OP_DMA_WAIT", "NPU_OP_KERNEL_WAIT", "NPU_OP_STOP", "NPU_OP_IRQ"):
            ops.append(cur)
            cur = []
    return ops


def ops_with_state(cmds):
    """Replays the register writes; returns [(kick-off command name, param, {register: (param, payload)})]"""
    state = {}
    res = []
    for name, param, payload in cmds:
        if name.startswith("NPU_OP_"):
            if name in ("NPU_OP_CONV", "NPU_OP_DEPTHWISE", "NPU_OP_POOL", "NPU_OP_ELEMENTWISE"):
                res.append((name, param, dict(state)))
        else:
            state[name] = (param, payload)
    return res


def scale_streams(payload, flash):
    """For every CONV / DEPTHWISE kick-off: the per core lists of raw scale record bytes, following the weight DMAs
    back into the constant (flash) tensor.  Returns [(state, [bytes per core])]"""
    state = {}
    dmas = []  # (dst_region, dst, src_region, src, length)
    res = []
    for name, param, pl in decode_command_stream(payload):
        if name == "NPU_OP_DMA_START":
            src = state["NPU_SET_DMA0_SRC"]
            dst = state["NPU_SET_DMA0_DST"]
            ln = state["NPU_SET_DMA0_LEN"]
            dmas.append(
                (
                    state["NPU_SET_DMA0_DST_REGION"][0] & 7,
                    dst[1] | (dst[0] << 32),
                    state["NPU_SET_DMA0_SRC_REGION"][0] & 7,
                    src[1] | (src[0] << 32),
                    ln[1] | (ln[0] << 32),
                )
            )
        elif name in ("NPU_OP_CONV", "NPU_OP_DEPTHWISE"):
            region = state["NPU_SET_SCALE_REGION"][0]
            streams = []
            for bn, ln in (("NPU_SET_SCALE_BASE", "NPU_SET_SCALE_LENGTH"), ("NPU_SET_SCALE1_BASE", "NPU_SET_SCALE1_LENGTH")):
                if bn in state and ln in state and state[ln][1]:
                    base = state[bn][1] | (state[bn][0] << 32)
                    length = state[ln][1]
                    if region != 0:
                        for d_reg, d_dst, s_reg, s_src, d_len in reversed(dmas):
                            if d_reg == region and d_dst <= base and base + length <= d_dst + d_len and s_reg == 0:
                                base = s_src + (base - d_dst)
                                break
                        else:
                            raise AssertionError(f"scales in region {region} without a matching DMA")
                    streams.append(bytes(flash[base : base + length]))
            res.append((dict(state), streams))
        elif not name.startswith("NPU_OP_"):
            state[name] = (param, pl)
    return res

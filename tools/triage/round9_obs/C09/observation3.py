# C09 observation 3 (UNMODIFIED tree): int16 SOFTMAX.  The reference kernel derives the input rescale multiplier from
#     double input_scale_beta_rescale = input->params.scale * params->beta / (10.0 / 65535.0);
# i.e. the division is done in double.  softmax.SoftMax.get_graph_int16 calls
#     scaling.elementwise_mul_scale(sub1_ofm.quantization.scale_f32 [np.float32], beta [float], 10.0 / 65535.0 [float])
# and with the NumPy >= 2 promotion rules np.float32 <op> Python float stays float32, so both the divisor 10/65535 and the
# quotient are rounded to 24 bits.  The (multiplier, shift) written to OFM_SCALE of the first MUL (and the multiplier
# constant of that MUL) then differs from the reference derivation, relative error up to ~6e-8 instead of <= 2^-31.
# Run: cd /tmp/seed9/C09 && /venv/bin/python out/observation3.py   (exit 1 = violation reproduced)
import os
import sys

sys.path.insert(0, os.getcwd())
sys.path.insert(0, os.path.dirname(os.path.abspath(__file__)))

import numpy as np  # noqa: E402

from c09_e2e import build_tflite  # noqa: E402
from c09_e2e import compile_tflite  # noqa: E402
from c09_e2e import DataType  # noqa: E402
from c09_e2e import decode_command_stream  # noqa: E402
from c09_e2e import fm  # noqa: E402
from c09_e2e import make_op  # noqa: E402
from c09_e2e import Op  # noqa: E402
from c09_e2e import ops_with_state  # noqa: E402
from c09_e2e import read_vela_output  # noqa: E402
from c09_ref import ref_vela_pair  # noqa: E402
from c09_ref import rel_err  # noqa: E402


def first_mul_ofm_scale(scale, beta):
    ifm = fm("in", [1, 1, 4, 16], DataType.int16, scale, 0)
    ofm = fm("out", [1, 1, 4, 16], DataType.int16, 1 / 32768, 0)
    op = make_op(Op.Softmax, "softmax", [ifm], [ofm], {"beta": beta})
    out, _ = compile_tflite(build_tflite([op], [ifm], [ofm]))
    (custom_op,) = read_vela_output(out)
    for name, param, state in ops_with_state(decode_command_stream(custom_op[0])):
        if name == "NPU_OP_ELEMENTWISE" and param == 0:  # MUL
            shift, multiplier = state["NPU_SET_OFM_SCALE"]
            return multiplier, shift & 0x3F
    raise AssertionError("no MUL")


def main():
    bad = 0
    for scale, beta in ((0.001, 1.0), (0.00032, 1.0), (10.0 / 32768, 1.0), (0.0007, 0.6)):
        real = float(np.float32(scale) * np.float32(beta)) / (10.0 / 65535.0)
        exp = ref_vela_pair(real)
        got = first_mul_ofm_scale(scale, beta)
        err = float(rel_err(got[0], got[1], real))
        flag = "" if got == exp else "   <-- differs"
        bad += got != exp
        print(f"input scale {scale!r} beta {beta}: OFM_SCALE {got}, reference {exp}, relative error {err:.3e}{flag}")
    if bad:
        print(f"VIOLATION reproduced (2^-31 = {2.0**-31:.3e})")
        return 1
    print("no violation")
    return 0


if __name__ == "__main__":
    sys.exit(main())

# C09 observation 2 (UNMODIFIED tree): AVERAGE_POOL_2D whose IFM and OFM scales differ (also the 1x1 "copy" average
# pools Vela itself creates, e.g. for CONCATENATION inputs with a different scale).  The OFM_SCALE pair is built as
# round(ceil-reciprocal(2^(31 - rescale_bits + k) / n) * rescale):
#   * rescale = ifm_scale / ofm_scale > 1 costs rescale_bits = bit_length(ceil(rescale)) + 1 bits: for rescale ~ 100
#     the pair only has 23 significant bits (relative error 2^-23 instead of 2^-31),
#   * rescale < 1 with a window larger than 1x1 gets no compensation: the multiplier shrinks to ~2^31 * rescale
#     (e.g. 11453246 ~ 2^23.4 for rescale 0.003), far below [2^30, 2^31], relative error ~2^-25.
# With 16 bit data this is enough to round differently from the exactly scaled average.
# Run: cd /tmp/seed9/C09 && /venv/bin/python out/observation2.py   (exit 1 = violation reproduced)
import math
import os
import sys
from fractions import Fraction

sys.path.insert(0, os.getcwd())
sys.path.insert(0, os.path.dirname(os.path.abspath(__file__)))

import numpy as np  # noqa: E402

from c09_e2e import build_tflite  # noqa: E402
from c09_e2e import compile_tflite  # noqa: E402
from c09_e2e import DataType  # noqa: E402
from c09_e2e import decode_command_stream  # noqa: E402
from c09_e2e import fm  # noqa: E402
from c09_e2e import make_op  # noqa: E402
from c09_e2e import Op  # noqa: E402
from c09_e2e import ops_with_state  # noqa: E402
from c09_e2e import read_vela_output  # noqa: E402
from c09_ref import apply_scale_half_up  # noqa: E402
from c09_ref import rel_err  # noqa: E402

from ethosu.vela.operation import Padding  # noqa: E402


def round_half_away(fr):
    sign = 1 if fr >= 0 else -1
    return sign * int(math.floor(abs(fr) + Fraction(1, 2)))


def ofm_scale_of_avgpool(k, s_in, s_out):
    ifm = fm("in", (1, 12, 12, 8), DataType.int16, s_in, 0)
    ofm = fm("out", (1, 12 - k + 1, 12 - k + 1, 8), DataType.int16, s_out, 0)
    attrs = {
        "padding": Padding.VALID,
        "stride_w": 1,
        "stride_h": 1,
        "filter_width": k,
        "filter_height": k,
        "fused_activation_function": None,
    }
    op = make_op(Op.AvgPool, "avgpool", [ifm], [ofm], attrs)
    out, _ = compile_tflite(build_tflite([op], [ifm], [ofm]))
    (custom_op,) = read_vela_output(out)
    ((name, _, state),) = ops_with_state(decode_command_stream(custom_op[0]))
    assert name == "NPU_OP_POOL"
    shift, mult = state["NPU_SET_OFM_SCALE"]
    return mult, shift & 0x3F


def main():
    violated = False
    for k, ratio in ((1, 99.7), (1, 37.3), (3, 0.003), (2, 130.1)):
        s_in = 0.01
        s_out = s_in / ratio
        n = k * k
        mult, shift = ofm_scale_of_avgpool(k, s_in, s_out)
        real = Fraction(float(np.float32(s_in))) / Fraction(float(np.float32(s_out))) / n
        err = float(rel_err(mult, shift, real))
        first = None
        count = 0
        for acc in range(-32768 * n, 32768 * n + 1):
            exact = acc * real
            ideal = round_half_away(exact)
            if abs(ideal) > 32767 or (2 * exact).denominator == 1:
                continue  # saturating anyway / exact tie
            got = apply_scale_half_up(acc, mult, shift)
            if got != ideal:
                count += 1
                first = first or (acc, got, ideal, float(exact))
        print(
            f"{k}x{k} int16 average pool, ifm_scale/ofm_scale = {ratio}: OFM_SCALE (multiplier, shift) = ({mult}, {shift}), "
            f"multiplier has {mult.bit_length()} bits, relative error {err:.3e} (2^-31 = {2.0**-31:.3e}); "
            f"{count} accumulator values round differently from the exact result, first (acc, got, exact rounded, exact) = {first}"
        )
        if err > 2.0**-29 or count:
            violated = True
    if violated:
        print("VIOLATION reproduced")
        return 1
    print("no violation")
    return 0


if __name__ == "__main__":
    sys.exit(main())

# extra configurations over both corpora (pristine exploration)
import os, sys, multiprocessing
_HERE = os.path.dirname(os.path.abspath(__file__))
sys.path.insert(0, os.path.dirname(_HERE))
sys.path.insert(0, _HERE)
import corpus, corpus2
from c02lib import run_case

INI = "Arm/vela.ini"
MYINI = os.path.join(_HERE, "custom.ini")
open(MYINI, "w").write("""
[System_Config.Sys65]
core_clock=1e9
axi0_port=Sram
axi1_port=Dram
Sram_clock_scale=1.0
Dram_clock_scale=0.5
[System_Config.Sys55]
core_clock=5e8
axi0_port=Sram
axi1_port=OffChipFlash
[System_Config.SysSwapped]
core_clock=1e9
axi0_port=Dram
axi1_port=Sram
[Memory_Mode.Ded]
const_mem_area=Axi1
arena_mem_area=Axi1
cache_mem_area=Axi0
arena_cache_size=50000
[Memory_Mode.DedSwapped]
const_mem_area=Axi0
arena_mem_area=Axi0
cache_mem_area=Axi1
[Memory_Mode.SharedSwapped]
const_mem_area=Axi0
arena_mem_area=Axi1
cache_mem_area=Axi1
[Memory_Mode.Child]
inherit=Memory_Mode.Ded
arena_cache_size=12345
""")

def cfgs():
    r = []
    r.append(("u65-256/align256", ["--accelerator-config", "ethos-u65-256", "--cpu-tensor-alignment", "256"], 393216, True))
    r.append(("u55-128/align64/Greedy", ["--accelerator-config", "ethos-u55-128", "--cpu-tensor-alignment", "64", "--tensor-allocator", "Greedy"], None, False))
    r.append(("u55-256/align128/Linear", ["--accelerator-config", "ethos-u55-256", "--cpu-tensor-alignment", "128", "--tensor-allocator", "LinearAlloc"], None, False))
    r.append(("u65-512/hc1", ["--accelerator-config", "ethos-u65-512", "--hillclimb-max-iterations", "1"], 393216, True))
    r.append(("u65-256/blockdep0/cache30000", ["--accelerator-config", "ethos-u65-256", "--max-block-dependency", "0", "--arena-cache-size", "30000"], 30000, True))
    r.append(("u65-256/Size/cache8192", ["--accelerator-config", "ethos-u65-256", "--optimise", "Size", "--arena-cache-size", "8192"], 8192, True))
    r.append(("u65-512/custom-ded/cache50000", ["--accelerator-config", "ethos-u65-512", "--config", MYINI, "--system-config", "Sys65", "--memory-mode", "Ded", "--arena-cache-size", "50000"], 50000, True))
    r.append(("u65-256/custom-child/cache12345", ["--accelerator-config", "ethos-u65-256", "--config", MYINI, "--system-config", "Sys65", "--memory-mode", "Child", "--arena-cache-size", "12345"], 12345, True))
    r.append(("u65-256/swapped-ded/cache40000", ["--accelerator-config", "ethos-u65-256", "--config", MYINI, "--system-config", "SysSwapped", "--memory-mode", "DedSwapped", "--arena-cache-size", "40000"], 40000, True))
    r.append(("u65-256/swapped-shared", ["--accelerator-config", "ethos-u65-256", "--config", MYINI, "--system-config", "SysSwapped", "--memory-mode", "SharedSwapped", "--arena-cache-size", "400000"], None, False))
    r.append(("u55-32/custom55-shared", ["--accelerator-config", "ethos-u55-32", "--config", MYINI, "--system-config", "Sys55", "--memory-mode", "SharedSwapped" if False else "Ded", "--arena-cache-size", "3000"], 3000, True))
    r.append(("u55-128/sram_only/Size", ["--accelerator-config", "ethos-u55-128", "--config", INI, "--system-config", "Ethos_U55_High_End_Embedded", "--memory-mode", "Sram_Only", "--optimise", "Size", "--arena-cache-size", "100"], None, False))
    r.append(("u65-256/cache1", ["--accelerator-config", "ethos-u65-256", "--arena-cache-size", "1"], 1, True))
    r.append(("u65-512/cache1000/Greedy", ["--accelerator-config", "ethos-u65-512", "--arena-cache-size", "1000", "--tensor-allocator", "Greedy"], 1000, True))
    return r

NETS = dict(corpus.NETS); NETS.update(corpus2.NETS2)
def _run(job):
    name, label, args, acs, ded = job
    try:
        st, v, log = run_case(NETS[name](), args, acs, ded)
        return name, label, st, v[:2], log[-300:] if st == "REJECTED" else ""
    except Exception as e:
        import traceback
        return name, label, "CRASH", [traceback.format_exc()[-600:]], ""
if __name__ == "__main__":
    only = sys.argv[1:]
    jobs = [(n,) + c for n in NETS if (not only or n in only) and not n.startswith("both_bc") for c in cfgs()]
    stats = {}
    with multiprocessing.Pool(6) as pool:
        for name, label, st, v, log in pool.imap_unordered(_run, jobs):
            stats[st] = stats.get(st, 0) + 1
            if st in ("VIOLATION", "CRASH"):
                print("##", st, name, label, v)
            elif st == "REJECTED":
                key = log.strip().splitlines()[-1][:150] if log.strip() else ""
                stats["rej:" + key[:60]] = stats.get("rej:" + key[:60], 0) + 1
    print("##", stats)

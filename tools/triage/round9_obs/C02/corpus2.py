# Second corpus: unusual but valid networks
import os
import re
import sys

_HERE = os.path.dirname(os.path.abspath(__file__))
sys.path.insert(0, os.path.dirname(_HERE))
sys.path.insert(0, _HERE)

from c02lib import Net  # noqa: E402
from corpus import configs  # noqa: E402
from ethosu.vela.data_type import DataType  # noqa: E402
from ethosu.vela.operation import Op  # noqa: E402
from ethosu.vela.operation import Padding  # noqa: E402

I8, I16, U8 = DataType.int8, DataType.int16, DataType.uint8


def both_broadcast(dt=I8):
    n = Net("both_bc", dt)
    x = n.input([1, 6, 1, 8])
    y = n.input([1, 1, 5, 8])
    z = n.add(x, y)
    n.output(z)
    return n


def both_broadcast2(dt=I8):
    n = Net("both_bc2", dt)
    x = n.input([1, 6, 5, 1])
    y = n.input([1, 1, 5, 24])
    z = n.mul(x, y)
    n.output(z)
    return n


def bc_first(dt=I8):
    n = Net("bc_first", dt)
    x = n.input([1, 1, 1, 24])
    y = n.input([1, 7, 5, 24])
    z = n.sub(x, y)
    z = n.maximum(n.const([1, 1, 5, 1], dt), z)
    n.output(z)
    return n


def rank_mix(dt=I8):
    n = Net("rank_mix", dt)
    x = n.input([4, 10])
    y = n.const([10], dt)
    z = n.add(x, y)
    z2 = n.mul(z, n.const([4, 1], dt))
    n.output(z2)
    return n


def rank3(dt=I8):
    n = Net("rank3", dt)
    x = n.input([5, 9, 20])
    y = n.add(x, n.const([1, 1, 20], dt))
    a, b = n.split(y, 2, 2)
    z = n.concat([b, a, b], axis=2)
    z = n.concat([z, z], axis=1)
    n.output(z)
    return n


def concat_neg_axis(dt=I8):
    n = Net("concat_neg", dt)
    x = n.input([1, 4, 6, 7])
    a = n.conv(x, 9, k=(1, 1))
    b = n.conv(x, 23, k=(1, 1))
    z = n.concat([a, b, a], axis=-1)
    z = n.concat([z, z], axis=-2)
    n.output(z)
    return n


def split_w(dt=I8):
    n = Net("split_w", dt)
    x = n.input([1, 6, 12, 16])
    y = n.conv(x, 16, k=(3, 3))
    a, b, c = n.split(y, 2, 3)
    z = n.add(a, c)
    z = n.mul(z, b)
    n.output(z)
    return n


def split_v_c(dt=I8):
    n = Net("split_v", dt)
    x = n.input([1, 6, 6, 40])
    y = n.conv(x, 40, k=(1, 1))
    a, b, c = n.split_v(y, 3, [16, 8, 16])
    z = n.add(a, c)
    z = n.concat([z, b], 3)
    n.output(z)
    return n


def unpack_pack(dt=I8):
    n = Net("unpack_pack", dt)
    x = n.input([1, 3, 8, 16])
    y = n.conv(x, 16, k=(1, 1))
    y = n.reshape(y, [3, 8, 16])
    a, b, c = n.unpack(y, 0)
    z = n.pack([c, a, b, a], 0)
    n.output(z)
    return n


def slice_hw(dt=I8):
    n = Net("slice_hw", dt)
    x = n.input([1, 12, 14, 8])
    y = n.conv(x, 8, k=(3, 3))
    z = n.slice(y, [0, 2, 3, 0], [1, 7, 9, 8])
    z = n.conv(z, 8, k=(3, 3), stride=(2, 2))
    w = n.strided_slice(y, [0, 5, 0, 0], [1, 12, 14, 8])
    w = n.pool(w, "max", k=(3, 3), stride=(1, 1), padding=Padding.SAME)
    n.output(z, w)
    return n


def resize_odd(dt=I8):
    n = Net("resize_odd", dt)
    x = n.input([1, 5, 7, 16])
    y = n.conv(x, 16, k=(1, 1))
    a = n.resize_bilinear(y, 9, 13, align_corners=True)
    b = n.resize_bilinear(y, 40, 56)
    c = n.resize_nearest(y, 10, 14)
    d = n.resize_bilinear(y, 10, 14, half_pixel_centers=True)
    n.output(a, b, c, d)
    return n


def resize_big(dt=I8):
    n = Net("resize_big", dt)
    x = n.input([1, 16, 16, 32])
    y = n.conv(x, 32, k=(1, 1))
    b = n.resize_bilinear(y, 128, 128)
    b = n.conv(b, 8, k=(3, 3))
    n.output(b)
    return n


def resize_nn_hp(dt=I8):
    n = Net("resize_nn_hp", dt)
    x = n.input([1, 6, 6, 16])
    y = n.conv(x, 16, k=(1, 1))
    c = n.resize_nearest(y, 12, 12, half_pixel_centers=True)
    d = n.resize_nearest(y, 24, 24, align_corners=False)
    n.output(c, d)
    return n


def odd_convs(dt=I8):
    n = Net("odd_convs", dt)
    x = n.input([1, 17, 23, 3])
    y = n.conv(x, 5, k=(7, 7), stride=(2, 2))
    y = n.conv(y, 9, k=(1, 5), stride=(1, 3))
    y = n.conv(y, 4, k=(3, 1), stride=(2, 1), padding=Padding.VALID)
    y = n.dwconv(y, k=(2, 2), stride=(2, 2))
    n.output(y)
    return n


def tall_kernels(dt=I8):
    n = Net("tall_kernels", dt)
    x = n.input([1, 20, 9, 8])
    y = n.conv(x, 8, k=(5, 1))
    y = n.dwconv(y, k=(7, 1))
    y = n.pool(y, "max", k=(4, 1), stride=(2, 1), padding=Padding.SAME)
    y = n.pool(y, "avg", k=(5, 2), stride=(1, 1), padding=Padding.SAME)
    n.output(y)
    return n


def kernel_bigger_than_ifm(dt=I8):
    n = Net("kbig", dt)
    x = n.input([1, 3, 3, 8])
    y = n.conv(x, 8, k=(5, 5))
    y = n.dwconv(y, k=(7, 7))
    y = n.pool(y, "avg", k=(3, 3), stride=(1, 1), padding=Padding.VALID)
    n.output(y)
    return n


def dw_mult(dt=I8):
    n = Net("dw_mult", dt)
    x = n.input([1, 9, 9, 1])
    y = n.dwconv(x, k=(3, 3), depth_multiplier=24)
    y = n.conv(y, 8, k=(1, 1))
    n.output(y)
    return n


def global_pool(dt=I8):
    n = Net("global_pool", dt)
    x = n.input([1, 7, 7, 64])
    y = n.conv(x, 64, k=(1, 1))
    a = n.pool(y, "avg", k=(7, 7), stride=(7, 7))
    b = n.mean(y)
    z = n.add(a, b)
    n.output(z)
    return n


def mean_variants(dt=I8):
    n = Net("mean_variants", dt)
    x = n.input([1, 70, 70, 8])
    a = n.mean(x, (1, 2))
    b = n.mean(x, (1,))
    c = n.mean(x, (2,))
    d = n.mean(x, (1, 2), keep_dims=False)
    n.output(a, b, c, d)
    return n


def mean_c(dt=I8):
    n = Net("mean_c", dt)
    x = n.input([1, 6, 6, 40])
    y = n.conv(x, 40, k=(1, 1))
    a = n.mean(y, (3,))
    n.output(a)
    return n


def fc_batched(b=4, dt=I8):
    n = Net("fc_batched", dt)
    x = n.input([b, 64])
    y = n.fc(x, 48)
    y = n.fc(y, 10)
    n.output(y)
    return n


def softmax_batched(dt=I8):
    n = Net("softmax_b", dt)
    x = n.input([6, 100])
    y = n.softmax(x)
    n.output(y)
    return n


def softmax_4d(dt=I8):
    n = Net("softmax_4d", dt)
    x = n.input([1, 9, 11, 21])
    y = n.conv(x, 21, k=(1, 1))
    y = n.softmax(y)
    n.output(y)
    return n


def lut_many(dt=I8):
    n = Net("lut_many", dt)
    x = n.input([1, 8, 8, 16])
    y = n.conv(x, 16, k=(1, 1))
    y = n.tanh(y)
    y = n.sigmoid(y)
    y = n.tanh(y)
    y = n.hardswish(y)
    y = n.leaky_relu(y, 0.2)
    y = n.exp(y)
    y = n.sigmoid(y)
    y = n.rsqrt(y)
    y = n.conv(y, 10, k=(1, 1))
    y = n.softmax(y)
    n.output(y)
    return n


def minmax_abs(dt=I8):
    n = Net("minmax_abs", dt)
    x = n.input([1, 8, 8, 20])
    y = n.conv(x, 20, k=(1, 1))
    a = n.abs(y)
    b = n.minimum(a, n.const([1, 1, 1, 20], dt, scale=0.05))
    c = n.maximum(b, y)
    d = n.prelu(c)
    n.output(d)
    return n


def argmax_net(dt=I8):
    n = Net("argmax", dt)
    x = n.input([1, 5, 7, 30])
    y = n.conv(x, 30, k=(1, 1))
    z = n.argmax(y)
    n.output(z)
    return n


def quantize_net():
    n = Net("quantize", I8)
    x = n.input([1, 8, 8, 16])
    y = n.conv(x, 16, k=(3, 3))
    y = n.quantize(y, 0.1, 3)
    y = n.quantize(y, 0.02, 0, I16)
    y = n.tanh(y) if False else y
    n.output(y)
    return n


def expand_squeeze(dt=I8):
    n = Net("expand_squeeze", dt)
    x = n.input([6, 40])
    y = n.fc(x, 24)
    y = n.expand_dims(y, 0)
    y = n.expand_dims(y, 0)
    y = n.conv(y, 16, k=(1, 1))
    y = n.squeeze(y, [0, 1])
    y = n.fc(y, 8)
    n.output(y)
    return n


def transposes(dt=I8):
    n = Net("transposes", dt)
    x = n.input([1, 6, 10, 16])
    y = n.conv(x, 16, k=(1, 1))
    a = n.transpose(y, [0, 2, 1, 3])
    b = n.transpose(y, [0, 1, 3, 2])
    c = n.transpose(y, [0, 3, 1, 2])
    n.output(a, b, c)
    return n


def transpose_3d(dt=I8):
    n = Net("transpose3d", dt)
    x = n.input([6, 10, 16])
    y = n.add(x, n.const([1, 1, 16], dt))
    a = n.transpose(y, [1, 0, 2])
    b = n.transpose(y, [0, 2, 1])
    n.output(a, b)
    return n


def pad_variants(dt=I8):
    n = Net("pad_variants", dt)
    x = n.input([1, 9, 9, 8])
    a = n.pad(x, [[0, 0], [2, 1], [1, 2], [0, 0]])
    a = n.conv(a, 8, k=(3, 3), padding=Padding.VALID)
    b = n.pad(x, [[0, 0], [0, 0], [0, 0], [3, 5]])
    c = n.pad(x, [[0, 0], [1, 1], [1, 1], [0, 0]])
    c = n.pool(c, "avg", k=(3, 3), stride=(1, 1), padding=Padding.VALID)
    d = n.pad(x, [[0, 0], [1, 2], [3, 1], [0, 0]])
    n.output(a, b, c, d)
    return n


def tconv_variants(dt=I8):
    n = Net("tconv_variants", dt)
    x = n.input([1, 5, 7, 8])
    a = n.transpose_conv(x, 8, k=(2, 2), stride=(2, 2))
    b = n.transpose_conv(x, 8, k=(4, 4), stride=(2, 2), padding=Padding.VALID)
    c = n.transpose_conv(x, 8, k=(3, 5), stride=(2, 2), padding=Padding.VALID)
    d = n.transpose_conv(x, 8, k=(5, 3), stride=(2, 2))
    n.output(a, b, c, d)
    return n


def shared_weights(dt=I8):
    n = Net("shared_weights", dt)
    x = n.input([1, 8, 8, 16])
    a = n.conv(x, 32, k=(3, 3), oscale=0.05)
    w = n.ops[-1].inputs[1]
    bia = n.ops[-1].inputs[2]
    out = n.fm([1, 8, 8, 32], 0.11)
    y2 = n.pool(x, "max", k=(3, 3), stride=(1, 1), padding=Padding.SAME)
    b = n._op(Op.Conv2DBias, [y2, w, bia], out, dict(n.ops[-2].attrs))
    z = n.add(a, b)
    n.output(z)
    return n


def long_branch(dt=I8):
    # long lived tensors + many small ones: allocator stress
    n = Net("long_branch", dt)
    x = n.input([1, 24, 24, 16])
    keep = []
    y = x
    for i in range(8):
        y = n.conv(y, 16 + 8 * (i % 3), k=(3, 3), stride=(1, 1))
        keep.append(n.conv(y, 8, k=(1, 1)))
    z = n.concat(keep, 3)
    z = n.conv(z, 16, k=(1, 1))
    n.output(z)
    return n


def uint8_net():
    n = Net("uint8", U8)
    x = n.input([1, 16, 16, 8], zp=128)
    y = n.conv(x, 16)
    y = n.pool(y, "avg")
    z = n.dwconv(y)
    y = n.add(y, z)
    n.output(y)
    return n


def big_fm_small_cache(dt=I8):
    n = Net("big_fm", dt)
    x = n.input([1, 128, 128, 8])
    y = n.conv(x, 16, k=(3, 3))
    y = n.dwconv(y, k=(3, 3))
    y = n.conv(y, 16, k=(3, 3), stride=(2, 2))
    y = n.pool(y, "max", k=(3, 3), stride=(2, 2), padding=Padding.SAME)
    y = n.conv(y, 32, k=(3, 3))
    n.output(y)
    return n


def ew_chain(dt=I8):
    n = Net("ew_chain", dt)
    x = n.input([1, 64, 64, 16])
    y = n.conv(x, 16, k=(3, 3))
    y = n.mul(y, n.const([1, 1, 1, 16], dt))
    y = n.add(y, n.const([1, 1, 1, 16], dt))
    y = n.conv(y, 16, k=(3, 3))
    y = n.leaky_relu(y)
    y = n.conv(y, 16, k=(3, 3))
    n.output(y)
    return n


NETS2 = {
    "both_bc": both_broadcast,
    "both_bc2": both_broadcast2,
    "bc_first": bc_first,
    "rank_mix": rank_mix,
    "rank3": rank3,
    "concat_neg": concat_neg_axis,
    "split_w": split_w,
    "split_v": split_v_c,
    "unpack_pack": unpack_pack,
    "slice_hw": slice_hw,
    "resize_odd": resize_odd,
    "resize_big": resize_big,
    "resize_nn_hp": resize_nn_hp,
    "odd_convs": odd_convs,
    "tall_kernels": tall_kernels,
    "kbig": kernel_bigger_than_ifm,
    "dw_mult": dw_mult,
    "global_pool": global_pool,
    "mean_variants": mean_variants,
    "mean_c": mean_c,
    "fc_b4": fc_batched,
    "fc_b3": lambda: fc_batched(3),
    "fc_b16": lambda: fc_batched(16),
    "fc_b16_i16": lambda: fc_batched(16, I16),
    "softmax_b": softmax_batched,
    "softmax_4d": softmax_4d,
    "softmax_4d_i16": lambda: softmax_4d(I16),
    "lut_many": lut_many,
    "minmax_abs": minmax_abs,
    "minmax_abs_i16": lambda: minmax_abs(I16),
    "argmax": argmax_net,
    "quantize": quantize_net,
    "expand_squeeze": expand_squeeze,
    "transposes": transposes,
    "transposes_i16": lambda: transposes(I16),
    "transpose3d": transpose_3d,
    "pad_variants": pad_variants,
    "tconv_variants": tconv_variants,
    "shared_weights": shared_weights,
    "long_branch": long_branch,
    "uint8": uint8_net,
    "big_fm": big_fm_small_cache,
    "big_fm_i16": lambda: big_fm_small_cache(I16),
    "ew_chain": ew_chain,
    "both_bc_i16": lambda: both_broadcast(I16),
    "split_w_i16": lambda: split_w(I16),
    "slice_hw_i16": lambda: slice_hw(I16),
    "resize_odd_i16": lambda: resize_odd(I16),
    "tall_kernels_i16": lambda: tall_kernels(I16),
    "pad_variants_i16": lambda: pad_variants(I16),
    "concat_neg_i16": lambda: concat_neg_axis(I16),
}


def _run(job):
    from c02lib import run_case

    net_name, label, args, acs, ded = job
    try:
        net = NETS2[net_name]()
        st, v, log = run_case(net, args, acs, ded)
        m = re.search(r"CPU-OPS: (.*)", log)
        cpu = m.group(1) if m else "?"
        return net_name, label, st, v, (log[-600:] if st == "REJECTED" else ""), cpu
    except Exception:  # noqa
        import traceback

        return net_name, label, "CRASH", [traceback.format_exc()[-1500:]], "", ""


if __name__ == "__main__":
    import multiprocessing

    only = sys.argv[1:]
    jobs = []
    for net_name in NETS2:
        if only and net_name not in only:
            continue
        for label, args, acs, ded in configs():
            jobs.append((net_name, label, args, acs, ded))
    placed = {}
    with multiprocessing.Pool(8) as pool:
        stats = {}
        for net_name, label, st, v, log, cpu in pool.imap_unordered(_run, jobs):
            stats[st] = stats.get(st, 0) + 1
            placed.setdefault(net_name, set()).add(cpu)
            if st != "OK":
                print(f"## {st:10s} {net_name:18s} {label}")
                for s in v[:4]:
                    print("##       ", s)
                if log:
                    print("##       LOG:", log.strip().splitlines()[-3:])
        for k, v in placed.items():
            print("## placement", k, sorted(v))
        print("##", stats)

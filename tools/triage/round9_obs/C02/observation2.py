#!/usr/bin/env python3
# OBSERVATION 2 (unmodified tree; not a C02 violation, the compiler aborts and writes no output): a batch-major
# UNIDIRECTIONAL_SEQUENCE_LSTM does not compile for configurations WITHOUT a dedicated SRAM (e.g. --accelerator-config
# ethos-u55-128, Shared_Sram), while the same model compiles for ethos-u65-256/512.
#   * n_batch == 1: TypeError "unsupported operand type(s) for +: 'NoneType' and 'float'" in Tensor.address_for_coordinate:
#     the per-batch state copy "<cell_state>_state#0" (equivalence id shared with the variable state tensor) is moved
#     to fast storage (mem_type Scratch_fast) by Scheduler.use_fast_storage_for_feature_maps, the variable tensor stays
#     Scratch. LiveRangeGraph.get_or_create_range() matches on the equivalence id only and returns the range of the
#     variable tensor without adding the copy, but TensorAddressMap is keyed by (equivalence id, mem_type): the copy
#     never gets an address.
#   * n_batch > 1: AssertionError "non_local_mem_usage[sched_op] >= 0" in Scheduler.build_cascades_for_min_schedule.
# Same root cause as observation 1 (state copies that alias the variable state tensors).
#
# Run:  cd /tmp/seed9/C02 && /venv/bin/python out/observation2.py      (exit 1 = crash reproduced)
import os
import sys
import traceback

HERE = os.path.dirname(os.path.abspath(__file__))
sys.path.insert(0, os.getcwd())
sys.path.insert(0, HERE)

from c02lib import Net, compile_model  # noqa: E402
from ethosu.vela.data_type import DataType  # noqa: E402


def build(n_batch, n_time, n_feature, n_out):
    n = Net("lstm", DataType.int8)
    x = n.input([n_batch, n_time, n_feature], scale=1.0 / 128)
    y = n.lstm(x, n_out, time_major=False)
    n.output(y)
    return n.build()


def main():
    crashes = 0
    for shape in ((1, 3, 12, 20), (3, 2, 12, 20)):
        for acc in ("ethos-u55-128", "ethos-u65-256"):
            try:
                res = compile_model(build(*shape), ["--accelerator-config", acc])
                print(f"batch/time/feature/out={shape} {acc}: rc={res.rc} output written: {res.out_path is not None}")
                res.cleanup()
            except Exception:  # noqa
                crashes += 1
                print(f"batch/time/feature/out={shape} {acc}: CRASH {traceback.format_exc().strip().splitlines()[-1]}")
    return 1 if crashes else 0


if __name__ == "__main__":
    sys.exit(main())

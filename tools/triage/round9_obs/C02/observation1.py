#!/usr/bin/env python3
# OBSERVATION 1 (unmodified tree): C02 is violated for a batch-major UNIDIRECTIONAL_SEQUENCE_LSTM with n_batch > 1.
#
# lstm.py unrolls the operator. For batch b > 0 get_initial_state() makes a per-batch copy of the variable state
# tensors (tensor "<state>_state#b", shape [1, n_out], written by an AvgPool copy operation). The FullyConnected /
# elementwise operations that consume this copy go through Lstm.get_state(), which sets read_offsets[0] = [b, 0] and
# ifm_shapes[0] = [n_batch, n_out] as if they were reading the variable state tensor itself. The emitted IFM base is
# therefore  copy.address + b * n_out * elem_size : the read starts outside the 1-batch copy (32 bytes here) and, when the
# copy is the last tensor of its region, outside the published region tensor.
#
# Run:  cd /tmp/seed9/C02 && /venv/bin/python out/observation1.py      (exit 1 = violation reproduced)
import os
import sys

HERE = os.path.dirname(os.path.abspath(__file__))
sys.path.insert(0, os.getcwd())
sys.path.insert(0, HERE)

from c02lib import Net, check_output, compile_model  # noqa: E402
from ethosu.vela.data_type import DataType  # noqa: E402


def build(n_batch, n_time, n_feature, n_out, dtype):
    n = Net("lstm", dtype)
    x = n.input([n_batch, n_time, n_feature], scale=1.0 / 128 if dtype == DataType.int8 else 2.0 ** -15)
    y = n.lstm(x, n_out, time_major=False)
    n.output(y)
    return n.build()


def main():
    found = 0
    for dtype in (DataType.int8, DataType.int16):
        for shape in ((3, 2, 12, 20), (2, 4, 40, 24), (4, 3, 64, 48)):
            args = ["--accelerator-config", "ethos-u65-512", "--optimise", "Size"]
            res = compile_model(build(*shape, dtype), args)
            try:
                if res.out_path is None:
                    print(f"{dtype} {shape}: rejected: {res.log.strip().splitlines()[-1:]}")
                    continue
                v = check_output(res.out_path, 384 * 1024, True)
                print(f"{dtype} batch/time/feature/out={shape} {' '.join(args)}: {len(v)} accesses outside the published regions")
                for s in v[:3]:
                    print("    ", s)
                found += len(v)
            finally:
                res.cleanup()
    print("VIOLATION REPRODUCED" if found else "no violation")
    return 1 if found else 0


if __name__ == "__main__":
    sys.exit(main())

# A corpus of small networks and configurations used to exercise the C02 oracle (see c02lib.py)
import os
import sys

_HERE = os.path.dirname(os.path.abspath(__file__))
sys.path.insert(0, os.path.dirname(_HERE))
sys.path.insert(0, _HERE)

from c02lib import Net  # noqa: E402
from ethosu.vela.data_type import DataType  # noqa: E402
from ethosu.vela.operation import Op  # noqa: E402
from ethosu.vela.operation import Padding  # noqa: E402


def net_conv_chain(h=32, w=32, c=8, dtype=DataType.int8):
    n = Net("conv_chain", dtype)
    x = n.input([1, h, w, c])
    y = n.conv(x, 16)
    y = n.pool(y)
    y = n.conv(y, 32, stride=(2, 2))
    z = n.dwconv(y)
    y = n.add(y, z)
    n.output(y)
    return n


def net_deep_chain(h=64, w=64, c=16, depth=5, oc=32, dtype=DataType.int8):
    n = Net("deep_chain", dtype)
    x = n.input([1, h, w, c])
    y = x
    for i in range(depth):
        y = n.conv(y, oc, k=(3, 3), act=Op.Relu if i % 2 else None)
    n.output(y)
    return n


def net_dw_chain(h=48, w=48, c=24, depth=4, dtype=DataType.int8):
    n = Net("dw_chain", dtype)
    x = n.input([1, h, w, c])
    y = x
    for i in range(depth):
        y = n.dwconv(y, k=(3, 3))
        y = n.conv(y, c, k=(1, 1))
    n.output(y)
    return n


def net_big_weights(ic=64, oc=256, h=8, w=8, dtype=DataType.int8):
    n = Net("big_weights", dtype)
    x = n.input([1, h, w, ic])
    y = n.conv(x, oc, k=(3, 3))
    y = n.conv(y, oc, k=(3, 3))
    n.output(y)
    return n


def net_fc(ic=512, oc=300, dtype=DataType.int8):
    n = Net("fc", dtype)
    x = n.input([1, ic])
    y = n.fc(x, oc)
    y = n.fc(y, 37)
    n.output(y)
    return n


def net_lut(h=16, w=16, c=20, dtype=DataType.int8):
    n = Net("lut", dtype)
    x = n.input([1, h, w, c])
    y = n.conv(x, c, k=(1, 1))
    a = n.tanh(y)
    b = n.sigmoid(y)
    b2 = n.fm(list(b.shape), 1.0 / 256, -128)
    z = n.mul(a, b, oscale=1.0 / 128)
    z = n.leaky_relu(z)
    n.output(z)
    return n


def net_softmax(c=40, dtype=DataType.int8):
    n = Net("softmax", dtype)
    x = n.input([1, 4, 4, c])
    y = n.conv(x, c, k=(1, 1))
    y = n.softmax(y)
    n.output(y)
    return n


def net_concat(h=20, w=20, dtype=DataType.int8, c1=8, c2=24):
    n = Net("concat", dtype)
    x = n.input([1, h, w, 8])
    a = n.conv(x, c1, k=(1, 1))
    b = n.conv(x, c2, k=(3, 3))
    c = n.pool(x, "avg", k=(3, 3), stride=(1, 1), padding=Padding.SAME)
    y = n.concat([a, b, c], axis=3)
    y = n.conv(y, 16, k=(1, 1))
    n.output(y)
    return n


def net_concat_h(h=10, w=12, dtype=DataType.int8):
    n = Net("concat_h", dtype)
    x = n.input([1, h, w, 16])
    a = n.conv(x, 16, k=(1, 1))
    b = n.dwconv(x)
    y = n.concat([a, b], axis=1)
    y = n.pool(y)
    n.output(y)
    return n


def net_slice(h=16, w=16, dtype=DataType.int8):
    n = Net("slice", dtype)
    x = n.input([1, h, w, 32])
    y = n.conv(x, 32, k=(1, 1))
    a = n.strided_slice(y, [0, 0, 0, 0], [1, h, w, 16])
    b = n.strided_slice(y, [0, 0, 0, 16], [1, h, w, 32])
    z = n.add(a, b)
    n.output(z)
    return n


def net_resize(h=8, w=8, c=16, factor=2, kind="bilinear", hp=False, ac=False, dtype=DataType.int8):
    n = Net("resize", dtype)
    x = n.input([1, h, w, c])
    y = n.conv(x, c, k=(1, 1))
    if kind == "bilinear":
        y = n.resize_bilinear(y, h * factor, w * factor, align_corners=ac, half_pixel_centers=hp)
    else:
        y = n.resize_nearest(y, h * factor, w * factor, align_corners=ac, half_pixel_centers=hp)
    y = n.conv(y, 8, k=(3, 3))
    n.output(y)
    return n


def net_transpose(dtype=DataType.int8, shape=(1, 6, 10, 16), perm=(0, 2, 1, 3)):
    n = Net("transpose", dtype)
    x = n.input(list(shape))
    y = n.conv(x, shape[3], k=(1, 1))
    y = n.transpose(y, list(perm))
    y = n.conv(y, 8, k=(1, 1))
    n.output(y)
    return n


def net_broadcast(dtype=DataType.int8, h=9, w=7, c=19):
    n = Net("broadcast", dtype)
    x = n.input([1, h, w, c])
    y = n.conv(x, c, k=(1, 1))
    k1 = n.const([1, 1, 1, c], dtype)
    k2 = n.const([1, 1, w, 1], dtype)
    k3 = n.const([1, h, 1, 1], dtype)
    y = n.add(y, k1)
    y = n.mul(y, k2)
    y = n.add(y, k3)
    m = n.mean(y)
    y = n.mul(y, m)
    n.output(y)
    return n


def net_pad_mean(dtype=DataType.int8):
    n = Net("pad_mean", dtype)
    x = n.input([1, 13, 13, 12])
    y = n.pad(x, [[0, 0], [1, 1], [2, 2], [0, 0]])
    y = n.conv(y, 24, k=(3, 3), padding=Padding.VALID)
    y = n.mean(y)
    y = n.reshape(y, [1, 24])
    y = n.fc(y, 10)
    n.output(y)
    return n


def net_reshape(dtype=DataType.int8):
    n = Net("reshape", dtype)
    x = n.input([1, 8, 8, 12])
    y = n.conv(x, 12, k=(3, 3))
    y = n.reshape(y, [1, 16, 4, 12])
    y = n.conv(y, 20, k=(3, 3))
    y = n.reshape(y, [1, 1, 64, 20])
    y = n.pool(y, k=(1, 2), stride=(1, 2))
    n.output(y)
    return n


def net_dilated(dtype=DataType.int8):
    n = Net("dilated", dtype)
    x = n.input([1, 24, 24, 8])
    y = n.conv(x, 16, k=(3, 3), dilation=(2, 2))
    y = n.conv(y, 16, k=(5, 5), stride=(2, 2), padding=Padding.VALID)
    y = n.dwconv(y, k=(3, 3), stride=(2, 2))
    y = n.conv(y, 16, k=(3, 3), stride=(3, 3))
    n.output(y)
    return n


def net_tconv(dtype=DataType.int8):
    n = Net("tconv", dtype)
    x = n.input([1, 8, 8, 16])
    y = n.conv(x, 16, k=(1, 1))
    y = n.transpose_conv(y, 8, k=(3, 3), stride=(2, 2))
    y = n.conv(y, 8, k=(3, 3))
    n.output(y)
    return n


def net_residual(h=40, w=40, c=16, blocks=3, dtype=DataType.int8):
    n = Net("residual", dtype)
    x = n.input([1, h, w, c])
    y = n.conv(x, c, k=(3, 3))
    for _ in range(blocks):
        a = n.conv(y, c * 2, k=(1, 1), act=Op.Relu6)
        a = n.dwconv(a, k=(3, 3), act=Op.Relu6)
        a = n.conv(a, c, k=(1, 1))
        y = n.add(y, a)
    n.output(y)
    return n


def net_two_outputs(dtype=DataType.int8):
    n = Net("two_outputs", dtype)
    x = n.input([1, 16, 16, 8])
    y = n.conv(x, 16)
    a = n.pool(y)
    b = n.conv(y, 5, k=(1, 1))
    n.output(a, b)
    return n


def net_cpu_split(dtype=DataType.int8):
    # a CPU-only operator in the middle: two NPU subgraphs
    n = Net("cpu_split", dtype)
    x = n.input([1, 16, 16, 8])
    y = n.conv(x, 16)
    y = n.unary(Op.Floor, y)  # not supported on the NPU
    y = n.conv(y, 8)
    y = n.tanh(y)
    n.output(y)
    return n


def net_wide(dtype=DataType.int8):
    n = Net("wide", dtype)
    x = n.input([1, 3, 300, 5])
    y = n.conv(x, 7, k=(3, 3))
    y = n.dwconv(y, k=(3, 5))
    y = n.pool(y, "avg", k=(1, 3), stride=(1, 2))
    n.output(y)
    return n


def net_maxpool_chain(dtype=DataType.int8):
    n = Net("maxpool_chain", dtype)
    x = n.input([1, 56, 56, 24])
    y = n.pool(x, "max", k=(3, 3), stride=(1, 1), padding=Padding.SAME)
    y = n.pool(y, "avg", k=(3, 3), stride=(2, 2), padding=Padding.SAME)
    y = n.pool(y, "max", k=(2, 2), stride=(2, 2))
    y = n.conv(y, 24, k=(1, 1))
    n.output(y)
    return n


NETS = {
    "conv_chain": net_conv_chain,
    "conv_chain_i16": lambda: net_conv_chain(dtype=DataType.int16),
    "deep_chain": net_deep_chain,
    "deep_chain_big": lambda: net_deep_chain(96, 96, 16, 6, 48),
    "deep_chain_i16": lambda: net_deep_chain(48, 48, 8, 4, 24, DataType.int16),
    "dw_chain": net_dw_chain,
    "dw_chain_big": lambda: net_dw_chain(96, 96, 32, 3),
    "big_weights": net_big_weights,
    "big_weights2": lambda: net_big_weights(128, 512, 4, 4),
    "fc": net_fc,
    "fc_big": lambda: net_fc(2048, 1001),
    "lut": net_lut,
    "lut_i16": lambda: net_lut(dtype=DataType.int16),
    "softmax": net_softmax,
    "softmax_i16": lambda: net_softmax(dtype=DataType.int16),
    "concat": net_concat,
    "concat_odd": lambda: net_concat(17, 13, c1=5, c2=11),
    "concat_h": net_concat_h,
    "slice": net_slice,
    "resize_bl2": net_resize,
    "resize_bl2_hp": lambda: net_resize(hp=True),
    "resize_bl2_ac": lambda: net_resize(9, 9, 16, 2, ac=True) if False else net_resize(ac=True),
    "resize_bl4": lambda: net_resize(factor=4),
    "resize_nn2": lambda: net_resize(kind="nearest"),
    "resize_nn4": lambda: net_resize(kind="nearest", factor=4),
    "resize_1x1": lambda: net_resize(1, 1, 16, 4),
    "transpose": net_transpose,
    "transpose_b": lambda: net_transpose(shape=(1, 7, 9, 5)),
    "broadcast": net_broadcast,
    "broadcast_i16": lambda: net_broadcast(DataType.int16),
    "pad_mean": net_pad_mean,
    "reshape": net_reshape,
    "dilated": net_dilated,
    "tconv": net_tconv,
    "residual": net_residual,
    "residual_big": lambda: net_residual(80, 80, 24, 4),
    "two_outputs": net_two_outputs,
    "cpu_split": net_cpu_split,
    "wide": net_wide,
    "maxpool_chain": net_maxpool_chain,
}

INI = "Arm/vela.ini"


def configs():
    """Yields (label, args, arena_cache_size, dedicated)"""
    res = []
    for acc in ("ethos-u55-32", "ethos-u55-64", "ethos-u55-128", "ethos-u55-256"):
        res.append((f"{acc}/default", ["--accelerator-config", acc], None, False))
    res.append(("u65-256/default", ["--accelerator-config", "ethos-u65-256"], 384 * 1024, True))
    res.append(("u65-512/default", ["--accelerator-config", "ethos-u65-512"], 384 * 1024, True))
    for alloc in ("Greedy", "LinearAlloc"):
        res.append((f"u55-128/{alloc}", ["--accelerator-config", "ethos-u55-128", "--tensor-allocator", alloc], None,
                    False))
        res.append((f"u65-256/{alloc}", ["--accelerator-config", "ethos-u65-256", "--tensor-allocator", alloc],
                    384 * 1024, True))
    res.append(("u55-128/Size", ["--accelerator-config", "ethos-u55-128", "--optimise", "Size"], None, False))
    res.append(("u65-512/Size", ["--accelerator-config", "ethos-u65-512", "--optimise", "Size"], 384 * 1024, True))
    for sz in (0, 4096, 20000, 65536):
        res.append((f"u65-256/cache{sz}", ["--accelerator-config", "ethos-u65-256", "--arena-cache-size", str(sz)], sz,
                    True))
        res.append((f"u65-512/cache{sz}", ["--accelerator-config", "ethos-u65-512", "--arena-cache-size", str(sz)], sz,
                    True))
    for sz in (16384, 65536):
        res.append((f"u55-256/shared/cache{sz}",
                    ["--accelerator-config", "ethos-u55-256", "--config", INI, "--system-config",
                     "Ethos_U55_High_End_Embedded", "--memory-mode", "Shared_Sram", "--arena-cache-size", str(sz)],
                    None, False))
    res.append(("u55-64/sram_only",
                ["--accelerator-config", "ethos-u55-64", "--config", INI, "--system-config",
                 "Ethos_U55_High_End_Embedded", "--memory-mode", "Sram_Only", "--arena-cache-size", str(1 << 22)], None,
                False))
    res.append(("u65-256/shared",
                ["--accelerator-config", "ethos-u65-256", "--config", INI, "--system-config", "Ethos_U65_High_End",
                 "--memory-mode", "Shared_Sram", "--arena-cache-size", str(1 << 20)], None, False))
    res.append(("u65-512/dedicated512/Greedy",
                ["--accelerator-config", "ethos-u65-512", "--config", INI, "--system-config", "Ethos_U65_High_End",
                 "--memory-mode", "Dedicated_Sram_512KB", "--arena-cache-size", str(32768), "--tensor-allocator",
                 "Greedy"], 32768, True))
    return res


def _run(job):
    from c02lib import run_case

    net_name, label, args, acs, ded = job
    try:
        net = NETS[net_name]()
        st, v, log = run_case(net, args, acs, ded)
        return net_name, label, st, v, log[-600:] if st == "REJECTED" else ""
    except Exception as e:  # noqa
        import traceback

        return net_name, label, "CRASH", [traceback.format_exc()[-1500:]], ""


if __name__ == "__main__":
    import multiprocessing

    only = sys.argv[1:]
    jobs = []
    for net_name in NETS:
        if only and net_name not in only:
            continue
        for label, args, acs, ded in configs():
            jobs.append((net_name, label, args, acs, ded))
    with multiprocessing.Pool(8) as pool:
        stats = {}
        for net_name, label, st, v, log in pool.imap_unordered(_run, jobs):
            stats[st] = stats.get(st, 0) + 1
            if st != "OK":
                print(f"## {st:10s} {net_name:18s} {label}")
                for s in v[:4]:
                    print("##       ", s)
                if log:
                    print("##       LOG:", log.strip().splitlines()[-3:])
        print("##", stats)
